#!/venv/bin/python
"""Measures the stored corpora (seeded/, benign/) against every check on the current /repo tree and writes corpus_expect.json:
the seeded changes not reported by their property and the (benign patch, property) pairs that still raise an alarm -- the OPEN items
the thorough tier tolerates (everything else must stay reported / silent).  Run by hand after the checks change; the file is committed,
never written by a check.   usage: tools/corpus_expect.py [--show]"""
import json, os, sys
sys.path.insert(0, os.path.dirname(os.path.dirname(os.path.abspath(__file__))))
from sa.check import run_rules, corpus_validate, load
from sa.core import VERIF
PROPS = ["C01", "C02", "C03", "C04", "C05", "C06", "C07", "C08", "C09", "C10", "C11", "C12", "C13", "C14", "C15", "C16", "C17", "C18", "C19", "C20"]
path = os.path.join(VERIF, "corpus_expect.json")
if "--from" in sys.argv:
    # the same list derived from a tools/corpus_measure.py run over benign/ and seeded/ on the same machinery (same in-memory analysis,
    # same criterion: a seed is reported when its property raises a new VIOLATION, a refactor is silent when nothing is raised)
    cm = json.load(open(sys.argv[sys.argv.index("--from") + 1]))
    unrep = sorted(k.split("/")[1] for k, v in cm.items() if k.startswith("seeded/") and v.get(k.split("/")[1][:3], {}).get("rc", 0) != 1)
    open_b = {k[len("benign/"):]: sorted(v) for k, v in sorted(cm.items()) if k.startswith("benign/") and v}
    out = {"_comment": "open items measured by tools/corpus_measure.py + tools/corpus_expect.py --from on the committed machinery; see DESIGN.md section 10.8",
           "seed_unreported": unrep, "benign_open": open_b}
    json.dump(out, open(path, "w"), indent=1)
    print("written", path, "-", len(unrep), "seeds unreported,", sum(len(v) for v in open_b.values()), "open (benign patch, property) pairs")
    sys.exit(0)
if os.path.exists(path):
    os.rename(path, path + ".old")
try:
    unrep, open_b = [], {}
    for p in PROPS:
        try:
            load(p)
        except ModuleNotFoundError:
            continue
        cv = corpus_validate(p, run_rules(p))
        for f in cv["failures"]:
            if "seed" in f:
                unrep.append(f["seed"])
            else:
                open_b.setdefault(f["benign"], []).append(p)
        print(p, f"seeds {cv['seeds_reported']}/{cv['seeds_total']}", f"benign {cv['benign_silent']}/{cv['benign_total']}", flush=True)
finally:
    if os.path.exists(path + ".old"):
        os.rename(path + ".old", path)
out = {"_comment": "open items measured by tools/corpus_expect.py on the committed machinery; see DESIGN.md section 10.8", "seed_unreported": sorted(unrep),
       "benign_open": {k: sorted(v) for k, v in sorted(open_b.items())}}
if "--show" in sys.argv:
    print(json.dumps(out, indent=1))
else:
    json.dump(out, open(path, "w"), indent=1)
    print("written", path, "-", len(unrep), "seeds unreported,", sum(len(v) for v in open_b.values()), "open (benign patch, property) pairs")
