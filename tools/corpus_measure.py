#!/venv/bin/python
"""usage: tools/corpus_measure.py <out.json> <dir> [<dir> ...]     (dirs below the framework root, e.g. benign/r6 benign_heldout/r7 seeded)
Analyses every patch.diff below the directories as an in-memory overlay of /repo's tree (sa/patchapply.py, as the thorough tier does)
with every check and writes, per (patch, property), the verdict: 0 silent, 1 VIOLATION (new w.r.t. the clean tree), 2 cannot analyse --
with the first messages.  A measuring tool for the build; no check depends on it."""
import json, os, sys
from concurrent.futures import ProcessPoolExecutor
ROOT = os.path.dirname(os.path.dirname(os.path.abspath(__file__)))
sys.path.insert(0, ROOT)
from sa.check import run_rules, _corpus_worker
from sa.core import VIOLATION
PROPS = ["C01", "C02", "C03", "C04", "C05", "C06", "C07", "C08", "C09", "C10", "C11", "C12", "C13", "C14", "C15", "C16", "C17", "C18", "C19", "C20"]


def main():
    out_path, roots = sys.argv[1], sys.argv[2:]
    patches = []
    for r in roots:
        for dp, dn, fn in os.walk(os.path.join(ROOT, r)):
            dn.sort()
            if "patch.diff" in fn:
                patches.append((os.path.relpath(dp, ROOT), os.path.join(dp, "patch.diff")))
    only = os.environ.get("CM_PROPS")
    props = only.split(",") if only else PROPS
    base = {}
    for p in props:
        base[p] = {(o.rule, o.key) for o in run_rules(p).by(VIOLATION)}
    jobs = [(p, "x", name, path) for name, path in patches for p in props]
    res = {}
    with ProcessPoolExecutor(max_workers=int(os.environ.get("CM_JOBS", "12"))) as ex:
        for (p, _, name, _), (kind, nm, state, viol, errs) in zip(jobs, ex.map(_corpus_worker, jobs, chunksize=4)):
            new = [v for v in viol if (v[0], v[1]) not in base[p]]
            rc = 1 if new else 2 if errs or state != "ran" else 0
            if rc:
                res.setdefault(name, {})[p] = {"rc": rc, "viol": [f"[{v[0]}] {v[1]}: {v[4]}" for v in new[:3]], "err": [f"[{e[0]}] {e[1]}: {e[4]}" for e in errs[:3]]}
            else:
                res.setdefault(name, {})
    json.dump(res, open(out_path, "w"), indent=1)
    bad = sum(1 for v in res.values() if v)
    print(f"{len(res)} patches, {bad} with a non-zero answer; pairs: rc1={sum(1 for v in res.values() for x in v.values() if x['rc'] == 1)} rc2={sum(1 for v in res.values() for x in v.values() if x['rc'] == 2)}")


if __name__ == "__main__":
    main()
