#!/venv/bin/python
"""Measuring tool for the build (no check depends on it): whole-tree behaviour-preserving 'everyday refactor' variants of naunet's Python,
run through the checks in memory.  usage: stress.py <kind>|all [PROP ...] ; --write <dir> <kind> writes the variant files."""
import ast, copy, os, sys
ROOT = os.environ.get("SA_ROOT", os.path.dirname(os.path.dirname(os.path.abspath(__file__))))
sys.path.insert(0, ROOT)
from concurrent.futures import ProcessPoolExecutor
from sa.check import run_rules
from sa.core import SourceTree, REPO

PROPS = ["C01", "C04", "C05", "C18", "C07", "C19", "C12", "C09", "C14"]


def names_in(node):
    return {x.id for x in ast.walk(node) if isinstance(x, ast.Name)}


def fn_names(fn):
    s = {x.id for x in ast.walk(fn) if isinstance(x, ast.Name)} | {a.arg for a in ast.walk(fn) if isinstance(a, ast.arg)}
    return s


def fresh(fn, base):
    used = fn_names(fn)
    k, nm = 0, base
    while nm in used:
        k += 1
        nm = f"{base}{k}"
    return nm


class PerFunction(ast.NodeTransformer):
    """applies self.block(fn, stmts) -> stmts to every statement list inside every function"""
    def visit_FunctionDef(self, fn):
        self.fn = fn
        self._extra = set()
        self.rewrite(fn)
        return fn

    def rewrite(self, node):
        for fld in ("body", "orelse", "finalbody"):
            b = getattr(node, fld, None)
            if isinstance(b, list) and b and isinstance(b[0], ast.stmt):
                for st in b:
                    if isinstance(st, (ast.FunctionDef, ast.ClassDef, ast.AsyncFunctionDef)):
                        continue
                    self.rewrite(st)
                setattr(node, fld, self.block(node, fld, b))
        for h in getattr(node, "handlers", []) or []:
            self.rewrite(h)

    def new(self, base):
        nm = fresh(self.fn, base)
        k = 0
        b = nm
        while nm in self._extra:
            k += 1
            nm = f"{b}_{k}"
        self._extra.add(nm)
        return nm

    def block(self, parent, fld, stmts):
        return stmts


def ld(n):
    return ast.Name(id=n, ctx=ast.Load())


def stv(n):
    return ast.Name(id=n, ctx=ast.Store())


class RetTemp(PerFunction):
    def block(self, parent, fld, stmts):
        out = []
        for st in stmts:
            if isinstance(st, ast.Return) and st.value is not None and not isinstance(st.value, (ast.Name, ast.Constant)):
                t = self.new("result")
                out += [ast.Assign(targets=[stv(t)], value=st.value), ast.Return(value=ld(t))]
            else:
                out.append(st)
        return out


class IfExpStmt(PerFunction):
    def block(self, parent, fld, stmts):
        out = []
        for st in stmts:
            if isinstance(st, ast.Assign) and len(st.targets) == 1 and isinstance(st.value, ast.IfExp):
                v = st.value
                out.append(ast.If(test=v.test, body=[ast.Assign(targets=[copy.deepcopy(st.targets[0])], value=v.body)],
                                  orelse=[ast.Assign(targets=[copy.deepcopy(st.targets[0])], value=v.orelse)]))
            elif isinstance(st, ast.Return) and isinstance(st.value, ast.IfExp):
                v = st.value
                out += [ast.If(test=v.test, body=[ast.Return(value=v.body)], orelse=[]), ast.Return(value=v.orelse)]
            else:
                out.append(st)
        return out


class StmtIfExp(PerFunction):
    """if c: x = a else: x = b  ->  x = a if c else b"""
    def block(self, parent, fld, stmts):
        out = []
        for st in stmts:
            if isinstance(st, ast.If) and len(st.body) == 1 and len(st.orelse) == 1 and isinstance(st.body[0], ast.Assign) and isinstance(st.orelse[0], ast.Assign) \
                    and len(st.body[0].targets) == 1 and len(st.orelse[0].targets) == 1 and isinstance(st.body[0].targets[0], ast.Name) \
                    and ast.dump(st.body[0].targets[0]) == ast.dump(st.orelse[0].targets[0]):
                out.append(ast.Assign(targets=[st.body[0].targets[0]], value=ast.IfExp(test=st.test, body=st.body[0].value, orelse=st.orelse[0].value)))
            else:
                out.append(st)
        return out


def neg(t):
    if isinstance(t, ast.UnaryOp) and isinstance(t.op, ast.Not):
        return t.operand
    return ast.UnaryOp(op=ast.Not(), operand=t)


class Guard(PerFunction):
    """last statement of a loop body `if c: BODY` (no else) -> `if not c: continue` ; BODY.  Same at the end of a function with `return`."""
    def block(self, parent, fld, stmts):
        if fld != "body" or not stmts:
            return stmts
        last = stmts[-1]
        if isinstance(last, ast.If) and not last.orelse and len(last.body) >= 1:
            if isinstance(parent, (ast.For, ast.While)):
                return stmts[:-1] + [ast.If(test=neg(last.test), body=[ast.Continue()], orelse=[])] + last.body
            if isinstance(parent, ast.FunctionDef) and len(last.body) >= 2:
                return stmts[:-1] + [ast.If(test=neg(last.test), body=[ast.Return(value=None)], orelse=[])] + last.body
        return stmts


class Unguard(PerFunction):
    """loop body [.., if c: continue, REST]  ->  [.., if not c: REST]"""
    def block(self, parent, fld, stmts):
        if fld != "body" or not isinstance(parent, (ast.For, ast.While)):
            return stmts
        for i, st in enumerate(stmts):
            if isinstance(st, ast.If) and not st.orelse and len(st.body) == 1 and isinstance(st.body[0], ast.Continue) and i + 1 < len(stmts):
                return stmts[:i] + [ast.If(test=neg(st.test), body=self.block(parent, fld, stmts[i + 1:]), orelse=[])]
        return stmts


class ElseReturn(PerFunction):
    """if c: ..return  else: REST   ->   if c: ..return ; REST"""
    def block(self, parent, fld, stmts):
        out = []
        for i, st in enumerate(stmts):
            if isinstance(st, ast.If) and st.orelse and isinstance(st.body[-1], (ast.Return, ast.Raise, ast.Continue)) and i == len(stmts) - 1 \
                    and not (len(st.orelse) == 1 and isinstance(st.orelse[0], ast.If)):
                rest = st.orelse
                st.orelse = []
                out.append(st)
                out += rest
            else:
                out.append(st)
        return out


class ReturnElse(PerFunction):
    """if c: ..return ; REST   ->   if c: ..return  else: REST"""
    def block(self, parent, fld, stmts):
        for i, st in enumerate(stmts):
            if isinstance(st, ast.If) and not st.orelse and isinstance(st.body[-1], (ast.Return, ast.Raise, ast.Continue)) and i + 1 < len(stmts):
                st.orelse = self.block(parent, fld, stmts[i + 1:])
                return stmts[:i + 1]
        return stmts


class FstrFormat(ast.NodeTransformer):
    def visit_JoinedStr(self, n):
        for v in n.values:
            if isinstance(v, ast.FormattedValue):
                v.value = self.visit(v.value)
        txt, args = "", []
        for v in n.values:
            if isinstance(v, ast.Constant):
                txt += v.value.replace("{", "{{").replace("}", "}}")
            elif isinstance(v, ast.FormattedValue):
                spec = ""
                if v.format_spec is not None:
                    if not all(isinstance(x, ast.Constant) for x in v.format_spec.values):
                        return n
                    spec = ":" + "".join(x.value for x in v.format_spec.values)
                conv = {-1: "", 115: "!s", 114: "!r", 97: "!a"}[v.conversion]
                txt += "{" + conv + spec + "}"
                args.append(v.value)
            else:
                return n
        if not args:
            return n
        return ast.Call(func=ast.Attribute(value=ast.Constant(value=txt), attr="format", ctx=ast.Load()), args=args, keywords=[])


def pure_ref(e):
    return all(isinstance(x, (ast.Name, ast.Attribute, ast.Load)) for x in ast.walk(e))


class InOr(ast.NodeTransformer):
    def visit_Compare(self, n):
        self.generic_visit(n)
        if len(n.ops) == 1 and isinstance(n.ops[0], (ast.In, ast.NotIn)) and pure_ref(n.left) and isinstance(n.comparators[0], (ast.Tuple, ast.List)) \
                and 2 <= len(n.comparators[0].elts) <= 4 and not any(isinstance(e, ast.Starred) for e in n.comparators[0].elts):
            isin = isinstance(n.ops[0], ast.In)
            return ast.BoolOp(op=ast.Or() if isin else ast.And(),
                              values=[ast.Compare(left=copy.deepcopy(n.left), ops=[ast.Eq() if isin else ast.NotEq()], comparators=[e]) for e in n.comparators[0].elts])
        return n


class OrIn(ast.NodeTransformer):
    def visit_BoolOp(self, n):
        self.generic_visit(n)
        if isinstance(n.op, ast.Or) and len(n.values) >= 2 and all(isinstance(v, ast.Compare) and len(v.ops) == 1 and isinstance(v.ops[0], ast.Eq) and pure_ref(v.left) for v in n.values) \
                and len({ast.dump(v.left) for v in n.values}) == 1:
            return ast.Compare(left=n.values[0].left, ops=[ast.In()], comparators=[ast.Tuple(elts=[v.comparators[0] for v in n.values], ctx=ast.Load())])
        return n


class SplitTuple(PerFunction):
    def block(self, parent, fld, stmts):
        out = []
        for st in stmts:
            if isinstance(st, ast.Assign) and len(st.targets) == 1 and isinstance(st.targets[0], ast.Tuple) and isinstance(st.value, ast.Tuple) \
                    and len(st.targets[0].elts) == len(st.value.elts) and all(isinstance(t, ast.Name) for t in st.targets[0].elts) \
                    and not any(isinstance(v, ast.Starred) for v in st.value.elts):
                tn = [t.id for t in st.targets[0].elts]
                if all(not (set(tn[:i]) & names_in(v)) for i, v in enumerate(st.value.elts)) and len(set(tn)) == len(tn):
                    out += [ast.Assign(targets=[t], value=v) for t, v in zip(st.targets[0].elts, st.value.elts)]
                    continue
            out.append(st)
        return out


class JoinTuple(PerFunction):
    def block(self, parent, fld, stmts):
        out = []
        i = 0
        while i < len(stmts):
            a = stmts[i]
            b = stmts[i + 1] if i + 1 < len(stmts) else None
            ok = lambda s: isinstance(s, ast.Assign) and len(s.targets) == 1 and isinstance(s.targets[0], ast.Name)
            if b is not None and ok(a) and ok(b) and a.targets[0].id != b.targets[0].id and a.targets[0].id not in names_in(b.value):
                out.append(ast.Assign(targets=[ast.Tuple(elts=[a.targets[0], b.targets[0]], ctx=ast.Store())], value=ast.Tuple(elts=[a.value, b.value], ctx=ast.Load())))
                i += 2
                continue
            out.append(a)
            i += 1
        return out


class CompLoop(PerFunction):
    def block(self, parent, fld, stmts):
        out = []
        for st in stmts:
            if isinstance(st, ast.Assign) and len(st.targets) == 1 and isinstance(st.targets[0], ast.Name) and isinstance(st.value, (ast.ListComp, ast.DictComp, ast.SetComp)):
                c = st.value
                x = st.targets[0].id
                tv = set()
                for g in c.generators:
                    tv |= names_in(g.target)
                # the comprehension variables become function locals: they must not be used anywhere else in the function
                others = [n for n in ast.walk(self.fn) if isinstance(n, ast.Name) and n.id in tv]
                inside = [n for n in ast.walk(c) if isinstance(n, ast.Name) and n.id in tv]
                nested = any(isinstance(y, (ast.ListComp, ast.DictComp, ast.SetComp, ast.GeneratorExp, ast.Lambda)) for y in ast.walk(c) if y is not c)
                if len(others) == len(inside) and x not in names_in(c) and not nested and not any(g.is_async for g in c.generators):
                    if isinstance(c, ast.ListComp):
                        init, acc = ast.List(elts=[], ctx=ast.Load()), ast.Expr(ast.Call(func=ast.Attribute(value=ld(x), attr="append", ctx=ast.Load()), args=[c.elt], keywords=[]))
                    elif isinstance(c, ast.SetComp):
                        init, acc = ast.Call(func=ld("set"), args=[], keywords=[]), ast.Expr(ast.Call(func=ast.Attribute(value=ld(x), attr="add", ctx=ast.Load()), args=[c.elt], keywords=[]))
                    else:
                        init, acc = ast.Dict(keys=[], values=[]), ast.Assign(targets=[ast.Subscript(value=ld(x), slice=c.key, ctx=ast.Store())], value=c.value)
                    body = [acc]
                    for g in reversed(c.generators):
                        for cond in reversed(g.ifs):
                            body = [ast.If(test=cond, body=body, orelse=[])]
                        body = [ast.For(target=g.target, iter=g.iter, body=body, orelse=[], type_comment=None)]
                    out += [ast.Assign(targets=[stv(x)], value=init)] + body
                    continue
            out.append(st)
        return out


class HoistValue(PerFunction):
    """`a.b = E` / `a[k] = E` -> `value = E; a.b = value`;   `for t in E:` -> `items = E; for t in items:`;  `if E:` (call inside) -> `cond = E; if cond:`"""
    def block(self, parent, fld, stmts):
        out = []
        for st in stmts:
            if isinstance(st, ast.Assign) and len(st.targets) == 1 and isinstance(st.targets[0], (ast.Attribute, ast.Subscript)) and not isinstance(st.value, (ast.Name, ast.Constant)):
                t = self.new("value")
                out += [ast.Assign(targets=[stv(t)], value=st.value), ast.Assign(targets=st.targets, value=ld(t))]
            elif isinstance(st, ast.For) and not isinstance(st.iter, ast.Name):
                t = self.new("items")
                out.append(ast.Assign(targets=[stv(t)], value=st.iter))
                st.iter = ld(t)
                out.append(st)
            elif isinstance(st, ast.Expr) and isinstance(st.value, ast.Call) and isinstance(st.value.func, ast.Attribute) and st.value.func.attr in ("append", "add") \
                    and len(st.value.args) == 1 and not isinstance(st.value.args[0], (ast.Name, ast.Constant, ast.Starred)) and pure_ref(st.value.func.value):
                t = self.new("item")
                out.append(ast.Assign(targets=[stv(t)], value=st.value.args[0]))
                st.value.args = [ld(t)]
                out.append(st)
            else:
                out.append(st)
        return out


class HoistCond(PerFunction):
    def block(self, parent, fld, stmts):
        out = []
        for st in stmts:
            if isinstance(st, ast.If) and any(isinstance(x, ast.Call) for x in ast.walk(st.test)) and not isinstance(st.test, ast.BoolOp):
                t = self.new("cond")
                out.append(ast.Assign(targets=[stv(t)], value=st.test))
                st.test = ld(t)
            out.append(st)
        return out


SAFE_CALLS = {"len", "str", "int", "float", "bool", "tuple", "list", "sorted", "set", "dict", "repr", "abs", "min", "max"}


def pure_expr(e):
    for x in ast.walk(e):
        if isinstance(x, ast.Call) and not (isinstance(x.func, ast.Name) and x.func.id in SAFE_CALLS):
            return False
        if isinstance(x, (ast.Yield, ast.YieldFrom, ast.Await, ast.NamedExpr, ast.Lambda, ast.ListComp, ast.SetComp, ast.DictComp, ast.GeneratorExp)):
            return False
    return True


class InlineTemp(PerFunction):
    """t = E (pure) ; next simple statement uses t exactly once and t occurs nowhere else in the function -> substitute"""
    def block(self, parent, fld, stmts):
        out = []
        i = 0
        while i < len(stmts):
            a = stmts[i]
            b = stmts[i + 1] if i + 1 < len(stmts) else None
            if b is not None and isinstance(a, ast.Assign) and len(a.targets) == 1 and isinstance(a.targets[0], ast.Name) and pure_expr(a.value) \
                    and isinstance(b, (ast.Assign, ast.Expr, ast.Return, ast.AugAssign)):
                t = a.targets[0].id
                total = [n for n in ast.walk(self.fn) if isinstance(n, ast.Name) and n.id == t]
                uses = [n for n in ast.walk(b) if isinstance(n, ast.Name) and n.id == t and isinstance(n.ctx, ast.Load)]
                incomp = any(isinstance(y, (ast.ListComp, ast.SetComp, ast.DictComp, ast.GeneratorExp, ast.Lambda)) and t in names_in(y) for y in ast.walk(b))
                if len(total) == 2 and len(uses) == 1 and not incomp:
                    val = a.value

                    class R(ast.NodeTransformer):
                        def visit_Name(self, n):
                            return copy.deepcopy(val) if n.id == t and isinstance(n.ctx, ast.Load) else n
                    out.append(R().visit(b))
                    i += 2
                    continue
            out.append(a)
            i += 1
        return out


class DictStores(PerFunction):
    def block(self, parent, fld, stmts):
        out = []
        for st in stmts:
            if isinstance(st, ast.Assign) and len(st.targets) == 1 and isinstance(st.targets[0], ast.Name) and isinstance(st.value, ast.Dict) and st.value.keys \
                    and all(k is not None for k in st.value.keys) and st.targets[0].id not in names_in(st.value):
                x = st.targets[0].id
                out.append(ast.Assign(targets=[stv(x)], value=ast.Dict(keys=[], values=[])))
                out += [ast.Assign(targets=[ast.Subscript(value=ld(x), slice=k, ctx=ast.Store())], value=v) for k, v in zip(st.value.keys, st.value.values)]
            else:
                out.append(st)
        return out


class EnumRange(PerFunction):
    """for i, v in enumerate(X) (X a plain name / attribute chain, loop does not touch X) -> for i in range(len(X)): v = X[i]"""
    def block(self, parent, fld, stmts):
        for st in stmts:
            if isinstance(st, ast.For) and isinstance(st.iter, ast.Call) and isinstance(st.iter.func, ast.Name) and st.iter.func.id == "enumerate" and len(st.iter.args) == 1 \
                    and not st.iter.keywords and pure_ref(st.iter.args[0]) and isinstance(st.target, ast.Tuple) and len(st.target.elts) == 2 and isinstance(st.target.elts[0], ast.Name):
                X = st.iter.args[0]
                i, v = st.target.elts
                st.target = i
                st.iter = ast.Call(func=ld("range"), args=[ast.Call(func=ld("len"), args=[copy.deepcopy(X)], keywords=[])], keywords=[])
                st.body = [ast.Assign(targets=[v], value=ast.Subscript(value=copy.deepcopy(X), slice=ld(i.id), ctx=ast.Load()))] + st.body
        return stmts


class RenamePrivate(ast.NodeTransformer):
    """every function / method defined in the package whose name starts with one underscore gets the suffix `_impl` (defs, attribute reads, names)"""
    def __init__(self, names):
        self.names = names

    def visit_FunctionDef(self, n):
        self.generic_visit(n)
        if n.name in self.names:
            n.name += "_impl"
        return n

    def visit_Attribute(self, n):
        self.generic_visit(n)
        if n.attr in self.names:
            n.attr += "_impl"
        return n

    def visit_Name(self, n):
        if n.id in self.names:
            n.id += "_impl"
        return n


KINDS = {"ret-temp": RetTemp, "ifexp-stmt": IfExpStmt, "stmt-ifexp": StmtIfExp, "guard": Guard, "unguard": Unguard, "else-return": ElseReturn, "return-else": ReturnElse,
         "fstr-format": FstrFormat, "in-or": InOr, "or-in": OrIn, "split-tuple": SplitTuple, "join-tuple": JoinTuple, "comp-loop": CompLoop, "hoist-value": HoistValue,
         "hoist-cond": HoistCond, "inline-temp": InlineTemp, "dict-stores": DictStores, "enum-range": EnumRange, "rename-private": RenamePrivate}


# ---------------------------------------------------------------------------------------------- extract method / function
def _assigned(stmts):
    out = set()
    for st in stmts:
        for x in ast.walk(st):
            if isinstance(x, ast.Name) and isinstance(x.ctx, (ast.Store, ast.Del)):
                out.add(x.id)
    return out


def _read(stmts):
    return {x.id for st in stmts for x in ast.walk(st) if isinstance(x, ast.Name) and isinstance(x.ctx, ast.Load)}


def _blocked(stmts):
    """constructs that make a block non-extractable: return / yield / break / continue belonging outside, closures, global, del, try"""
    def rec(node, inloop):
        for ch in ast.iter_child_nodes(node):
            if isinstance(ch, (ast.Return, ast.Yield, ast.YieldFrom, ast.Lambda, ast.FunctionDef, ast.ClassDef, ast.Global, ast.Nonlocal, ast.Delete, ast.Await,
                               ast.ListComp, ast.SetComp, ast.DictComp, ast.GeneratorExp, ast.NamedExpr)) and not isinstance(ch, (ast.ListComp, ast.SetComp, ast.DictComp, ast.GeneratorExp)):
                return True
            if isinstance(ch, (ast.Break, ast.Continue)) and not inloop:
                return True
            if rec(ch, inloop or isinstance(ch, (ast.For, ast.While))):
                return True
        return False
    wrapper = ast.Module(body=list(stmts), type_ignores=[])
    return rec(wrapper, False)


def _exposed(stmts, assigned=frozenset()):
    """(names read before being definitely assigned in the statement list, definitely assigned afterwards)"""
    exp = set()
    asg = set(assigned)

    def reads(e):
        comp = set()
        for c in ast.walk(e):
            if isinstance(c, ast.comprehension):
                comp |= {n.id for n in ast.walk(c.target) if isinstance(n, ast.Name)}
        for n in ast.walk(e):
            if isinstance(n, ast.Name) and isinstance(n.ctx, ast.Load) and n.id not in asg and n.id not in comp:
                exp.add(n.id)

    def tnames(t):
        return {n.id for n in ast.walk(t) if isinstance(n, ast.Name) and isinstance(n.ctx, ast.Store)}

    for st in stmts:
        if isinstance(st, ast.Assign):
            reads(st.value)
            for t in st.targets:
                for n in ast.walk(t):
                    if isinstance(n, ast.Name) and isinstance(n.ctx, ast.Load) and n.id not in asg:
                        exp.add(n.id)
                asg |= tnames(t)
        elif isinstance(st, ast.AugAssign):
            reads(st.value)
            for n in ast.walk(st.target):
                if isinstance(n, ast.Name) and n.id not in asg:
                    exp.add(n.id)
        elif isinstance(st, ast.AnnAssign):
            if st.value is not None:
                reads(st.value)
                asg |= tnames(st.target)
        elif isinstance(st, (ast.For,)):
            reads(st.iter)
            e2, _ = _exposed(st.body, asg | tnames(st.target))
            exp |= e2
            e3, _ = _exposed(st.orelse, asg)
            exp |= e3
        elif isinstance(st, ast.While):
            reads(st.test)
            e2, _ = _exposed(st.body + st.orelse, asg)
            exp |= e2
        elif isinstance(st, ast.If):
            reads(st.test)
            e2, a2 = _exposed(st.body, asg)
            e3, a3 = _exposed(st.orelse, asg)
            exp |= e2 | e3
            asg = a2 & a3
        elif isinstance(st, ast.With):
            for it in st.items:
                reads(it.context_expr)
                if it.optional_vars is not None:
                    asg |= tnames(it.optional_vars)
            e2, a2 = _exposed(st.body, asg)
            exp |= e2
            asg = a2
        else:
            reads(st)
    return exp, asg


class Extract(ast.NodeTransformer):
    """the k-th extractable block of every function becomes a helper (method when the function is a method using self, else a module function)"""
    def __init__(self, k, mode, seq=0):
        self.k, self.mode, self.seq = k, mode, seq
        self.new_funcs = []
        self.cls = None

    def visit_ClassDef(self, c):
        old, self.cls = self.cls, c
        new_body = []
        for st in c.body:
            if isinstance(st, ast.FunctionDef):
                helpers = self.handle(st, c)
                new_body.append(st)
                new_body += helpers
            else:
                new_body.append(st)
        c.body = new_body
        self.cls = old
        return c

    def visit_Module(self, m):
        new_body = []
        for st in m.body:
            if isinstance(st, ast.FunctionDef):
                helpers = self.handle(st, None)
                new_body.append(st)
                new_body += helpers
            elif isinstance(st, ast.ClassDef):
                new_body.append(self.visit_ClassDef(st))
            else:
                new_body.append(st)
        # module-level helpers created for methods go to the end of the module (resolved at call time)
        m.body = new_body + self.new_funcs
        return m

    def candidates(self, fn):
        """(container list, start, end) blocks: compound top-level statements, bodies of top-level loops, and the same one level down"""
        out = []

        def scan(stmts, depth):
            for i, st in enumerate(stmts):
                if isinstance(st, (ast.For, ast.While, ast.If, ast.With)) and not self.seq:
                    out.append((stmts, i, i + 1))
                if self.seq and i + self.seq <= len(stmts) and all(isinstance(x, (ast.Assign, ast.Expr, ast.AugAssign)) for x in stmts[i:i + self.seq]) \
                        and not (isinstance(st, ast.Expr) and isinstance(st.value, ast.Constant)):
                    out.append((stmts, i, i + self.seq))
                if isinstance(st, (ast.For,)) and len(st.body) >= 2 and not self.seq:
                    out.append((st.body, 0, len(st.body)))
                if depth < 1:
                    for fld in ("body", "orelse"):
                        b = getattr(st, fld, None)
                        if isinstance(b, list) and b and isinstance(b[0], ast.stmt) and not isinstance(st, (ast.FunctionDef, ast.ClassDef)):
                            scan(b, depth + 1)
        scan(fn.body, 0)
        return out

    def handle(self, fn, cls):
        if any(isinstance(x, (ast.Yield, ast.YieldFrom, ast.Global, ast.Nonlocal)) for x in ast.walk(fn)):
            return []
        if any(isinstance(x, (ast.FunctionDef, ast.Lambda)) for x in ast.walk(fn) if x is not fn):
            return []
        params = {a.arg for a in fn.args.args + fn.args.kwonlyargs + fn.args.posonlyargs} | ({fn.args.vararg.arg} if fn.args.vararg else set()) | ({fn.args.kwarg.arg} if fn.args.kwarg else set())
        locs = _assigned(fn.body) | params
        good = []
        for stmts, a, b in self.candidates(fn):
            block = stmts[a:b]
            if _blocked(block):
                continue
            # everything before / after the block in the function, by source order
            first, last = block[0].lineno, max(getattr(x, "end_lineno", 0) or 0 for st in block for x in ast.walk(st))
            before = [x for x in ast.walk(fn) if isinstance(x, ast.Name) and isinstance(x.ctx, ast.Store) and x.lineno < first]
            defined_before = {x.id for x in before} | params
            # a block inside a loop: names assigned later in the loop body may flow around -> treat everything assigned in the function as "maybe defined"
            inside_loop = stmts is not fn.body
            reads = _exposed(block)[0] & locs
            writes = _assigned(block)
            after_reads = {x.id for x in ast.walk(fn) if isinstance(x, ast.Name) and isinstance(x.ctx, ast.Load) and (x.lineno > last or (inside_loop and x.lineno < first))}
            outs = sorted(writes & after_reads) if not inside_loop else sorted(writes & (after_reads | reads))
            # comprehension variables are not locals
            compvars = {n.id for c in ast.walk(ast.Module(body=block, type_ignores=[])) if isinstance(c, ast.comprehension) for n in ast.walk(c.target) if isinstance(n, ast.Name)}
            outs = [o for o in outs if o not in compvars]
            definitely = _exposed(block)[1]
            if any(o not in defined_before and o not in definitely for o in outs):
                continue
            if inside_loop and any(r not in defined_before for r in reads):
                continue
            ins = sorted((reads & defined_before) | {o for o in outs if o not in definitely})
            if len(ins) > 8 or len(outs) > 3:
                continue
            good.append((stmts, a, b, ins, outs))
        if len(good) <= self.k:
            return []
        stmts, a, b, ins, outs = good[self.k]
        block = stmts[a:b]
        is_method = cls is not None and fn.args.args and fn.args.args[0].arg == "self" and not any(ast.unparse(d) in ("staticmethod", "classmethod") for d in fn.decorator_list) and self.mode == "method"
        hname = (f"_{cls.name.lower()}" if cls is not None else "") + f"_x_{fn.name}_step{self.k + 1}"
        body = list(block)
        if outs:
            body.append(ast.Return(value=ld(outs[0]) if len(outs) == 1 else ast.Tuple(elts=[ld(o) for o in outs], ctx=ast.Load())))
        if is_method:
            pars = ["self"] + [i for i in ins if i != "self"]
            callee = ast.Attribute(value=ld("self"), attr=hname, ctx=ast.Load())
            cargs = [ld(i) for i in ins if i != "self"]
        else:
            pars = list(ins)
            callee = ld(hname)
            cargs = [ld(i) for i in ins]
        helper = ast.FunctionDef(name=hname, args=ast.arguments(posonlyargs=[], args=[ast.arg(arg=p_) for p_ in pars], kwonlyargs=[], kw_defaults=[], defaults=[]),
                                 body=body, decorator_list=[], returns=None, type_comment=None, type_params=[])
        call = ast.Call(func=callee, args=cargs, keywords=[])
        if outs:
            tgt = stv(outs[0]) if len(outs) == 1 else ast.Tuple(elts=[stv(o) for o in outs], ctx=ast.Store())
            repl = ast.Assign(targets=[tgt], value=call)
        else:
            repl = ast.Expr(value=call)
        stmts[a:b] = [repl]
        if is_method or cls is None:
            return [helper]
        self.new_funcs.append(helper)
        return []


for _k in range(0, 12, 2):
    KINDS[f"extract-seq-{_k}"] = (lambda k: (lambda: Extract(k, "method", 2)))(_k)
    KINDS[f"extract-seq3-{_k}"] = (lambda k: (lambda: Extract(k, "method", 3)))(_k)
for _k in range(5):
    KINDS[f"extract-method-{_k}"] = (lambda k: (lambda: Extract(k, "method")))(_k)
    KINDS[f"extract-func-{_k}"] = (lambda k: (lambda: Extract(k, "func")))(_k)


def transform(tree, kind, only=None):
    overlay = {}
    files = [rel for rel in tree.files() if rel.endswith(".py") and not rel.startswith("naunet/examples/")]
    priv = set()
    if kind == "rename-private":
        for rel in files:
            for x in ast.walk(ast.parse(tree.read(rel))):
                if isinstance(x, ast.FunctionDef) and x.name.startswith("_") and not x.name.startswith("__"):
                    priv.add(x.name)
        # names that also occur as strings (getattr, templates) stay
        alltext = "".join(tree.read(f) for f in tree.files() if f.endswith((".j2", ".py")))
        priv = {p for p in priv if f'"{p}"' not in alltext and f"'{p}'" not in alltext}
    for rel in files:
        if only and not any(o in rel for o in only):
            continue
        src = tree.read(rel)
        mod = ast.parse(src)
        before = ast.dump(mod)
        mod = (KINDS[kind](priv) if kind == "rename-private" else KINDS[kind]()).visit(mod)
        ast.fix_missing_locations(mod)
        if ast.dump(mod) != before:
            overlay[rel] = ast.unparse(mod) + "\n"
    return overlay


def job(a):
    prop, kind = a
    try:
        ov = transform(SourceTree(REPO), kind)
        base = {(o.rule, o.key, o.outcome) for o in run_rules(prop).obs}
        ctx = run_rules(prop, ov)
        new = [(o.outcome, o.rule, o.key[:90], o.file, o.line, o.msg[:200]) for o in ctx.obs if o.outcome != "DISCHARGED" and (o.rule, o.key, o.outcome) not in base]
    except Exception as e:
        import traceback
        new = [("CRASH", "", "", "", 0, traceback.format_exc()[-600:])]
    return prop, kind, new


if __name__ == "__main__":
    args = sys.argv[1:]
    if args[0] == "--write":
        d, kind = args[1], args[2]
        for rel, txt in transform(SourceTree(REPO), kind).items():
            p = os.path.join(d, rel)
            open(p, "w").write(txt)
        sys.exit(0)
    kinds = list(KINDS) if args[0] == "all" else args[0].split(",")
    props = [a for a in args[1:] if a.startswith("C")] or PROPS
    with ProcessPoolExecutor(max_workers=int(os.environ.get("JOBS", "5"))) as ex:
        for prop, kind, new in ex.map(job, [(p, k) for k in kinds for p in props]):
            print(f"{kind} {prop}: {len(new)} new non-discharged obligations", flush=True)
            for n in new[:int(os.environ.get("SHOW", "6"))]:
                print("   ", n, flush=True)
