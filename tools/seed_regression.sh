#!/bin/bash
# Re-runs every stored seeded change against the checks: each must be reported (exit 1) by the property it breaks.
# Uses one scratch worktree of /repo HEAD outside /repo and /verif; removes it afterwards.
wt=/tmp/seedreg.$$
git -C /repo worktree add -q --detach $wt HEAD || exit 3
fail=0
for d in /verif/seeded/*/; do
  id=$(basename $d); prop=${id:0:3}
  if ! git -C $wt apply $d/patch.diff 2>/dev/null; then echo "$id: patch does not apply to HEAD"; fail=1; continue; fi
  (cd /verif && NAUNET_REPO=$wt /venv/bin/python -m sa.check $prop --tier quick --no-evidence >/tmp/seedreg.$$.log 2>&1); rc=$?
  others=""
  if [ "$1" = "--all" ]; then
    for p in C01 C02 C03 C04 C05 C06 C07 C08 C09 C10 C11 C12 C13 C14 C15 C16 C17 C18 C19 C20; do
      [ $p = $prop ] && continue
      (cd /verif && NAUNET_REPO=$wt /venv/bin/python -m sa.check $p --tier quick --no-evidence >/dev/null 2>&1); r=$?
      [ $r -ne 0 ] && others="$others $p:$r"
    done
  fi
  [ $rc -eq 1 ] && echo "$id: reported by $prop$([ -n "$others" ] && echo " (also:$others)")" || { echo "$id: NOT reported by $prop (exit $rc)"; fail=1; }
  git -C $wt checkout -q -- .
done
git -C /repo worktree remove --force $wt; rm -f /tmp/seedreg.$$.log
exit $fail
