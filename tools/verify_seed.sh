#!/bin/bash
# usage: tools/verify_seed.sh <Cxx> <a|b> -- verifies one seeded change in a scratch worktree of /repo HEAD and prints a JSON line
id=$1; v=$2
src=${SEED_SRC:-/tmp/seed/$id/seedout/$v}
wt=/tmp/vseed/$id$v
rm -rf $wt; mkdir -p /tmp/vseed
git -C /repo worktree add -q --detach $wt HEAD 2>/dev/null || { echo "{\"id\":\"$id$v\",\"error\":\"worktree\"}"; exit 0; }
cd $wt
demo=$src/demo.py
[ -f $demo ] || demo=$(ls $src/*.py | head -1)
NAUNET_TREE=$wt timeout 600 /venv/bin/python $demo >/tmp/vseed/$id$v.clean.log 2>&1; clean=$?
if git apply --check $src/patch.diff 2>/dev/null; then git apply $src/patch.diff; applied=1; else applied=0; fi
NAUNET_TREE=$wt timeout 600 /venv/bin/python $demo >/tmp/vseed/$id$v.patched.log 2>&1; patched=$?
suite=$(timeout 900 /venv/bin/python -m pytest -q -p no:cacheprovider --timeout=900 --continue-on-collection-errors 2>&1 | tail -1)
checks=""
for p in C01 C02 C03 C04 C05 C06 C07 C08 C09 C10 C11 C12 C13 C14 C15 C16 C17 C18 C19 C20; do
  (cd ${VERIF_DIR:-/verif} && NAUNET_REPO=$wt /venv/bin/python -m sa.check $p --tier quick --no-evidence >/dev/null 2>&1); rc=$?
  [ $rc -ne 0 ] && checks="$checks $p:$rc"
done
cd /; git -C /repo worktree remove --force $wt
echo "{\"id\":\"$id$v\",\"applied\":$applied,\"demo_clean\":$clean,\"demo_patched\":$patched,\"suite\":\"$suite\",\"checks_nonzero\":\"$checks\"}"
