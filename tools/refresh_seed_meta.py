#!/venv/bin/python
"""usage: tools/refresh_seed_meta.py <corpus_measure.json>
Rewrites, in every seeded/<id>/meta.json, which checks report the change / cannot analyse it, from a corpus_measure run on the current
machinery (in-memory overlay of the stored patch; demonstration and test-suite results are those of the original verification in a
scratch worktree and do not depend on the checks).  The record of the first measurement (before_strengthening) is kept."""
import json, os, sys
ROOT = os.path.dirname(os.path.dirname(os.path.abspath(__file__)))
cm = json.load(open(sys.argv[1]))
n = 0
for name, res in sorted(cm.items()):
    if not name.startswith("seeded/"):
        continue
    p = os.path.join(ROOT, name, "meta.json")
    if not os.path.isfile(p):
        continue
    m = json.load(open(p))
    m["checks_reporting_violation"] = sorted(k for k, v in res.items() if v["rc"] == 1)
    m["checks_analysis_error"] = sorted(k for k, v in res.items() if v["rc"] == 2)
    m["reported_by_target"] = m["breaks_property"] in m["checks_reporting_violation"]
    note = "check verdicts re-measured on the final machinery with tools/corpus_measure.py (in-memory overlay of patch.diff on /repo HEAD)"
    if note not in m["what_was_run"]:
        m["what_was_run"].append(note)
    json.dump(m, open(p, "w"), indent=1)
    n += 1
print(n, "records refreshed")
