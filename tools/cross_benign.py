#!/venv/bin/python
"""False-alarm test across properties: every BENIGN (behaviour-preserving) variant of every property module is analysed by
EVERY registered check (self-validation only runs the owning property).  Any new violation or analysis error is printed.
usage: /venv/bin/python tools/cross_benign.py        (exit 0 = all silent)"""
import os, sys
sys.path.insert(0, os.path.dirname(os.path.dirname(os.path.abspath(__file__))))
from concurrent.futures import ProcessPoolExecutor
from sa.check import load, run_rules, apply_edit
from sa.core import SourceTree, REPO, VIOLATION, UNRECOGNISED, MISSING

PROPS = ["C01", "C02", "C03", "C04", "C05", "C06", "C07", "C08", "C09", "C10", "C11", "C12", "C13", "C14", "C15", "C16", "C17", "C18", "C19", "C20"]


def job(a):
    owner, m, prop = a
    ov = apply_edit(SourceTree(REPO), m)
    if ov is None:
        return (owner, m["name"], prop, "inapplicable", [])
    base = run_rules(prop)
    bk = {(o.rule, o.key, o.outcome) for o in base.obs if o.outcome != "DISCHARGED"}
    ctx = run_rules(prop, ov)
    new = [(o.outcome, o.rule, o.key[:80], o.msg[:140]) for o in ctx.by(VIOLATION) + ctx.by(UNRECOGNISED) + ctx.by(MISSING) if (o.rule, o.key, o.outcome) not in bk]
    return (owner, m["name"], prop, "ran", new)


if __name__ == "__main__":
    jobs = []
    for owner in PROPS:
        for m in getattr(load(owner), "BENIGN", []):
            for prop in PROPS:
                if prop != owner:
                    jobs.append((owner, m, prop))
    bad = 0
    with ProcessPoolExecutor(max_workers=16) as ex:
        for owner, name, prop, state, new in ex.map(job, jobs, chunksize=4):
            if new:
                bad += 1
                print(f"ALARM {prop} on benign {owner}:{name}")
                for n in new[:4]:
                    print("   ", n)
    print(f"{len(jobs)} (variant, check) pairs analysed, {bad} with an alarm")
    sys.exit(1 if bad else 0)
