#!/venv/bin/python
"""usage: NAUNET_TREE=<tree> /venv/bin/python outdigest.py [out.json]
Renders the bundled examples (all solver/method cases) through the real CLI of the naunet tree at $NAUNET_TREE
(`naunet example --select=i`: init -> naunet_config.toml -> render), plus the tests/data networks of every format
through the API with several back-ends / grain models, and prints one sha256 per generated file (lines carrying a
date/time are dropped). Two trees with the same behaviour print identical digests."""
import hashlib, json, os, re, shutil, subprocess, sys, tempfile
tree = os.environ.get("NAUNET_TREE", os.getcwd())
out = {}
DATE = re.compile(r"\d{4}-\d{2}-\d{2}|\d{2}:\d{2}:\d{2}|\d{2}/\d{2}/\d{4}")
def digest(root, tag):
    for dp, dn, fn in os.walk(root):
        dn.sort()
        for f in sorted(fn):
            p = os.path.join(dp, f)
            try:
                txt = open(p, errors="replace").read()
            except Exception:
                continue
            txt = "\n".join(l for l in txt.splitlines() if not DATE.search(l))
            txt = txt.replace(root, "<ROOT>")
            out[tag + "/" + os.path.relpath(p, root)] = hashlib.sha256(txt.encode()).hexdigest()[:16]
tmp = tempfile.mkdtemp(prefix="outdigest.")
env = dict(os.environ, PYTHONPATH=tree, PYTHONHASHSEED=os.environ.get("PYTHONHASHSEED", "0"))
try:
    procs = []
    for i in range(22):
        if i >= 19:  # ism needs a file that is not bundled
            continue
        d = os.path.join(tmp, f"case{i}", "proj")
        os.makedirs(d)
        code = ("import sys; sys.path.insert(0, %r); from naunet.console import main; sys.argv=['naunet','example','--select=%d','--path=%s','--render-force','-n']; main()" % (tree, i, d))
        procs.append((i, d, subprocess.Popen(["/venv/bin/python", "-c", code], cwd=os.path.join(tmp, f"case{i}"), env=env,
                                               stdout=subprocess.PIPE, stderr=subprocess.STDOUT, text=True)))
    for i, d, p in procs:
        o, _ = p.communicate(timeout=900)
        out[f"cli/case{i}/__exit__"] = str(p.returncode)
        if p.returncode != 0:
            out[f"cli/case{i}/__tail__"] = re.sub(r"\S*outdigest\.[A-Za-z0-9_]+", "<TMP>", o)[-300:].split("\n", 1)[-1]
        digest(d, f"cli/case{i}")
    # API renderings of the test networks
    code = r'''
import sys, os
sys.path.insert(0, %r)
from pathlib import Path
from naunet.network import Network
data = Path(%r) / "tests" / "data"
out = Path(%r)
cases = [("minimal.kida","kida",""),("deuspin.kida","kida",""),("duplicate.kida","kida",""),("minimal.krome","krome",""),("primordial.krome","krome",""),
         ("minimal.leeds","leeds","hh93"),("rate12_HO.leeds","leeds","hh93"),("minimal.ucl","uclchem","rr07"),("minimal.umist","umist",""),("rate12.umist","umist","")]
for f, fmt, gm in cases:
    for solver, method, device in (("cvode","dense","cpu"),("cvode","sparse","cpu"),("cvode","cusparse","gpu"),("odeint","rosenbrock4","cpu")):
        try:
            net = Network(filelist=str(data/f), fileformats=fmt, grain_model=gm)
            p = out / f"{f}_{method}"
            os.makedirs(p, exist_ok=True)
            net.to_code(solver=solver, method=method, device=device, path=p)
            net.write(p / "written.naunet", format="naunet")
        except Exception as e:
            (out / f"{f}_{method}.error").write_text(type(e).__name__ + ": " + str(e)[:200])
''' % (tree, tree, os.path.join(tmp, "api"))
    os.makedirs(os.path.join(tmp, "api"))
    p = subprocess.run(["/venv/bin/python", "-c", code], env=env, capture_output=True, text=True, timeout=1800)
    out["api/__exit__"] = str(p.returncode)
    if p.returncode: out["api/__tail__"] = (p.stdout + p.stderr)[-400:]
    digest(os.path.join(tmp, "api"), "api")
finally:
    shutil.rmtree(tmp, ignore_errors=True)
dst = sys.argv[1] if len(sys.argv) > 1 else None
if dst:
    json.dump(out, open(dst, "w"), indent=0, sort_keys=True)
print(len(out), "files;", hashlib.sha256(json.dumps(out, sort_keys=True).encode()).hexdigest())
