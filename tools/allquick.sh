#!/bin/bash
# runs the 20 quick checks on $NAUNET_REPO (default /repo) in parallel without writing evidence; prints id:exit pairs
cd "$(dirname "$0")/.."
for p in C01 C02 C03 C04 C05 C06 C07 C08 C09 C10 C11 C12 C13 C14 C15 C16 C17 C18 C19 C20; do
  ( /venv/bin/python -m sa.check $p --tier quick --no-evidence >/tmp/aq.$$.$p 2>&1; echo "$p:$?" ) &
done 2>/dev/null | sort | tr '\n' ' '; wait 2>/dev/null; echo
for p in C01 C02 C03 C04 C05 C06 C07 C08 C09 C10 C11 C12 C13 C14 C15 C16 C17 C18 C19 C20; do
  [ "$1" = "-v" ] && grep -H "VIOLATION\|ANALYSIS-ERROR\|UNRECOGNISED\|Traceback" /tmp/aq.$$.$p | head -5; rm -f /tmp/aq.$$.$p; done
