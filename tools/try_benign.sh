#!/bin/bash
# usage: tools/try_benign.sh <dir with r*/patch.diff> -- every behaviour-preserving patch against every quick check (scratch worktree)
d=$1
for r in $d/r*/; do
  wt=/tmp/trybenign.$$
  git -C /repo worktree add -q --detach $wt HEAD || exit 3
  if ! git -C $wt apply $r/patch.diff 2>/dev/null; then echo "$(basename $(dirname $d))/$(basename $r): patch does not apply"; git -C /repo worktree remove --force $wt; continue; fi
  out=""
  for p in C01 C02 C03 C04 C05 C06 C07 C08 C09 C10 C11 C12 C13 C14 C15 C16 C17 C18 C19 C20; do
    (cd /verif && NAUNET_REPO=$wt /venv/bin/python -m sa.check $p --tier quick --no-evidence > /tmp/trybenign.$$.log 2>&1); rc=$?
    if [ $rc -ne 0 ]; then out="$out $p:$rc"; cp /tmp/trybenign.$$.log /tmp/scratch/benign_$(basename $(dirname $d))_$(basename $r)_$p.log; fi
  done
  echo "$(basename $(dirname $d))/$(basename $r): ${out:-silent}   [$(head -1 $r/notes.md | cut -c1-90)]"
  git -C /repo worktree remove --force $wt
done
rm -f /tmp/trybenign.$$.log
