#!/venv/bin/python
"""Runs every check on whole-tree behaviour-preserving variants (sa/alpha.py: swap-eq, keys-in, swap-branches) and prints the
obligations that are not discharged there although they are on the real tree.  usage: tools/variant_test.py <kind> [PROP ...]
With --write <dir> the variant is also written to disk (to run the test suite on it)."""
import os, sys
sys.path.insert(0, os.path.dirname(os.path.dirname(os.path.abspath(__file__))))
from concurrent.futures import ProcessPoolExecutor
from sa.alpha import transform
from sa.check import run_rules
from sa.core import SourceTree, REPO

PROPS = ["C01", "C02", "C03", "C04", "C05", "C06", "C07", "C08", "C09", "C10", "C11", "C12", "C13", "C14", "C15", "C16", "C17", "C18", "C19", "C20"]


def job(a):
    prop, kind = a
    ov = transform(SourceTree(REPO), kind)
    base = {(o.rule, o.key, o.outcome) for o in run_rules(prop).obs}
    ctx = run_rules(prop, ov)
    new = [(o.outcome, o.rule, o.key[:90], o.file, o.line, o.msg[:160]) for o in ctx.obs if o.outcome != "DISCHARGED" and (o.rule, o.key, o.outcome) not in base]
    return prop, new


if __name__ == "__main__":
    args = sys.argv[1:]
    kind = args[0]
    if "--write" in args:
        d = args[args.index("--write") + 1]
        for rel, txt in transform(SourceTree(REPO), kind).items():
            p = os.path.join(d, rel)
            open(p, "w").write(txt)
        sys.exit(0)
    props = [a for a in args[1:] if a.startswith("C")] or PROPS
    bad = 0
    with ProcessPoolExecutor(max_workers=16) as ex:
        for prop, new in ex.map(job, [(p, kind) for p in props]):
            print(f"{prop}: {len(new)} new non-discharged obligations")
            for n in new[:12]:
                bad += 1
                print("   ", n)
    sys.exit(1 if bad else 0)
