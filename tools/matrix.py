#!/venv/bin/python
"""usage: tools/matrix.py benign|seed <dir> [<dir> ...] [-v]
Every patch.diff found under the directories is applied to its own scratch worktree of /repo HEAD (under /tmp, removed afterwards)
and analysed by every check (tools/allprops.py).  benign: every non-zero answer is printed (a false alarm / cannot-analyse).
seed: the directory name starts with the property it breaks; prints whether that property answers 1."""
import os, sys, json, subprocess, tempfile, shutil
from concurrent.futures import ThreadPoolExecutor
mode = sys.argv[1]
verbose = "-v" in sys.argv
roots = [os.path.abspath(a) for a in sys.argv[2:] if a != "-v"]
patches = []
for r in roots:
    for dp, dn, fn in os.walk(r):
        dn.sort()
        if "patch.diff" in fn:
            patches.append(os.path.abspath(os.path.join(dp, "patch.diff")))
here = os.path.dirname(os.path.abspath(__file__))

def job(p):
    wt = tempfile.mkdtemp(prefix="mx.", dir="/tmp")
    os.rmdir(wt)
    try:
        subprocess.run(["git", "-C", "/repo", "worktree", "add", "-q", "--detach", wt, "HEAD"], check=True, capture_output=True)
        a = subprocess.run(["git", "-C", wt, "apply", p], capture_output=True, text=True)
        if a.returncode:
            return p, None, "patch does not apply: " + a.stderr[:200]
        props = []
        r = subprocess.run(["/venv/bin/python", os.path.join(here, "allprops.py"), wt] + props, capture_output=True, text=True)
        line = [l for l in r.stdout.splitlines() if l.startswith("{")]
        if not line:
            return p, None, "no output: " + (r.stdout + r.stderr)[-300:]
        return p, json.loads(line[-1]), ""
    finally:
        subprocess.run(["git", "-C", "/repo", "worktree", "remove", "--force", wt], capture_output=True)
        shutil.rmtree(wt, ignore_errors=True)

bad = 0
with ThreadPoolExecutor(max_workers=int(os.environ.get("MX_JOBS", "8"))) as ex:
    for p, res, err in ex.map(job, patches):
        name = os.path.relpath(os.path.dirname(p), os.path.commonpath(roots) if len(roots) > 1 else roots[0])
        if res is None:
            print(f"{name}: ERROR {err}"); bad += 1; continue
        nz = {k: v for k, v in res.items() if v["rc"]}
        if mode == "benign":
            if nz:
                bad += 1
            print(f"{name}: " + (" ".join(f"{k}:{v['rc']}" for k, v in nz.items()) or "silent"))
            if verbose:
                for k, v in nz.items():
                    for m in v["viol"][:3]:
                        print(f"      {k} VIOL {m}")
                    for m in v["err"][:3]:
                        print(f"      {k} ERR  {m}")
        else:
            tgt = os.path.basename(os.path.dirname(p))[:3]
            rc = res.get(tgt, {}).get("rc")
            if rc != 1:
                bad += 1
            print(f"{name}: target {tgt} -> {rc}" + ("" if rc == 1 else "   <-- NOT REPORTED") + "  others: " + " ".join(f"{k}:{v['rc']}" for k, v in nz.items() if k != tgt))
            if verbose and rc != 1:
                for m in res.get(tgt, {}).get("err", [])[:3]:
                    print(f"      ERR {m}")
print(f"{len(patches)} patches, {bad} need attention")
sys.exit(1 if bad else 0)
