#!/venv/bin/python
"""usage: tools/store_seed.py <src dir> <stored id> <final.jsonl> <source id in jsonl> [initial.jsonl] [round]
Copies a verified seeded change (patch.diff, demo.py, notes.md) into /verif/seeded/<stored id>/ and writes meta.json from the
verification records produced by tools/verify_seed.sh (final = with today's checks, initial = before any strengthening)."""
import json, os, re, shutil, subprocess, sys

src, sid, final, key = sys.argv[1:5]
initial = sys.argv[5] if len(sys.argv) > 5 else None
rnd = int(sys.argv[6]) if len(sys.argv) > 6 else 1


def rec(path, key):
    out = None
    for l in open(path):
        l = l.strip()
        if l.startswith("{"):
            d = json.loads(l)
            if d.get("id") == key:
                out = d          # the last record wins (re-verification)
    return out


f = rec(final, key)
assert f and f["applied"] == 1 and f["demo_clean"] == 0 and f["demo_patched"] != 0, f
dst = os.path.join("/verif/seeded", sid)
os.makedirs(dst, exist_ok=True)
shutil.copy(os.path.join(src, "patch.diff"), dst)
for n in os.listdir(src):
    if n.endswith(".py") or n.endswith(".md"):
        shutil.copy(os.path.join(src, n), dst)
patch = open(os.path.join(dst, "patch.diff")).read()
notes = open(os.path.join(dst, "notes.md")).read() if os.path.exists(os.path.join(dst, "notes.md")) else ""
head = subprocess.run(["git", "-C", "/repo", "rev-parse", "--short", "HEAD"], capture_output=True, text=True).stdout.strip()


def split(s):
    v, e = [], []
    for x in (s or "").split():
        p, rc = x.split(":")
        (v if rc == "1" else e).append(p)
    return v, e


v, e = split(f["checks_nonzero"])
meta = {
    "seed_id": sid,
    "round": rnd,
    "breaks_property": sid[:3],
    "author": "independent sub-agent given only the property record and a scratch worktree (nothing from /verif)",
    "files_changed": re.findall(r"^diff --git a/(\S+)", patch, re.M),
    "needs_to_manifest": " ".join(notes.split())[:1200],
    "verified_on_repo_head": head,
    "what_was_run": [
        "git worktree add /tmp/vseed/<id> HEAD",
        "python demo.py on the clean worktree (NAUNET_TREE=<worktree>)",
        "git apply patch.diff",
        "python demo.py on the patched worktree",
        "pinned pytest command in the patched worktree",
        "every registered quick check with NAUNET_REPO=<worktree>",
        "git worktree remove --force",
    ],
    "demo_exit_clean": f["demo_clean"],
    "demo_exit_patched": f["demo_patched"],
    "suite_with_patch": f["suite"],
    "checks_reporting_violation": v,
    "checks_analysis_error": e,
}
if initial:
    i = rec(initial, key)
    if i:
        iv, ie = split(i["checks_nonzero"])
        meta["before_strengthening"] = {"checks_reporting_violation": iv, "checks_analysis_error": ie,
                                        "reported_by_target": sid[:3] in iv}
json.dump(meta, open(os.path.join(dst, "meta.json"), "w"), indent=1)
print(sid, "stored; reported by", v, "errors", e, "| before:", meta.get("before_strengthening"))
