#!/venv/bin/python
"""Runs every check on an in-memory copy of the tree in which all locals are renamed (sa/alpha.py); prints every obligation that
is not DISCHARGED there but is on the real tree.  exit 0 = the checks are invariant under the renaming.
usage: tools/alpha_test.py [suffix] [PROP ...]"""
import os, re, sys
sys.path.insert(0, os.path.dirname(os.path.dirname(os.path.abspath(__file__))))
from concurrent.futures import ProcessPoolExecutor
from sa.alpha import rename_locals
from sa.check import run_rules
from sa.core import SourceTree, REPO

PROPS = ["C01", "C02", "C03", "C04", "C05", "C06", "C07", "C08", "C09", "C10", "C11", "C12", "C13", "C14", "C15", "C16", "C17", "C18", "C19", "C20"]


def job(a):
    prop, suffix = a
    ov = rename_locals(SourceTree(REPO), suffix)
    strip = lambda s: s.replace(suffix, "")
    base = {(o.rule, strip(o.key), o.outcome) for o in run_rules(prop).obs}
    ctx = run_rules(prop, ov)
    new = [(o.outcome, o.rule, o.key[:90], o.file, o.line, o.msg[:160]) for o in ctx.obs if o.outcome != "DISCHARGED" and (o.rule, strip(o.key), o.outcome) not in base]
    lost = len([1 for o in ctx.obs if o.outcome == "DISCHARGED"]) - len([1 for b in base if b[2] == "DISCHARGED"])
    return prop, new, lost


if __name__ == "__main__":
    args = sys.argv[1:]
    suffix = args[0] if args and not args[0].startswith("C") else "_v"
    props = [a for a in args if a.startswith("C")] or PROPS
    bad = 0
    with ProcessPoolExecutor(max_workers=16) as ex:
        for prop, new, lost in ex.map(job, [(p, suffix) for p in props]):
            print(f"{prop}: {len(new)} new non-discharged obligations, discharged count delta {lost:+d}")
            for n in new:
                bad += 1
                print("   ", n)
    sys.exit(1 if bad else 0)
