#!/venv/bin/python
"""usage: tools/allprops.py <repo tree> [PROP ...]  -- runs the rules of every property on <repo tree> in one process and prints,
per property, what the quick check would answer: 0 (silent), 1 (VIOLATION not in known_findings), 2 (analysis error), with the
offending obligations.  Used by the benign / seed matrices."""
import os, sys, json
tree = sys.argv[1]
os.environ["NAUNET_REPO"] = tree
sys.path.insert(0, os.path.dirname(os.path.dirname(os.path.abspath(__file__))))
from sa.check import run_rules
from sa.core import load_known, VIOLATION, UNRECOGNISED, MISSING
PROPS = [a for a in sys.argv[2:] if a.startswith("C")] or ["C01", "C02", "C03", "C04", "C05", "C06", "C07", "C08", "C09", "C10", "C11", "C12", "C13", "C14", "C15", "C16", "C17", "C18", "C19", "C20"]
known = load_known()
out = {}
for p in PROPS:
    kk = {k["key"] for k in known if k.get("property") == p and k.get("status") == "known"}
    try:
        ctx = run_rules(p)
        v = [o for o in ctx.by(VIOLATION) if o.fkey not in kk]
        e = ctx.by(UNRECOGNISED) + ctx.by(MISSING)
        rc = 1 if v else 2 if e else 0
        out[p] = {"rc": rc, "viol": [f"{o.loc()} [{o.rule}] {o.key}: {o.msg}"[:300] for o in v[:6]], "err": [f"{o.loc()} [{o.rule}] {o.key}: {o.msg}"[:300] for o in e[:6]]}
    except Exception as ex:
        out[p] = {"rc": 2, "viol": [], "err": [f"crash {type(ex).__name__}: {ex}"[:300]]}
print(json.dumps(out))
