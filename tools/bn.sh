#!/bin/bash
# usage: tools/bn.sh <patch.diff> [PROP ...]   -- one behaviour-preserving patch against the quick checks (scratch worktree), prints alarms
patch=$(readlink -f "$1"); shift
props=${@:-C01 C02 C03 C04 C05 C06 C07 C09 C10 C11 C12 C13 C14 C15 C16 C17 C18 C19 C20}
wt=/tmp/bn.$$
git -C /repo worktree add -q --detach $wt HEAD || exit 3
if ! git -C $wt apply "$patch" 2>/dev/null; then echo "patch does not apply"; git -C /repo worktree remove --force $wt; exit 3; fi
for p in $props; do
  (cd "$(dirname "$(readlink -f "$0")")/.." && NAUNET_REPO=$wt /venv/bin/python -m sa.check $p --tier quick --no-evidence > /tmp/bn.$$.log 2>&1); rc=$?
  if [ $rc -ne 0 ]; then echo "== $p exit=$rc"; grep -B3 "^VIOLATION\|^ANALYSIS-ERROR" /tmp/bn.$$.log | grep -v "^--\|^VIOLATION\|^KNOWN-FINDING\|^   R[0-9]*:" | cut -c1-${BN_W:-420}; fi
done
git -C /repo worktree remove --force $wt; rm -f /tmp/bn.$$.log
