#!/venv/bin/python
"""usage: tools/catalogues.py [Cxx ...]   -- runs only the MUTANTS / BENIGN catalogues of the rule modules (the first section of the thorough
tier's self-validation) and prints the failures; a quick regression check after engine edits."""
import json, os, sys
sys.path.insert(0, os.path.dirname(os.path.dirname(os.path.abspath(__file__))))
from sa.check import run_rules, self_validate
PROPS = sys.argv[1:] or ["C%02d" % i for i in range(1, 21)]
bad = 0
for p in PROPS:
    sv = self_validate(p, run_rules(p))
    print(p, f"mutants {sv['mutants_killed']}/{sv['mutants_total'] - sv['mutants_inapplicable']}", f"benign {sv['benign_silent']}/{sv['benign_total'] - sv['benign_inapplicable']}", flush=True)
    for f in sv["failures"]:
        bad += 1
        print("   FAIL", json.dumps(f)[:400])
sys.exit(1 if bad else 0)
