#!/bin/bash
# usage: tools/try_seed.sh <patch.diff> <PROP> [PROP ...]
# Applies a patch to a scratch worktree of /repo HEAD (never to /repo itself), runs the quick checks of the given properties
# against it (NAUNET_REPO=<worktree>, no evidence written) and removes the worktree.  Prints exit=<code> per property.
patch=$(readlink -f "$1"); shift
wt=/tmp/tryseed.$$
git -C /repo worktree add -q --detach $wt HEAD || exit 3
if ! git -C $wt apply "$patch" 2>/dev/null; then echo "patch does not apply to HEAD"; git -C /repo worktree remove --force $wt; exit 3; fi
for p in "$@"; do
  (cd /verif && NAUNET_REPO=$wt /venv/bin/python -m sa.check $p --tier quick --no-evidence); echo "exit=$?"
done
git -C /repo worktree remove --force $wt
