#!/bin/bash
# usage: tools/try_seed.sh <patch.diff> <PROP> [PROP...]   -- applies the patch to /repo, runs quick checks, restores
patch=$1; shift
git -C /repo apply "$patch" || { echo "patch does not apply"; exit 3; }
for p in "$@"; do
  ( cd /verif && /venv/bin/python -m sa.check $p --tier quick --no-evidence 2>&1 | grep -v "^   " | head -${LINES_MAX:-12} ; echo "exit=${PIPESTATUS[0]}" )
done
git -C /repo checkout -- . 
