"""Normal form of the emission sites of TemplateLoader._prepare_ode_content.

Every store into `rhs` / `jacrhs` is classified and reduced to

    row  x  col  x  sign  x  scalar coefficient  x  product over a sequence

by use-def expansion (sa.valueflow) and the C expression parser (sa.calg).
The rules of C01/C02/C03/C04/C13 are statements about these records.
"""
from __future__ import annotations

import ast
import re
from dataclasses import dataclass, field

from . import calg
from .core import AnalysisError, MISSING
from .pymodel import package
from .valueflow import (Flow, V, as_map, contains, lower, match, show, simp, subst, walk)

FILE = "naunet/templateloader.py"
_ANCHORS = ("_assign_rates",)      # methods the rules read as calls (C02.R5 / C03.R4), not as the value they return
_MUTATORS = ("append", "extend", "add", "update", "insert", "pop", "remove", "clear", "sort", "reverse", "setdefault", "popitem", "discard")


@dataclass
class Site:
    array: str                 # rhs | jacrhs
    fact: object
    kind: str                  # loss gain heat cool mod wrap init other
    row: object = None         # ("species", x) | ("tgas",) | None
    col: object = None
    rowloop: int | None = None
    colloop: int | None = None
    sign: int = 0
    coeff: object = None       # ("rate", sym, loopid) | ("factor", ir)
    seq: object = None         # dict(base=IR, body_ok=bool, minus=IR|None, raw=IR)
    problems: list = field(default_factory=list)   # [(severity, code, msg)]
    text: str = ""
    rowbase: object = None
    role: object = None
    entity: object = None
    value: object = None
    colbase: object = None

    @property
    def line(self):
        return self.fact.line


def Y(x):
    return ("fstr", (("const", "y[IDX_"), ("fmt", ("attr", x, "alias"), None, -1), ("const", "]")))


def YDOT(x):
    return ("fstr", (("const", "ydot[IDX_"), ("fmt", ("attr", x, "alias"), None, -1), ("const", "]")))


def _opaque(t):
    # (a value handed back by a helper method that could not be expanded is built elsewhere, too)
    return isinstance(t, tuple) and bool(t) and (t[0] in ("acc", "carried", "after", "unknown", "mutated")
                                                 or (t[0] == "meth" and len(t) == 5 and t[1] in (("param", "self"), ("param", "cls")) and t[2] not in _ANCHORS))


_PLAIN_CALLS = {"len", "bool", "int", "str", "sorted", "reversed", "set", "frozenset", "list", "tuple", "enumerate", "zip", "range", "max", "min",
                "any", "all", "sum", "abs", "filter", "map", "dict"}


def not_understood(v) -> bool:
    """Does the reconstructed value contain a part the analysis did not follow -- a helper that could not be read as the value it
    returns, a call of a function that is not a plain builtin, a list filled elsewhere, a value carried round a loop?  A verdict
    "wrong" needs a value without such parts: an unexpected value that contains one is "cannot analyse"."""
    for x in walk(v):
        if not isinstance(x, tuple) or not x or not isinstance(x[0], str):
            continue
        if x[0] in ("unknown", "carried", "after", "mutated", "acc", "lambda", "record", "rectype", "raise"):
            return True
        if x[0] == "meth" and len(x) == 5 and (x[1] in (("param", "self"), ("param", "cls")) or x[1][0] == "global"):
            return True
        if x[0] == "call" and not (x[1][0] == "global" and x[1][1] in _PLAIN_CALLS):
            return True
    return False


def scalar_constants(pkg, cls):
    """(module-level, class-level) scalar constants a method of `cls` may read: {name: ast.Constant} for names bound exactly once
    at module level of the class's file to a str / number literal, and for class attributes (MRO) bound to such a literal that no
    method stores through self / cls (and no setattr is used)."""
    cache = pkg.__dict__.setdefault("_scalar_consts", {})
    if cls not in cache:
        ci = pkg.cls(cls)
        mod = pkg.modules.get(ci.file)
        count, mc = {}, {}
        for n in ast.walk(mod) if mod is not None else ():
            if isinstance(n, ast.Name) and isinstance(n.ctx, (ast.Store, ast.Del)):
                count[n.id] = count.get(n.id, 0) + 1
            elif isinstance(n, (ast.Global, ast.Nonlocal)):
                for nm in n.names:
                    count[nm] = count.get(nm, 0) + 2
            elif isinstance(n, ast.arg):
                count[n.arg] = count.get(n.arg, 0) + 2
        for st in mod.body if mod is not None else ():
            if isinstance(st, ast.Assign) and len(st.targets) == 1 and isinstance(st.targets[0], ast.Name) and count.get(st.targets[0].id) == 1 \
                    and isinstance(st.value, ast.Constant) and isinstance(st.value.value, (str, int, float)) and not isinstance(st.value.value, bool):
                mc[st.targets[0].id] = st.value
        mro = [c for c in pkg.mro(cls) if c in pkg.classes]
        stored = set()
        for c in mro:
            for fn in pkg.classes[c].methods.values():
                for n in ast.walk(fn):
                    if isinstance(n, ast.Attribute) and isinstance(n.ctx, (ast.Store, ast.Del)):
                        stored.add(n.attr)
                    elif isinstance(n, ast.Call) and isinstance(n.func, ast.Name) and n.func.id in ("setattr", "delattr"):
                        stored.add("*")
        cc = {}
        for c in reversed(mro):
            for nm, node in pkg.classes[c].attrs.items():
                if isinstance(node, ast.Constant) and isinstance(node.value, (str, int, float)) and not isinstance(node.value, bool) and nm not in stored \
                        and "*" not in stored and not any(nm in pkg.classes[k].methods for k in mro):
                    cc[nm] = node
                else:
                    cc.pop(nm, None)
        cache[cls] = (mc, cc, set(mro))
    return cache[cls]


def inline_constants(func, pkg, cls):
    """`func` (modified in place) with the reads of scalar constants hoisted to module / class level (`_ZERO = "0.0"`, `self._ZERO`,
    `TemplateLoader._ZERO`) replaced by the literal: a named constant is the value it names"""
    mc, cc, mro = scalar_constants(pkg, cls)
    if not mc and not cc:
        return func
    local = {n.id for n in ast.walk(func) if isinstance(n, ast.Name) and isinstance(n.ctx, (ast.Store, ast.Del))} | {a.arg for a in ast.walk(func) if isinstance(a, ast.arg)}

    class Tr(ast.NodeTransformer):
        def visit_Name(self, n):
            if isinstance(n.ctx, ast.Load) and n.id in mc and n.id not in local:
                return ast.copy_location(ast.Constant(value=mc[n.id].value), n)
            return n

        def visit_Attribute(self, n):
            if isinstance(n.ctx, ast.Load) and isinstance(n.value, ast.Name) and n.attr in cc and (n.value.id in ("self", "cls") or n.value.id in mro) \
                    and (n.value.id not in local or n.value.id in ("self", "cls")):
                return ast.copy_location(ast.Constant(value=cc[n.attr].value), n)
            return self.generic_visit(n)
    Tr().visit(func)
    return func


def record_fields(pkg, name):
    """constructor field order of a plain record class of the package: a `typing.NamedTuple` / `@dataclass` class (its annotated
    names), or a module-level `Name = namedtuple("Name", [..] | "a b c")`; None for anything else"""
    short = name.split(".")[-1]
    ci = pkg.classes.get(name) or pkg.classes.get(short) or next((c for k, c in pkg.classes.items() if k.endswith("." + short)), None)
    if ci is not None:
        is_nt = any(b.split(".")[-1] == "NamedTuple" for b in ci.bases)
        is_dc = any(ast.unparse(d).split("(")[0].split(".")[-1] == "dataclass" for d in ci.node.decorator_list)
        if not (is_nt or is_dc) or (is_dc and ci.bases) or any(k in ci.methods for k in ("__init__", "__new__", "__post_init__", "__getattr__", "__getattribute__")):
            return None
        fields = []
        for st in ci.node.body:
            if isinstance(st, ast.AnnAssign) and isinstance(st.target, ast.Name):
                if "ClassVar" in ast.unparse(st.annotation) or (isinstance(st.value, ast.Call) and "field" in ast.unparse(st.value.func)):
                    return None
                fields.append(st.target.id)
        if any(f in ci.methods for f in fields):
            return None
        return fields or None
    for mod in pkg.modules.values():
        for st in mod.body:
            if isinstance(st, ast.Assign) and len(st.targets) == 1 and isinstance(st.targets[0], ast.Name) and st.targets[0].id == short \
                    and isinstance(st.value, ast.Call) and ast.unparse(st.value.func).split(".")[-1] == "namedtuple" and len(st.value.args) == 2 and not st.value.keywords:
                spec = st.value.args[1]
                if isinstance(spec, ast.Constant) and isinstance(spec.value, str):
                    return spec.value.replace(",", " ").split() or None
                if isinstance(spec, (ast.List, ast.Tuple)) and all(isinstance(e, ast.Constant) and isinstance(e.value, str) for e in spec.elts):
                    return [e.value for e in spec.elts] or None
    return None


def pure_helper_resolver(pkg, cls):
    """name -> FunctionDef of a helper method of `cls` that may be read as the value it returns (valueflow `resolver`): any method
    except the anchors, provided it leaves its arguments alone (an in-place edit of a list handed in would be lost in the value view)"""
    import copy as _copy
    folded = {}

    def resolver(name, _pkg=pkg):
        _, f = _pkg.resolve(cls, name)
        if f is None or name in _ANCHORS:
            return None
        if name not in folded:
            folded[name] = inline_constants(_copy.deepcopy(f), _pkg, cls)
        f = folded[name]
        return f if _leaves_arguments_alone(f) else None
    return resolver


def _leaves_arguments_alone(f) -> bool:
    """no in-place edit (mutator call, subscript / attribute store, del) of something reached through a parameter of `f`"""
    ps = {a.arg for a in f.args.args + f.args.kwonlyargs}
    for n in ast.walk(f):
        if isinstance(n, ast.Call) and isinstance(n.func, ast.Attribute) and n.func.attr in _MUTATORS:
            b = n.func.value
            while isinstance(b, (ast.Attribute, ast.Subscript)):
                b = b.value
            if isinstance(b, ast.Name) and b.id in ps:
                return False
        if isinstance(n, (ast.Assign, ast.AugAssign, ast.AnnAssign, ast.Delete)):
            for t in (n.targets if isinstance(n, (ast.Assign, ast.Delete)) else [n.target]):
                b = t
                while isinstance(b, (ast.Attribute, ast.Subscript)):
                    b = b.value
                if b is not t and isinstance(b, ast.Name) and b.id in ps:
                    return False
    return True


def pure_function_resolver(pkg, file, cls):
    """name -> FunctionDef of a MODULE-LEVEL helper function of `file` called by its bare name that may be read as the value it
    returns (valueflow `func_resolver`): `def _wrap(expr): return f"(..) * ( {expr} ) / .."` is the f-string it returns.  Same
    proviso as for helper methods: it leaves its arguments alone."""
    import copy as _copy
    folded = {}

    def resolver(name, _pkg=pkg):
        f = _pkg.functions.get((file, name))
        if f is None:
            return None
        if name not in folded:
            folded[name] = inline_constants(_copy.deepcopy(f), _pkg, cls)
        f = folded[name]
        return f if _leaves_arguments_alone(f) else None
    return resolver


class OdeModel:
    def __init__(self, tree):
        self.tree = tree
        pkg = package(tree)
        self.func = pkg.method("TemplateLoader", "_prepare_ode_content")
        # helper procedures of TemplateLoader that fill the lists they are handed are expanded in place
        import copy as _copy
        _folded = {}

        def _fold(f):
            # (helpers are read with the named scalar constants of the module / class replaced by their literals, like the method itself)
            if f is not None and id(f) not in _folded:
                _folded[id(f)] = inline_constants(_copy.deepcopy(f), pkg, "TemplateLoader")
            return _folded[id(f)] if f is not None else None

        def _resolver(name, _pkg=pkg):
            _, f = _pkg.resolve("TemplateLoader", name)
            return _fold(f)
        # ... and small loop-free helper FUNCTIONS (`self._without(lst, x)` returning a value) are read as the value they return
        _pure_resolver = pure_helper_resolver(pkg, "TemplateLoader")
        # ... and a helper METHOD with loops whose call is a whole statement (`jac = self._build(n, entries)`) is replaced by its
        # statements (parameters renamed to the arguments, locals made unique): an extracted block is still this code
        from .normalize import inline_stmt_calls

        def _stmt_resolver(call, _pkg=pkg):
            f_ = call.func
            if isinstance(f_, ast.Attribute) and isinstance(f_.value, ast.Name) and f_.value.id in ("self", "cls") and f_.attr not in _ANCHORS:
                _, callee = _pkg.resolve("TemplateLoader", f_.attr)
                if callee is not None and callee is not self.func:
                    return _fold(callee), f_.value
            # ... and so is a block extracted into a plain FUNCTION of the module that is handed the lists (`_add_thermal(y, flag)`)
            if isinstance(f_, ast.Name) and f_.id not in _ANCHORS and (FILE, f_.id) in _pkg.functions and f_.id not in _local_names:
                return _fold(_pkg.functions[(FILE, f_.id)]), None
            # ... and a factory classmethod of a record class of the module called on the class (`self.Jacobian.from_dense(n, table)`)
            if isinstance(f_, ast.Attribute) and isinstance(f_.value, (ast.Name, ast.Attribute)) and f_.attr not in _ANCHORS:
                cm = _pkg.record_method(FILE, f_.attr, classmethod_of=ast.unparse(f_.value).split(".")[-1])
                if cm is not None:
                    return _fold(cm), f_.value
            return None
        _local_names = {n.id for n in ast.walk(self.func) if isinstance(n, ast.Name) and isinstance(n.ctx, ast.Store)} | {a.arg for a in self.func.args.args}
        func = inline_constants(_copy.deepcopy(self.func), pkg, "TemplateLoader")
        # the modifier tables walked by key (`for name in ode_modifier: expr = ode_modifier[name]`) are walked by .items()
        from .normalize import dict_key_loops_to_items
        func = dict_key_loops_to_items(func)
        # a generator method that hands records to a consuming loop (`for rec in self._iter_terms(..): rhs[rec.row] += ..`) is put
        # back in place, and a namedtuple / dataclass that only carries the values across is replaced by its fields
        from .normalize import inline_generator_loops, scalarise_records, scalarise_objects

        def _class_of(e, _pkg=pkg):
            # a plain helper class of this module (`_Table(..)`) or one nested in TemplateLoader (`self._Table(..)`)
            ci = None
            if isinstance(e, ast.Name):
                ci = _pkg.classes.get(e.id)
            elif isinstance(e, ast.Attribute) and isinstance(e.value, ast.Name) and e.value.id in ("self", "cls", "TemplateLoader"):
                ci = _pkg.classes.get("TemplateLoader." + e.attr)
            if ci is None or ci.file != FILE:
                return None
            return inline_constants(_copy.deepcopy(ci.node), _pkg, "TemplateLoader")
        # a local helper object that only carries the tables and the statements filling them is read as those statements
        func = scalarise_objects(func, _class_of)
        from .normalize import scalarise_local_objects

        def _class_of_b(f_, _pkg=pkg):
            # a plain helper class of this module (`_Table(..)`) or nested in TemplateLoader (`self._Table(..)`)
            nm = f_.id if isinstance(f_, ast.Name) else f_.attr if isinstance(f_, ast.Attribute) and isinstance(f_.value, ast.Name) and f_.value.id in ("self", "cls", "TemplateLoader") else None
            if nm is None:
                return None
            ci = _pkg.classes.get(nm) if isinstance(f_, ast.Name) else _pkg.classes.get("TemplateLoader." + nm)
            if ci is None or ci.file != FILE:
                return None
            node = copy_cls.get(ci.name)
            if node is None:
                node = copy_cls[ci.name] = inline_constants_in_class(_copy.deepcopy(ci.node), _pkg)
            return node
        copy_cls = {}

        def inline_constants_in_class(node, _pkg):
            for b in node.body:
                if isinstance(b, ast.FunctionDef):
                    inline_constants(b, _pkg, "TemplateLoader")
            return node
        # a local helper object that only carries the tables and the code filling them is that code, its fields plain locals
        func = scalarise_local_objects(func, _class_of_b)
        func = inline_generator_loops(func, _stmt_resolver)
        # items collected into a list of records first and consumed by one loop afterwards are produced where they are consumed
        from .normalize import fuse_collected_loops
        func = fuse_collected_loops(func, lambda name, _pkg=pkg: record_fields(_pkg, name) is not None)
        func = scalarise_records(func, lambda name, _pkg=pkg: record_fields(_pkg, name))
        func = inline_stmt_calls(func, _stmt_resolver)
        # `rhs, jac = self._stage(..)` with the stage put back leaves `rhs, jac = <the stage's locals>`: the same tables under one name
        from .normalize import coalesce_copies, join_piece_tables
        # a table of piece lists joined once at the end (`T[i].append(t)` .. `["".join(ps) for ps in T]`) is the table of accumulated texts
        func = join_piece_tables(func)
        from .normalize import join_term_lists
        func = join_term_lists(func)
        func = coalesce_copies(func)
        # a table kept as a list of rows and flattened once (`rows[r][c] += t` .. `list(chain.from_iterable(rows))`) is the flat table
        from .normalize import flatten_row_tables, flatten_keyed_tables
        func = flatten_row_tables(func)
        # ... and a dict keyed by (row, column), read out with a default into the flat list, is that flat table as well
        func = flatten_keyed_tables(func)
        # one loop over a concatenation (`for sign, i in chain(zip(repeat(" - "), R), zip(repeat(" + "), P))`) is the loops it abbreviates
        from .normalize import split_concat_loops
        func = split_concat_loops(func)
        # ... and a small pure helper FUNCTION of the module, called by its bare name (`_wrap(expr)`), is the value it returns as well
        def _func_resolver(name, _pkg=pkg):
            f = _pkg.functions.get((FILE, name))
            return _fold(f) if f is not None and _leaves_arguments_alone(f) else None
        self.flow = Flow(func, FILE, proc_resolver=_resolver, resolver=_pure_resolver, func_resolver=_func_resolver, records=pkg.records())
        fl = self.flow
        self._expand_built_lists(fl)
        self._index_slice_loops(fl)
        params = [a.arg for a in self.func.args.args if a.arg != "self"]
        if not params:
            raise AnalysisError("_prepare_ode_content lost its parameters", (FILE, self.func.lineno))
        self.NI = ("param", params[0])
        self.SPEC = ("attr", self.NI, "species")
        self.REAC_FIELD = ("attr", self.NI, "reactions")
        self.REAC = self.REAC_FIELD
        # the local list of reactions may be a guarded view of the field (`netinfo.reactions or [dummy]`); which
        # list is enumerated is C03's subject (sizes), the mass-action rules work on whatever that list is
        for nm, lst in fl.assigns.items():
            for v, loops, guards, line, seq in lst:
                v = simp(v)
                if v[0] == "bool" and v[1] == "Or" and v[2] and v[2][0] == self.REAC_FIELD and not loops:
                    self.REAC = v
        self.HEAT = ("attr", self.NI, "heating")
        self.COOL = ("attr", self.NI, "cooling")
        self.N_SPEC = ("call", ("global", "len"), (self.SPEC,), ())
        self.RHSNAME, self.JACNAME = self._array_names()
        self.RHS, self.JAC = ("acc", self.RHSNAME), ("acc", self.JACNAME)
        self.sites = []
        self._classify()

    @staticmethod
    def _expand_built_lists(fl):
        """A list built by an accumulation loop with intermediate statements and read afterwards (`dterms = []; for r in ..: c =
        copy; c.remove(..); dterms.append((r, term))` ... `for r, t in dterms:`) is read as the comprehension it is equal to
        (valueflow.summarise_appends), in every index, value, guard and loop domain of this function's facts."""
        from .valueflow import summarise_appends, summarise_memos, expand_memos
        # ... and a read of a memo table (`d = {}; for r in ..: if r not in d: d[r] = g(r)` ... `d[r2]`) as the value stored there
        memos = summarise_memos(fl)
        if memos:
            for f in fl.facts:
                f.index = expand_memos(f.index, memos) if f.index is not None else None
                f.value = expand_memos(f.value, memos) if f.value is not None else None
                f.guards = tuple((expand_memos(c, memos), p_) for c, p_ in f.guards)
            for nm, lst in fl.assigns.items():
                lst[:] = [(expand_memos(v, memos), loops, guards, line, seq) for v, loops, guards, line, seq in lst]
        for _ in range(3):
            sm = summarise_appends(fl)
            if not sm:
                return
            changed = False

            def ex(v):
                nonlocal changed
                if not isinstance(v, tuple) or not any(x in sm for x in walk(v)):
                    return v
                changed = True
                return simp(subst(v, sm))
            for lp in fl.all_loops.values():
                lp.iter = ex(lp.iter)
            for f in fl.facts:
                if f.target in {k[1] for k in sm}:
                    continue
                f.index = ex(f.index) if f.index is not None else None
                f.value = ex(f.value) if f.value is not None else None
                f.guards = tuple((ex(c), p_) for c, p_ in f.guards)
            for nm, lst in fl.assigns.items():
                lst[:] = [(ex(v), loops, tuple((ex(c), p_) for c, p_ in guards), line, seq) for v, loops, guards, line, seq in lst]
            if not changed:
                return

    @staticmethod
    def _index_slice_loops(fl):
        """A loop that walks a SLICE of a table and stores back into that table (`for i, e in enumerate(T[lo:hi]): T[lo + i] = g(e)`)
        is the index loop `for i in range(hi - lo): T[lo + i] = g(T[lo + i])`: position and element are rewritten to that form in every
        fact of the loop, so that the store rules see the slot they know.  Loops that only read the table are left as they are."""
        stored = {f.target for f in fl.facts if f.kind in ("store", "augstore") and isinstance(f.target, str)}
        for lp in list(fl.all_loops.values()):
            it = simp(lp.iter)
            if it[0] == "call" and it[1] == ("global", "enumerate") and len(it[2]) == 1 and not it[3]:
                it = it[2][0]
            if not (it[0] == "sub" and it[1][0] == "acc" and it[1][1] in stored and it[2][0] == "slice" and it[2][3] == ("const", None)):
                continue
            if not any(f.target == it[1][1] and f.kind in ("store", "augstore") and lp in f.loops for f in fl.facts):
                continue
            lo = it[2][1] if it[2][1] != ("const", None) else ("const", 0)
            hi = it[2][2]
            if hi == ("const", None):
                continue
            d = poly(("binop", "Sub", hi, lo))
            if len(d) == 1 and list(d.values()) == [1] and len(next(iter(d))) == 1:
                n = next(iter(d))[0]
            elif not d or (len(d) == 1 and () in d):
                n = ("const", d.get((), 0))
            else:
                n = ("binop", "Sub", hi, lo)
            pos = ("elem", ("call", ("global", "range"), (n,), ()), lp.id)
            slot = ("sub", it[1], pos if lo == ("const", 0) else ("binop", "Add", lo, pos))
            m = {("idx", it, lp.id): pos, ("elem", it, lp.id): slot}
            ex = lambda v: simp(subst(simp(v), m)) if v is not None else None
            for f in fl.facts:
                if lp in f.loops:
                    f.index, f.value = ex(f.index), ex(f.value)
                    f.guards = tuple((ex(c), p_) for c, p_ in f.guards)
            lp.iter = ("call", ("global", "range"), (n,), ())

    def _array_names(self):
        """The locals playing the roles of rhs[] and jacrhs[] (robust to renaming)."""
        fl = self.flow
        rhs = jac = None
        for f in fl.facts:
            if f.kind == "return" and f.value:
                for x in walk(f.value):
                    if isinstance(x, tuple) and len(x) == 5 and x[0] == "meth" and x[2] == "Jacobian":
                        a = list(x[3]) + [v for k, v in x[4] if k == "rhs"]
                        if a and a[-1][0] == "acc":
                            jac = a[-1][1]
        for name, lst in fl.assigns.items():
            for v, loops, guards, line, seq in lst:
                if v[0] == "meth" and v[2] == "Jacobian":
                    a = list(v[3]) + [x for k, x in v[4] if k == "rhs"]
                    if a and a[-1][0] == "acc":
                        jac = a[-1][1]
                if v[0] == "comp" and len(v[3]) == 1 and v[3][0][1][0] == "call" and v[3][0][1][1] == ("global", "zip") and len(v[3][0][1][2]) == 2:
                    b = v[3][0][1][2][1]
                    if b[0] == "acc":
                        rhs = b[1]
        return rhs or "rhs", jac or "jacrhs"

    # ---- recognisers -------------------------------------------------------
    def is_has_thermal(self, v) -> bool:
        """v is true exactly when the network has a heating or a cooling process, however that is spelled:
        `True if h or c else False`, `bool(h or c)`, `bool(h) or bool(c)`, `len(h) > 0 or len(c) > 0`, `len(h) + len(c) > 0`,
        `any([h, c])`, `int(..)` of these"""
        v = simp(v)
        hc = {self.HEAT, self.COOL}
        # `True if c else False`, also written as the statement `if c: flag = True / else: flag = False` (a phi of the two constants)
        if v[0] in ("ifexp", "phi") and v[2] in (("const", True), ("const", 1)) and v[3] in (("const", False), ("const", 0)):
            v = simp(v[1])
        if v[0] == "call" and v[1] in (("global", "bool"), ("global", "int")) and len(v[2]) == 1 and not v[3]:
            return self.is_has_thermal(v[2][0])
        if v[0] == "call" and v[1] == ("global", "any") and len(v[2]) == 1 and v[2][0][0] in ("list", "tuple"):
            return {self._nonempty(x) for x in v[2][0][1]} == hc
        if v[0] == "cmp" and len(v[1]) == 1 and len(v[2]) == 2:
            # len(h) + len(c) > 0  /  != 0  /  >= 1
            op, (a, b) = v[1][0], v[2]
            if (op, b) in (("Gt", ("const", 0)), ("NotEq", ("const", 0)), ("GtE", ("const", 1))) and a[0] == "binop" and a[1] == "Add":
                ln = lambda x: x[2][0] if x[0] == "call" and x[1] == ("global", "len") and len(x[2]) == 1 else None
                return {ln(a[2]), ln(a[3])} == hc
        return v[0] == "bool" and v[1] == "Or" and {self._nonempty(x) for x in v[2]} == hc

    @staticmethod
    def _nonempty(x):
        """the list L when x is `L`, `bool(L)`, `len(L) > 0` (truth of a list = non-emptiness), else x"""
        if x[0] == "call" and x[1] == ("global", "bool") and len(x[2]) == 1:
            return x[2][0]
        if x[0] == "cmp" and len(x[1]) == 1 and len(x[2]) == 2 and x[2][0][0] == "call" and x[2][0][1] == ("global", "len") and len(x[2][0][2]) == 1 \
                and (x[1][0], x[2][1]) in (("Gt", ("const", 0)), ("NotEq", ("const", 0)), ("GtE", ("const", 1))):
            return x[2][0][2][0]
        return x

    def is_n_spec(self, v) -> bool:
        return simp(v) == self.N_SPEC

    def _list_len(self, v):
        """(number of species-many parts, constant part, thermal flag added?) for a list value whose length is a*n_spec + b
        [+ has_thermal], else None: a comprehension over the species list, a display, `L ++ [x]`, `A + B`, and the two arms of
        `if has_thermal: L.append(x)`"""
        v = simp(v)
        if v[0] == "comp" and v[1] == "list" and len(v[3]) == 1 and not v[3][0][2] and simp(v[3][0][1]) == self.SPEC:
            return (1, 0, False)
        if v[0] == "list" and not any(e[0] == "star" for e in v[1]):
            return (0, len(v[1]), False)
        if v[0] == "appended":
            a = self._list_len(v[1])
            return (a[0], a[1] + 1, a[2]) if a else None
        if v[0] == "binop" and v[1] == "Add":
            a, b = self._list_len(v[2]), self._list_len(v[3])
            return (a[0] + b[0], a[1] + b[1], False) if a and b and not a[2] and not b[2] else None
        if v[0] in ("phi", "ifexp") and self.is_has_thermal(v[1]):
            a, b = self._list_len(v[2]), self._list_len(v[3])
            if a and b and not a[2] and not b[2] and a[0] == b[0] and a[1] == b[1] + 1:
                return (b[0], b[1], True)
        return None

    def is_n_eqns(self, v, guards=()) -> bool:
        """`guards`: the conditions in force where v is evaluated -- under `if has_thermal` the number of equations is n_spec + 1"""
        v = simp(v)
        if v == ("call", ("global", "len"), (("acc", self.RHSNAME),), ()):
            return True         # rhs is created as ['0.0'] * n_eqns (C01.R1) and only its entries are re-assigned
        if v[0] == "call" and v[1] == ("global", "len") and len(v[2]) == 1 and not v[3] and self._list_len(v[2][0]) == (1, 0, True):
            # the length of the list of abundance symbols, one per species plus the temperature when there is a thermal equation:
            # n_spec + has_thermal, which is n_eqns wherever a species exists (the sites that index a species' row)
            return True
        if guards and v[0] == "binop" and v[1] == "Add" and any(p and self.is_has_thermal(g) for g, p in guards) and \
                ((self.is_n_spec(v[2]) and v[3] == ("const", 1)) or (self.is_n_spec(v[3]) and v[2] == ("const", 1))):
            return True
        if v[0] == "call" and v[1] == ("global", "len") and len(v[2]) == 1 and not v[3] and v[2][0][0] == "binop" and v[2][0][1] == "Mult":
            # len([c] * n) is n (n_eqns >= 1): the length of the RHS table read where the table is a helper's parameter
            a, b = v[2][0][2], v[2][0][3]
            if b[0] == "list":
                a, b = b, a
            if a[0] == "list" and len(a[1]) == 1 and a[1][0][0] != "star":
                return self.is_n_eqns(b)
        if v[0] == "call" and v[1] == ("global", "max") and len(v[2]) == 2 and not v[3]:
            a, b = v[2]
            if a == ("const", 1):
                a, b = b, a
            if b == ("const", 1) and a[0] == "binop" and a[1] == "Add":
                l, r = a[2], a[3]
                # the flag may be added as a bool, as int(flag) or as `1 if flag else 0` (is_has_thermal sees through these)
                return (self.is_n_spec(l) and self.is_has_thermal(r)) or (self.is_n_spec(r) and self.is_has_thermal(l))
            if b == ("const", 1) and a[0] == "ifexp" and self.is_has_thermal(a[1]) and self.is_n_spec(a[3]) and a[2][0] == "binop" and a[2][1] == "Add":
                # the sum written as a choice: `n_spec + 1 if has_thermal else n_spec`
                l, r = a[2][2], a[2][3]
                return (self.is_n_spec(l) and r == ("const", 1)) or (self.is_n_spec(r) and l == ("const", 1))
        return False

    def decode_flat(self, idx, guards=()):
        """row*n_eqns + col  ->  (row, col) or None."""
        idx = simp(idx)
        if idx[0] != "binop" or idx[1] != "Add":
            return None
        for a, b in ((idx[2], idx[3]), (idx[3], idx[2])):
            if a[0] == "binop" and a[1] == "Mult":
                for r, n in ((a[2], a[3]), (a[3], a[2])):
                    if self.is_n_eqns(n, guards):
                        return r, b
        # a longer sum (`rowstart + col + 1`, `col + n * row`): the one term carrying the factor n_eqns is the row part, the rest the column
        terms = []

        def flat(x):
            if x[0] == "binop" and x[1] == "Add":
                flat(x[2]); flat(x[3])
            else:
                terms.append(x)
        flat(idx)
        rows = [(i, r) for i, t in enumerate(terms) if t[0] == "binop" and t[1] == "Mult" for r, n in ((t[2], t[3]), (t[3], t[2])) if self.is_n_eqns(n, guards)]
        if len(rows) == 1 and len(terms) >= 2:
            i, r = rows[0]
            rest = [t for j, t in enumerate(terms) if j != i]
            col = rest[0]
            for t in rest[1:]:
                col = ("binop", "Add", col, t)
            return r, col
        return None

    def _known_arith(self, v) -> bool:
        """v is built by + - * and integer constants from species.index(..), n_spec and n_eqns only"""
        v = simp(v)
        if self.species_index(v) is not None or self.is_n_spec(v) or self.is_n_eqns(v):
            return True
        if v[0] == "const":
            return isinstance(v[1], int) and not isinstance(v[1], bool)
        if v[0] == "elem" and v[1][0] == "call" and v[1][1] == ("global", "range") and not v[1][3] and all(self._known_arith(a) for a in v[1][2]):
            return True         # the counter of a loop over a range of understood bounds
        if v[0] == "binop" and v[1] in ("Add", "Sub", "Mult", "FloorDiv", "Mod"):
            return self._known_arith(v[2]) and self._known_arith(v[3])
        if v[0] == "unop" and v[1] in ("USub", "UAdd"):
            return self._known_arith(v[2])
        # an element of set(..) / sorted(..) / dict.fromkeys(..) of a list of species positions: the positions are understood, the
        # domain they are drawn from is not the list itself (occurrences merged / reordered)
        if v[0] == "elem" and v[1][0] == "call" and v[1][1] in (("global", "set"), ("global", "frozenset"), ("global", "sorted"), ("global", "reversed"),
                                                                 ("attr", ("global", "dict"), "fromkeys")) and len(v[1][2]) >= 1:
            inner = simp(("elem", v[1][2][0], v[2]))
            return self.species_index(inner) is not None
        return False

    def species_index(self, v):
        """SPEC.index(x) -> x, else None."""
        if v[0] == "meth" and v[1] == self.SPEC and v[2] == "index" and len(v[3]) == 1 and not v[4]:
            return v[3][0]
        return None

    # ---- classification -----------------------------------------------------
    def _classify(self):
        for f in self.flow.facts:
            if f.target not in (self.RHSNAME, self.JACNAME):
                continue
            role = "rhs" if f.target == self.RHSNAME else "jacrhs"
            if f.kind == "init":
                self.sites.append(Site(role, f, "init"))
                continue
            if f.kind not in ("augstore", "store"):
                # (a table built / edited by list methods instead of indexed accumulation is a shape the site rules do not read)
                self.sites.append(Site(role, f, "other", problems=[("unrec", "unexpected-writer", f"{f.kind} on {f.target}: not an indexed store")]))
                continue
            self.sites.append(self._site(self._as_accumulation(f), role))

    @staticmethod
    def _as_accumulation(f):
        """`X[i] = X[i] + t` (also written `f"{X[i]}..."` with the old entry first) is the accumulation `X[i] += t`"""
        if f.kind != "store" or f.index is None or f.value is None:
            return f
        import dataclasses
        v, old = simp(f.value), ("sub", ("acc", f.target), simp(f.index))
        if v[0] == "binop" and v[1] == "Add" and v[2] == old:
            return dataclasses.replace(f, kind="augstore", op="Add", value=v[3])
        if v[0] == "fstr" and len(v[1]) >= 2 and v[1][0] == ("fmt", old, None, -1) and not any(old == x for p_ in v[1][1:] for x in walk(p_)):
            return dataclasses.replace(f, kind="augstore", op="Add", value=("fstr", v[1][1:]))
        return f

    def _site(self, f, role) -> Site:
        s = Site(role, f, "other")
        idx = simp(f.index)
        if role == "rhs":
            row, col = idx, None
        else:
            d = self.decode_flat(idx, tuple((simp(g), p) for g, p in f.guards))
            if d is None:
                # wrong only when it is arithmetic over understood positions that does not have the row-major form (`col*n + row` is
                # decoded and caught by the row / column rules); a slice, a tuple key, an index computed elsewhere is not understood
                s.problems.append(("viol" if self._known_arith(idx) else "unrec", "flat-index", f"index is not row*n_eqns + col: {show(idx)[:200]}"))
                return s
            row, col = d
        # --- row
        loops = {l.id: l for l in f.loops}
        outer = f.loops[0] if f.loops else None
        x = self.species_index(row)
        if x is not None:
            s.row = ("species", x)
        elif self.is_n_spec(row):
            s.row = ("tgas",)
        else:
            # an index read from a list built elsewhere is not understood, which is not the same as wrong
            # wrong only when it is arithmetic over positions that ARE understood (`species.index(r) + 1`, `n_spec - 1`); an index read
            # from a list / record / call built elsewhere is not understood, which is not the same as wrong
            s.problems.append(("viol" if self._known_arith(row) else "unrec", "row", f"row index is neither species.index(..) nor n_spec: {show(row)[:160]}"))
        if col is not None:
            cx = self.species_index(col)
            if cx is not None:
                s.col = ("species", cx)
            elif col[0] == "elem" and col[1][0] == "call" and col[1][1] == ("global", "range"):
                s.col = ("range", col[1][2], col[2])
            else:
                s.problems.append(("viol" if self._known_arith(col) else "unrec", "col", f"column index is not species.index(..): {show(col)[:160]}"))
        # --- kind by enclosing loop
        kind = None
        if outer is not None:
            it = simp(outer.iter)
            if it == ("call", ("global", "enumerate"), (self.REAC,), ()):
                kind = "reaction"
            elif it == ("call", ("global", "enumerate"), (self.HEAT,), ()):
                kind = "heat"
            elif it == ("call", ("global", "enumerate"), (self.COOL,), ()):
                kind = "cool"
            elif it[0] == "meth" and it[2] == "items" and it[1] == ("param", "ode_modifier"):
                kind = "mod"
        if f.kind == "store":
            s.kind = "wrap"
            s.value = simp(f.value)
            return s
        if kind is None:
            # a loop that does walk the reactions / thermal processes, but in a form that is not understood, is "cannot analyse"
            lists = (self.REAC_FIELD, self.REAC, self.HEAT, self.COOL)
            foreign = outer is not None and any(isinstance(x, tuple) and x and ((x[0] == "meth" and x[1] in (("param", "self"), ("param", "cls"))) or x[0] in ("unknown", "carried", "after", "acc"))
                                                for lp_ in f.loops for x in walk(simp(lp_.iter)))
            if outer is not None and (foreign or contains(simp(outer.iter), _opaque) or any(x in lists for lp_ in f.loops for x in walk(simp(lp_.iter)))):
                # (also: a loop over what a helper method returns / over a list built elsewhere -- the entities it walks are not known)
                s.problems.append(("unrec", "loop-shape", f"store into {f.target} inside a loop over {show(simp(outer.iter))[:80]}: loop form not understood"))
            else:
                s.problems.append(("viol", "unexpected-writer", f"store into {f.target} outside the reaction/thermal/modifier loops"))
            return s
        if f.op != "Add":
            s.problems.append(("viol", "op", f"accumulation uses {f.op}, not +="))
            return s
        # --- value
        lw = lower(f.value)
        s.text = lw.text
        for kind_, ir in lw.errors:
            s.problems.append(("viol", kind_, f"`*` applied to a string value ({show(ir)[:80]}): its characters become the joined factors"))
        try:
            e = calg.parse("0.0 " + lw.text)
        except calg.CParseError as ex:
            s.problems.append(("viol", "not-a-term", f"appended text is not `± term`: {lw.text!r} ({ex})"))
            s.kind = {"reaction": "loss"}.get(kind, kind)
            return s
        terms = calg.split_terms(e)
        if len(terms) != 2 or terms[0][1][0] != "num":
            s.problems.append(("viol", "not-a-term", f"appended text is not a single signed term: {lw.text!r}"))
            return s
        s.sign, term = terms[1]
        num, den = calg.split_factors(term)
        if den:
            s.problems.append(("viol", "factors", f"unexpected division in term {lw.text!r}"))
        seqs, rates, factors, extra = [], [], [], []
        for fac in num:
            if fac[0] == "id" and fac[1] in lw.seqs:
                seqs.append(lw.seqs[fac[1]])
            elif fac[0] == "index" and fac[1][0] == "id" and fac[2][0] == "id" and fac[2][1] in lw.holes:
                rates.append((fac[1][1], lw.holes[fac[2][1]]))
            elif fac[0] == "id" and fac[1] in lw.holes:
                factors.append(lw.holes[fac[1]])
            else:
                extra.append(calg.unparse(fac))
        if extra:
            s.problems.append(("viol", "factors", f"unexpected factor(s) {extra} in term {lw.text!r}"))
        # a factor that is an element of another (pre-computed) list or an accumulated value is text built elsewhere: the term cannot
        # be reconstructed here -- that is "cannot analyse", not a wrong term
        opaque = [h for h in factors if kind in ("reaction", "heat", "cool") and
                  (any(isinstance(x, tuple) and x and x[0] in ("elem", "acc", "carried", "item", "after") for x in walk(h[1] if h[0] == "fmt" else h))
                   or not_understood(h[1] if h[0] == "fmt" else h))]
        if opaque:
            s.problems.append(("unrec", "product", f"the term is pasted from a value built elsewhere ({show(opaque[0])[:80]}): not reconstructible"))
            return s
        if len(seqs) != 1:
            s.problems.append(("viol", "factors", f"term has {len(seqs)} abundance products, expected exactly one: {lw.text!r}"))
        # coefficient
        if kind in ("reaction", "heat", "cool"):
            want_sym = {"reaction": "k", "heat": "kh", "cool": "kc"}[kind]
            src = {"reaction": self.REAC, "heat": self.HEAT, "cool": self.COOL}[kind]
            if len(rates) != 1 or factors:
                s.problems.append(("viol", "coeff", f"term must carry exactly one rate coefficient {want_sym}[i]: {lw.text!r}"))
            else:
                sym, h = rates[0]
                hv = h[1] if h[0] == "fmt" else h
                if sym != want_sym:
                    s.problems.append(("viol", "coeff", f"rate array is `{sym}`, expected `{want_sym}`"))
                if hv != ("idx", src, outer.id):
                    s.problems.append(("viol", "coeff-index", f"rate index is {show(hv)}, expected the enumerate counter of the same loop"))
                s.coeff = ("rate", sym, outer.id)
        else:
            if len(factors) != 1 or rates:
                s.problems.append(("viol", "coeff", f"modifier term must be (factor) * product: {lw.text!r}"))
            else:
                h = factors[0]
                s.coeff = ("factor", h[1] if h[0] == "fmt" else h)
                # a user-supplied expression must be parenthesised where it is multiplied
                hn = next(k for k, x in lw.holes.items() if x == h)
                if not re.search(r"\(\s*" + re.escape(hn) + r"\s*\)", lw.text):
                    s.problems.append(("viol", "factor-parentheses",
                                       f"the user-supplied factor is pasted without parentheses into a product ({lw.text!r}): a factor such as `a - b` binds wrongly"))
        # the entity whose reactants are multiplied
        if kind == "mod":
            ent = None
        else:
            ent = ("elem", {"reaction": self.REAC, "heat": self.HEAT, "cool": self.COOL}[kind], outer.id)
        s.entity = ent
        # row role
        if kind == "reaction":
            role = None
            if s.row and s.row[0] == "species":
                b = match(("elem", ("attr", ent, V("role")), V("L")), s.row[1])
                bf = match(("elem", ("filtered", ("attr", ent, V("role")), V("fbv"), V("fifs")), V("L")), s.row[1])
                if b and b["role"] in ("reactants", "products") and b["L"] in loops:
                    role = b["role"]
                    s.rowloop = b["L"]
                    s.rowbase = ("attr", ent, role)
                elif bf and bf["role"] in ("reactants", "products") and bf["L"] in loops:
                    role = bf["role"]
                    s.rowloop = bf["L"]
                    z = ("bv", "_", 0)
                    s.rowbase = ("filtered", ("attr", ent, role), tuple(simp(subst(c, {bf["fbv"]: z})) for c in bf["fifs"]))
                    s.problems.append(("viol", "row-domain",
                                       f"rows range over a filtered {role} list (some occurrences get no term): "
                                       + "; ".join(show(c)[:80] for c in bf["fifs"])))
                else:
                    s.rowbase = ("other", s.row[1])
                    # (wrong when the row species is an understood value that is not an occurrence of this reaction's lists)
                    s.problems.append(("unrec" if not_understood(s.row[1]) else "viol", "row-domain",
                                       f"row does not range over the reaction's own reactant/product list: {show(s.row[1])[:160]}"))
            elif s.row:
                s.problems.append(("viol", "row", "reaction term stored into the temperature row"))
            s.kind = {"reactants": "loss", "products": "gain", None: "loss"}[role]
            s.role = role
        elif kind in ("heat", "cool"):
            s.kind = kind
            if s.row and s.row[0] != "tgas":
                s.problems.append(("viol", "row", f"thermal term must go to row n_spec, found {show(row)}"))
        else:
            s.kind = "mod"
        # the product
        if len(seqs) == 1:
            self._seq(s, seqs[0], ent, loops, kind)
        return s

    def _seq(self, s, sq, ent, loops, kind):
        sep, raw = sq
        raw = simp(raw)
        if sep != "*":
            s.problems.append(("viol", "product", f"abundances are joined with {sep!r}, not '*'"))
        minus = None
        core = raw
        if core[0] == "removeone":
            minus = simp(core[2])
            inner = core[1]
            fresh = inner[0] in ("copy", "comp", "list") or \
                (inner[0] == "sub" and inner[2][0] == "slice") or \
                (inner[0] == "call" and inner[1] == ("global", "list"))
            if inner[0] == "aliased":
                s.problems.append(("viol", "no-copy", f"factor removed through the alias `{inner[2]}` of the shared factor list, not from a fresh copy"))
                inner = inner[1]
            elif contains(inner, lambda t: isinstance(t, tuple) and t and t[0] in ("carried", "after")):
                s.problems.append(("viol", "copy-hoisted", "the list a factor is removed from is carried across loop iterations "
                                                           "(copy made outside the innermost loop): removals accumulate"))
            elif not fresh:
                s.problems.append(("viol", "no-copy", f"factor removed from a shared list, not from a fresh copy: {show(inner)[:80]}"))
            core = inner
            while core[0] in ("copy",) or (core[0] == "call" and core[1] == ("global", "list") and len(core[2]) == 1):
                core = core[1] if core[0] == "copy" else core[2][0]
            if core[0] == "sub" and core[2][0] == "slice":
                core = core[1]
        noremoval = minus is None and s.array == "jacrhs"
        if contains(core, lambda t: isinstance(t, tuple) and t and t[0] in ("carried", "after", "unknown", "mutated")):
            s.problems.append(("unrec", "product", f"factor list not reconstructible: {show(core)[:100]}"))
            return
        m = as_map(core)
        if m is None:
            # a Jacobian product that is not `<list>.remove(..)` on a copy AND not the complete factor list either may drop the factor
            # some other way (slices around the position, a filter by position): not understood, not "nothing removed"
            s.problems.append(("unrec" if (noremoval or not_understood(core)) else "viol", "product", f"factor list is not one factor per element of a list: {show(core)[:100]}"))
            return
        if noremoval:
            # positive evidence: the product is over the COMPLETE factor list, as in the right-hand side
            s.problems.append(("viol", "no-removal", "Jacobian term does not remove the differentiated factor"))
        bv, body, base, ifs = m
        s.seq = {"bv": bv, "body": body, "base": base, "ifs": ifs, "minus": minus}
        if ifs:
            s.problems.append(("viol", "product", f"factor list is filtered: {[show(c) for c in ifs]}"))
        # base
        if kind == "mod":
            want_body = None
        else:
            want_base = ("attr", ent, "reactants")
            if base != want_base:
                s.problems.append(("unrec" if not_understood(base) else "viol", "product-base", f"product ranges over {show(base)}, expected {show(want_base)}"))
            if body != Y(bv):
                s.problems.append(("unrec" if not_understood(body) else "viol", "product-body", f"factor is {show(body)}, expected y[IDX_<alias of the reactant>]"))
        # removed element and column variable
        if minus is not None:
            colvar = None
            if s.col and s.col[0] == "species":
                colvar = s.col[1]
                b = match(("elem", V("B"), V("L")), colvar)
                if kind != "mod":
                    if not b or b["B"] != base or b["L"] not in loops:
                        s.problems.append(("viol", "col-domain", f"column does not range over the reactant list (with multiplicity): {show(colvar)}"))
                    else:
                        s.colloop = b["L"]
                else:
                    bx = match(Y(V("x")), body)
                    hit = None
                    if bx:
                        for lid in loops:
                            if colvar == simp(subst(bx["x"], {bv: ("elem", base, lid)})):
                                hit = lid
                    if hit is None:
                        s.problems.append(("viol", "col-domain", f"column does not range over the dependency list of this term (with multiplicity): {show(colvar)[:100]}"))
                    else:
                        s.colloop = hit
                        s.colbase = base
            if colvar is not None:
                want = simp(subst(body, {bv: colvar})) if kind != "mod" else None
                if kind != "mod" and minus != want:
                    s.problems.append(("viol", "removed-factor", f"removed factor {show(minus)} is not the factor of the column variable {show(want)}"))
                if kind == "mod" and minus != Y(colvar):
                    s.problems.append(("viol", "removed-factor", f"removed factor {show(minus)} is not y[IDX_<alias of the column species>]"))


def poly(v):
    """Integer polynomial normal form of an index expression: {sorted tuple of atoms: coefficient}.  + - * and integer constants are
    interpreted, everything else is an atom.  `row*n + 0`, `n*row`, `(row+1)*n - n` all compare equal to `row*n`."""
    v = simp(v)

    def add(a, b, sg=1):
        out = dict(a)
        for k, c in b.items():
            out[k] = out.get(k, 0) + sg * c
        return {k: c for k, c in out.items() if c}

    def mul(a, b):
        out = {}
        for k1, c1 in a.items():
            for k2, c2 in b.items():
                k = tuple(sorted(k1 + k2, key=repr))
                out[k] = out.get(k, 0) + c1 * c2
        return {k: c for k, c in out.items() if c}
    if v[0] == "const" and isinstance(v[1], int) and not isinstance(v[1], bool):
        return {(): v[1]} if v[1] else {}
    if v[0] == "binop" and v[1] in ("Add", "Sub"):
        return add(poly(v[2]), poly(v[3]), 1 if v[1] == "Add" else -1)
    if v[0] == "binop" and v[1] == "Mult":
        return mul(poly(v[2]), poly(v[3]))
    if v[0] == "unop" and v[1] == "USub":
        return add({}, poly(v[2]), -1)
    return {(v,): 1}


def row_slice(m: OdeModel, sl, row):
    """is `sl` the slice [row*n_eqns : (row+1)*n_eqns] (any arithmetic spelling)?  -> True / False / None (not a plain slice)"""
    if sl[0] != "slice" or sl[3] != ("const", None):
        return None
    lo, hi = poly(sl[1]) if sl[1] != ("const", None) else {}, poly(sl[2])
    ns = {a for k in list(lo) + list(hi) for a in k if m.is_n_eqns(a)}
    if len(ns) != 1:
        return False
    n = next(iter(ns))
    want_lo = poly(("binop", "Mult", row, n))
    return lo == want_lo and hi == poly(("binop", "Add", ("binop", "Mult", row, n), n))


def write_read_order(m: OdeModel, role: str):
    """(last write seq, line), (first consumer seq, line, what) for rhs / jacrhs.
    Consumers: the `fex` comprehension (rhs); the CSR builder's reads and the Jacobian(...) construction (jacrhs)."""
    fl = m.flow
    name = m.RHSNAME if role == "rhs" else m.JACNAME
    acc = ("acc", name)
    writes = [f for f in fl.facts if f.target == name and f.kind in ("store", "augstore", "append", "mutate", "remove")]
    last = max(writes, key=lambda f: f.seq) if writes else None
    consumers = []
    if role == "rhs":
        for nm, lst in fl.assigns.items():
            for v, loops, guards, line, seq in lst:
                if v[0] == "comp" and any(x == acc for x in walk(v)):
                    consumers.append((seq, line, f"`{nm}` is built from {name}"))
    else:
        for f in fl.facts:
            if f.target == name:
                continue
            uses = (f.value is not None and any(x == acc for x in walk(f.value))) or any(any(x == acc for x in walk(g)) for g, _ in f.guards)
            if uses and f.kind in ("append", "augassign", "return", "call"):
                consumers.append((f.seq, f.line, f"{f.kind} `{f.target}` reads {name}"))
        for nm, lst in fl.assigns.items():
            for v, loops, guards, line, seq in lst:
                if v[0] == "meth" and v[2] == "Jacobian":
                    consumers.append((seq, line, "Jacobian(...) is constructed"))
    first = min(consumers) if consumers else None
    return last, first


def model(tree) -> OdeModel:
    if "_odemodel" not in tree.__dict__:
        tree.__dict__["_odemodel"] = OdeModel(tree)
    return tree.__dict__["_odemodel"]
