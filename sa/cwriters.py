"""Who-may-write rule for the generated C++ functions: every assignment in the STATIC text of a back-end template (not the
pasted equations themselves) to one of the state arrays (ydot, y, k, the Jacobian storage, ...) must be one of the reviewed
statements of this table.  A clamp, a filter, a second store or a changed index expression is none of them.

Statements are compared in a normal form: whitespace removed, Jinja outputs written H, and a bare lower-case identifier used as
an index written # (so renaming a loop counter is not a change)."""
from __future__ import annotations

import re

from . import jmodel as J
from .cskel import Skel

FEX = "naunet/templates/cvode/src/naunet_fex.cpp.j2"
JAC = "naunet/templates/cvode/src/naunet_jac.cpp.j2"
RATES = "naunet/templates/cvode/src/naunet_rates.cpp.j2"
ODE = "naunet/templates/odeint/src/naunet_ode.cpp.j2"

RHS_ARRAYS = {"ydot", "y", "y_cur", "abund"}
RATE_ARRAYS = {"k", "kh", "kc"}
JAC_ARRAYS = {"IJth", "data", "rowptrs", "colvals", "j", "dfdt", "y", "y_cur", "abund", "jmatrix"}

DECL = re.compile(r"\b(realtype|double|float|int|sunindextype)\s+$")
STMT = re.compile(r"(?<![\w.>])([A-Za-z_]\w*)\s*(\[[^\]\n;]*\]|\([^()\n;]*\))\s*([-+*/]?=)(?!=)\s*([^;]*);")

# (template, function) -> reviewed statements in normal form
ALLOWED = {
    (FEX, "Fex"): set(),
    (FEX, "FexKernel"): set(),
    (ODE, "Fex::operator()"): {"y[#]=abund[#]"},
    (ODE, "Jac::operator()"): {"y[#]=abund[#]", "j(H,H)=H", "dfdt[#]=0.0"},
    (JAC, "Jac"): {"IJth(jmatrix,H,H)=H", "rowptrs[H]=H", "colvals[H]=H", "data[H]=H"},
    (JAC, "JacKernel"): {"data[jistart+H]=H"},
    (JAC, "InitJac"): set(),
    (RATES, "EvalRates"): set(),
    (ODE, "EvalRates"): set(),
}
METHODS = {FEX: ("dense", "sparse", "cusparse"), JAC: ("dense", "sparse", "cusparse"), RATES: ("dense", "sparse", "cusparse"), ODE: ("rosenbrock4",)}


def norm(stmt: str) -> str:
    s = re.sub(r"\s+", "", stmt.replace("__HOLE__", "H"))
    # one loop counter, whatever it is called (`i`, `idx`, `ispec`): all bare lower-case index identifiers of the statement must be
    # the same name (`y[i]=abund[j]` is not the copy loop)
    idx = set(re.findall(r"\[([a-z_][a-z0-9_]*)\]", s))
    if len(idx) == 1:
        s = re.sub(r"\[([a-z_][a-z0-9_]*)\]", "[#]", s)
    # a numeric literal stored as the whole right-hand side, however it is spelled (`0`, `0.`, `0.0f`, `0.0e0`): its value
    mlit = re.fullmatch(r"(.*[^=!<>]=)(\d+\.?\d*(?:[eE][-+]?\d+)?)[fFlL]?", s)
    if mlit:
        try:
            s = mlit.group(1) + repr(float(mlit.group(2)))
        except ValueError:
            pass
    return s


def static_writes(tree, rel, arrays):
    """-> [(method, function, array, normal form, raw text, is declaration)] for assignments to `arrays` in static template text"""
    out = []
    seen = set()
    for mth in METHODS[rel]:
        sk = Skel(J.flatten(tree, rel, {"general.method": mth, "general.device": "gpu" if mth == "cusparse" else "cpu"}))
        for f in sk.funcs:
            body = sk.plain(f.body)
            for m in STMT.finditer(body):
                arr = m.group(1)
                if arr not in arrays:
                    continue
                decl = bool(DECL.search(body[:m.start()]))
                raw = " ".join(m.group(0).split())
                k = (f.name, raw, decl)
                if k in seen:
                    continue
                seen.add(k)
                out.append((mth, f.name, arr, norm(m.group(0).rstrip(";")), raw, decl))
    return out


def check_writers(ctx, rule, rels, arrays, what, funcs=None):
    """Obligation per static write found; -> number of reviewed writes met (for a floor)."""
    n = 0
    for rel in rels:
        ctx.saw(rel)
        for mth, fname, arr, nf, raw, decl in static_writes(ctx.tree, rel, arrays):
            if funcs is not None and fname not in funcs:
                continue
            key = f"{rel.rsplit('/', 1)[1]}:{fname}:writes {arr}:{nf[:60]}"
            line = 0
            txt = ctx.tree.read(rel)
            probe = raw.split("=")[0].replace(" __HOLE__ ", "").strip()[:12]
            for i, l in enumerate(txt.splitlines(), 1):
                if probe and probe in l.replace(" ", "").replace("{{", "").replace("}}", "") or (probe and probe.split("[")[0] + "[" in l and "=" in l and arr in l):
                    line = i
                    break
            if decl:
                ok = re.fullmatch(rf"{arr}\[[A-Z_+1]+\]=\{{0(\.0)?\}}", nf) is not None or re.fullmatch(rf"{arr}\[[A-Z_+1 ]+\]=\{{H*\}}", nf) is not None      # (an initialiser made of template outputs only -- one joined output or a loop printing elements and separators; what they print is C03.R3's subject)
                ctx.check(ok, rule, key, (rel, line), f"`{raw}` declares a zero-initialised work array" if ok else f"`{raw}`: unexpected initialiser for a work array", found=raw)
                n += 1
                continue
            allowed = ALLOWED.get((rel, fname))
            if allowed is None:
                ctx.bad(rule, key, (rel, line), f"`{raw}` in {fname}: {what} is written in a function that has no reviewed writer", found=raw)
                continue
            ok = nf in allowed
            n += 1
            ctx.check(ok, rule, key, (rel, line),
                      f"`{raw}` is a reviewed statement of {fname}" if ok else
                      f"`{raw}` in {fname} rewrites {what} outside the generated equations (a clamp, a filter, a second store or a changed index): the function no longer computes "
                      "what the generated expressions say, for exactly the states where the added statement acts",
                      expected=f"only {sorted(allowed) or 'the pasted equations'}", found=raw)
    return n
