"""Apply a unified diff (as produced by `git diff`) to a SourceTree IN MEMORY: -> overlay dict {path: new text} or None when the
patch does not apply to today's tree.  Used by the thorough tier to analyse the stored seeded changes (must be reported) and the
stored behaviour-preserving refactors (must be silent) without writing a copy of /repo anywhere."""
from __future__ import annotations

import re

from .core import SourceTree

_HUNK = re.compile(r"^@@ -(\d+)(?:,(\d+))? \+(\d+)(?:,(\d+))? @@")


def parse(diff_text: str):
    """-> [(old path | None, new path | None, [hunks])], hunk = (old_start, [(tag, line)])"""
    files = []
    cur = None
    lines = diff_text.split("\n")
    i = 0
    while i < len(lines):
        l = lines[i]
        if l.startswith("diff --git "):
            cur = {"old": None, "new": None, "hunks": []}
            files.append(cur)
        elif l.startswith("--- ") and cur is not None and not cur["hunks"]:
            p = l[4:].strip()
            cur["old"] = None if p == "/dev/null" else p[2:] if p[:2] in ("a/", "b/") else p
        elif l.startswith("+++ ") and cur is not None and not cur["hunks"]:
            p = l[4:].strip()
            cur["new"] = None if p == "/dev/null" else p[2:] if p[:2] in ("a/", "b/") else p
        else:
            m = _HUNK.match(l)
            if m and cur is not None:
                old_start = int(m.group(1))
                old_n = int(m.group(2)) if m.group(2) is not None else 1
                new_n = int(m.group(4)) if m.group(4) is not None else 1
                body = []
                i += 1
                seen_old = seen_new = 0
                while i < len(lines) and (seen_old < old_n or seen_new < new_n):
                    h = lines[i]
                    if h.startswith("\\"):
                        i += 1
                        continue
                    tag, txt = (h[:1] or " "), h[1:]
                    if tag not in " +-":
                        break
                    body.append((tag, txt))
                    if tag in " -":
                        seen_old += 1
                    if tag in " +":
                        seen_new += 1
                    i += 1
                cur["hunks"].append((old_start, body))
                continue
        i += 1
    return [(f["old"], f["new"], f["hunks"]) for f in files if f["hunks"] or f["old"] is None or f["new"] is None]


def apply_to_text(text: str, hunks) -> str | None:
    src = text.split("\n")
    out = []
    pos = 0            # index into src
    for old_start, body in hunks:
        old = [t for tag, t in body if tag in " -"]
        # locate: at the stated position, else search nearby (git's fuzz-free offset search)
        want = max(old_start - 1, 0)
        found = None
        for delta in sorted(range(-200, 201), key=abs):
            j = want + delta
            if j < pos or j + len(old) > len(src):
                continue
            if src[j:j + len(old)] == old:
                found = j
                break
        if found is None:
            return None
        out.extend(src[pos:found])
        for tag, t in body:
            if tag in " +":
                out.append(t)
        pos = found + len(old)
    out.extend(src[pos:])
    return "\n".join(out)


def overlay_of(tree: SourceTree, diff_text: str):
    ov = {}
    for old, new, hunks in parse(diff_text):
        if old is None and new is not None:                      # new file
            txt = apply_to_text("", hunks)
            if txt is None:
                return None
            ov[new] = txt.lstrip("\n") if txt.startswith("\n") else txt
            continue
        if new is None:                                          # deleted file
            ov[old] = None
            continue
        if not tree.exists(old):
            return None
        txt = apply_to_text(ov.get(old, tree.read(old)) if ov.get(old) is not None else tree.read(old), hunks)
        if txt is None:
            return None
        ov[new] = txt
        if new != old:
            ov[old] = None
    return ov
