"""E3: parser for the C expression subset naunet emits, and a canonical algebra
(over the positive reals) used to compare rate laws and RHS/Jacobian terms.

Nothing is evaluated numerically apart from folding literal constants; two
expressions are 'equivalent' iff their canonical forms coincide (coefficients
compared with relative tolerance 1e-9).
"""
from __future__ import annotations

import math
import re
from fractions import Fraction

TOKEN = re.compile(r"""
    (?P<ws>\s+)
  | (?P<num>(?:\d+\.\d*|\.\d+|\d+)(?:[eE][+-]?\d+)?)
  | (?P<id>[A-Za-z_][A-Za-z_0-9]*(?:::[A-Za-z_][A-Za-z_0-9]*)*)
  | (?P<op>->|\+\+|--|&&|\|\||[<>=!]=|[-+*/%<>?:(),\[\]!.&|^~=;{}])
""", re.X)


class CParseError(Exception):
    pass


def tokenize(s: str):
    out = []
    i = 0
    while i < len(s):
        m = TOKEN.match(s, i)
        if not m:
            raise CParseError(f"bad character {s[i]!r} at {i} in {s!r}")
        i = m.end()
        k = m.lastgroup
        if k == "ws":
            continue
        out.append((k, m.group()))
    return out


def fused_operators(s: str):
    """Lexical C05 fact: adjacent sign characters that C would read as one
    token (`--`, `++`) or that betray a missing clean-up (`+-`, `-+`)."""
    return re.findall(r"\+\+|--|\+-|-\+", re.sub(r"\s+", "", re.sub(r"[eE][+-]\d", "E0", s)))


# ---------------------------------------------------------------- parser
# AST: ("num", float, text) ("id", name) ("call", name, [args]) ("index", base, idx)
#      ("neg", x) ("not", x) ("bin", op, a, b) ("cond", c, a, b) ("member", base, name)

class Parser:
    def __init__(self, s: str):
        self.s = s
        self.t = tokenize(s)
        self.i = 0

    def peek(self):
        return self.t[self.i] if self.i < len(self.t) else (None, None)

    def eat(self, val=None):
        k, v = self.peek()
        if k is None or (val is not None and v != val):
            raise CParseError(f"expected {val!r}, found {v!r} in {self.s!r}")
        self.i += 1
        return v

    def parse(self):
        e = self.cond()
        if self.i != len(self.t):
            raise CParseError(f"trailing tokens {self.t[self.i:][:4]} in {self.s!r}")
        return e

    def cond(self):
        c = self.lor()
        if self.peek()[1] == "?":
            self.eat("?")
            a = self.cond()
            self.eat(":")
            b = self.cond()
            return ("cond", c, a, b)
        return c

    def _left(self, sub, ops):
        a = sub()
        while self.peek()[1] in ops and self.peek()[0] == "op":
            op = self.eat()
            b = sub()
            a = ("bin", op, a, b)
        return a

    def lor(self):
        return self._left(self.land, ("||",))

    def land(self):
        return self._left(self.eq, ("&&",))

    def eq(self):
        return self._left(self.rel, ("==", "!="))

    def rel(self):
        return self._left(self.add, ("<", ">", "<=", ">="))

    def add(self):
        return self._left(self.mul, ("+", "-"))

    def mul(self):
        return self._left(self.unary, ("*", "/", "%"))

    def unary(self):
        k, v = self.peek()
        if k == "op" and v == "-":
            self.eat()
            return ("neg", self.unary())
        if k == "op" and v == "+":
            self.eat()
            return self.unary()
        if k == "op" and v == "!":
            self.eat()
            return ("not", self.unary())
        if k == "op" and v in ("--", "++"):
            raise CParseError(f"fused operator {v!r} in {self.s!r}")
        return self.postfix()

    def postfix(self):
        k, v = self.peek()
        if k == "num":
            self.eat()
            e = ("num", float(v), v)
        elif k == "id":
            self.eat()
            e = ("id", v)
        elif v == "(":
            self.eat("(")
            e = self.cond()
            self.eat(")")
        else:
            raise CParseError(f"unexpected {v!r} in {self.s!r}")
        while True:
            k, v = self.peek()
            if v == "(" and e[0] == "id":
                self.eat("(")
                args = []
                if self.peek()[1] != ")":
                    args.append(self.cond())
                    while self.peek()[1] == ",":
                        self.eat(",")
                        args.append(self.cond())
                self.eat(")")
                e = ("call", e[1], args)
            elif v == "[":
                self.eat("[")
                idx = self.cond()
                self.eat("]")
                e = ("index", e, idx)
            elif v in (".", "->") and k == "op":
                self.eat()
                name = self.eat()
                e = ("member", e, name)
            else:
                return e


def parse(s: str):
    return Parser(s).parse()


def idents(e, out=None):
    """Free identifiers of an expression, with the way each is used."""
    if out is None:
        out = {}
    k = e[0]
    if k == "id":
        out.setdefault(e[1], set()).add("var")
    elif k == "call":
        out.setdefault(e[1], set()).add("call")
        for a in e[2]:
            idents(a, out)
    elif k == "index":
        idents(e[1], out)
        idents(e[2], out)
    elif k in ("neg", "not"):
        idents(e[1], out)
    elif k == "bin":
        idents(e[2], out)
        idents(e[3], out)
    elif k == "cond":
        for x in e[1:]:
            idents(x, out)
    elif k == "member":
        idents(e[1], out)
    return out


def unparse(e) -> str:
    k = e[0]
    if k == "num":
        return e[2]
    if k == "id":
        return e[1]
    if k == "call":
        return f"{e[1]}({', '.join(unparse(a) for a in e[2])})"
    if k == "index":
        return f"{unparse(e[1])}[{unparse(e[2])}]"
    if k == "neg":
        return f"-({unparse(e[1])})"
    if k == "not":
        return f"!({unparse(e[1])})"
    if k == "bin":
        return f"({unparse(e[2])} {e[1]} {unparse(e[3])})"
    if k == "cond":
        return f"({unparse(e[1])} ? {unparse(e[2])} : {unparse(e[3])})"
    if k == "member":
        return f"{unparse(e[1])}.{e[2]}"
    return "?"


# ------------------------------------------------------------ canonical
# Canon = dict { monomial : coeff }, monomial = tuple(sorted((atom, Fraction exp)))
# atom = hashable tuple describing an opaque positive quantity.

TOL = 1e-9


class Canon:
    __slots__ = ("terms",)

    def __init__(self, terms=None):
        self.terms = {}
        if terms:
            for m, c in terms.items():
                self._acc(m, c)

    def _acc(self, m, c):
        v = self.terms.get(m, 0.0) + c
        if abs(v) <= 1e-300:
            self.terms.pop(m, None)
        else:
            self.terms[m] = v

    @staticmethod
    def const(c):
        return Canon({(): float(c)}) if c else Canon()

    @staticmethod
    def atom(a, exp=Fraction(1)):
        return Canon({((a, exp),): 1.0})

    def is_const(self):
        return all(m == () for m in self.terms)

    def const_value(self):
        return self.terms.get((), 0.0)

    def is_monomial(self):
        return len(self.terms) == 1

    def __add__(self, o):
        r = Canon(self.terms)
        for m, c in o.terms.items():
            r._acc(m, c)
        return r

    def scale(self, k):
        return Canon({m: c * k for m, c in self.terms.items()})

    def __mul__(self, o):
        r = Canon()
        for m1, c1 in self.terms.items():
            for m2, c2 in o.terms.items():
                r._acc(mono_mul(m1, m2), c1 * c2)
        return r

    def power(self, e: Fraction):
        if e == 0:
            return Canon.const(1.0)
        if not self.terms:
            return Canon()
        if self.is_monomial():
            (m, c), = self.terms.items()
            if c < 0 and e.denominator != 1:
                return Canon.atom(("pow", self.key(), ("q", e)))
            cc = (abs(c) ** float(e)) * (-1 if (c < 0 and e.numerator % 2) else 1)
            return Canon({tuple(sorted(((a, x * e) for a, x in m), key=repr)): cc})
        if e.denominator == 1 and 0 < e.numerator <= 4:
            r = Canon.const(1.0)
            for _ in range(e.numerator):
                r = r * self
            return r
        # opaque power of a sum; normalise the sum's overall scale out of it
        return Canon.atom(("sum", self.key()), e)

    def key(self):
        """Hashable, tolerance-rounded form (used inside opaque atoms)."""
        return tuple(sorted(((m, float(f"{c:.9e}")) for m, c in self.terms.items()), key=repr))

    def equiv(self, o) -> bool:
        if set(self.terms) != set(o.terms):
            return False
        for m, c in self.terms.items():
            d = o.terms[m]
            if abs(c - d) > TOL * max(abs(c), abs(d), 1e-300):
                return False
        return True

    def show(self) -> str:
        if not self.terms:
            return "0"
        out = []
        for m, c in sorted(self.terms.items(), key=lambda kv: repr(kv[0])):
            fs = [show_atom(a) + ("" if x == 1 else f"^{x}") for a, x in m]
            out.append(("%.10g" % c) + ("*" + "*".join(fs) if fs else ""))
        return " + ".join(out)


def mono_mul(m1, m2):
    d = dict(m1)
    for a, x in m2:
        d[a] = d.get(a, Fraction(0)) + x
    return tuple(sorted(((a, x) for a, x in d.items() if x != 0), key=repr))


def show_atom(a) -> str:
    if a[0] == "id":
        return a[1]
    if a[0] == "index":
        return f"{show_atom(a[1])}[{a[2] if isinstance(a[2], str) else canon_show(a[2])}]"
    if a[0] == "fn":
        return f"{a[1]}({', '.join(canon_show(x) for x in a[2])})"
    if a[0] == "sum":
        return "(" + canon_show(a[1]) + ")"
    if a[0] == "pow":
        return f"pow({canon_show(a[1])},{a[2]})"
    if a[0] == "cond":
        return f"({a[1]} ? {canon_show(a[2])} : {canon_show(a[3])})"
    return repr(a)


def canon_show(key) -> str:
    try:
        return Canon({m: c for m, c in key}).show()
    except Exception:
        return repr(key)


OPAQUE_FUNCS_1 = {"exp", "log", "log10", "fabs", "abs", "tanh", "sinh", "cosh", "sin", "cos", "erf", "floor", "ceil"}


def canon(e, env=None) -> Canon:
    """env maps identifier -> C text / AST to substitute (registry resolution)."""
    k = e[0]
    if k == "num":
        return Canon.const(e[1])
    if k == "id":
        if env and e[1] in env:
            v = env[e[1]]
            if isinstance(v, (int, float)):
                return Canon.const(v)
            if isinstance(v, Canon):
                return v
            return canon(parse(v) if isinstance(v, str) else v, env)
        return Canon.atom(("id", e[1]))
    if k == "neg":
        return canon(e[1], env).scale(-1.0)
    if k == "bin":
        op = e[1]
        if op == "+":
            return canon(e[2], env) + canon(e[3], env)
        if op == "-":
            return canon(e[2], env) + canon(e[3], env).scale(-1.0)
        if op == "*":
            return canon(e[2], env) * canon(e[3], env)
        if op == "/":
            return canon(e[2], env) * canon(e[3], env).power(Fraction(-1))
        a, b = canon(e[2], env), canon(e[3], env)
        return Canon.atom(("cmp", op, a.key(), b.key()))
    if k == "index":
        idx = canon(e[2], env)
        base = e[1]
        bk = ("id", base[1]) if base[0] == "id" else ("expr", canon(base, env).key())
        return Canon.atom(("index", bk, idx.key()))
    if k == "member":
        return Canon.atom(("id", unparse(e)))
    if k == "cond":
        c = e[1]
        ck = unparse(c) if not env else canon_cond(c, env)
        return Canon.atom(("cond", ck, canon(e[2], env).key(), canon(e[3], env).key()))
    if k == "not":
        return Canon.atom(("not", canon(e[1], env).key()))
    if k == "call":
        f, args = e[1], e[2]
        if f == "sqrt" and len(args) == 1:
            return canon(args[0], env).power(Fraction(1, 2))
        if f == "pow" and len(args) == 2:
            b = canon(args[0], env)
            x = canon(args[1], env)
            if x.is_const():
                v = x.const_value()
                fr = Fraction(v).limit_denominator(1000)
                if abs(float(fr) - v) < 1e-12:
                    return b.power(fr)
                if b.is_const() and b.const_value() > 0:
                    return Canon.const(b.const_value() ** v)
            if b.is_const() and x.is_monomial():
                # pow(10, log10(x)) -> x
                (m, c), = x.terms.items()
                if len(m) == 1 and c == 1.0 and m[0][1] == 1 and m[0][0][0] == "fn" and m[0][0][1] == "log10" \
                        and abs(b.const_value() - 10.0) < 1e-12:
                    return Canon(dict(m[0][0][2][0]))
            return Canon.atom(("fn", "pow", (b.key(), x.key())))
        if f == "exp" and len(args) == 1:
            a = canon(args[0], env)
            if not a.terms:
                return Canon.const(1.0)
            if a.is_const():
                return Canon.const(math.exp(a.const_value())) if abs(a.const_value()) < 700 else Canon.atom(("fn", "exp", (a.key(),)))
            # exp(a+b) = exp(a)exp(b): split the sum so that factor order does not matter
            r = Canon.const(1.0)
            for m, c in sorted(a.terms.items(), key=lambda kv: repr(kv[0])):
                if m == ():
                    r = r.scale(math.exp(c))
                else:
                    r = r * Canon.atom(("fn", "exp", (Canon({m: c}).key(),)))
            return r
        return Canon.atom(("fn", f, tuple(canon(a, env).key() for a in args)))
    raise CParseError(f"cannot canonicalise {e!r}")


def canon_cond(c, env):
    if c[0] == "bin":
        return (c[1], canon(c[2], env).key() if c[1] not in ("&&", "||") else canon_cond(c[2], env),
                canon(c[3], env).key() if c[1] not in ("&&", "||") else canon_cond(c[3], env))
    return canon(c, env).key()


def canon_str(s: str, env=None) -> Canon:
    return canon(parse(s), env)


def equivalent(a: str, b: str, env_a=None, env_b=None) -> bool:
    return canon_str(a, env_a).equiv(canon_str(b, env_b))


# --------------------------------------------------------- term queries

def split_terms(e):
    """Flatten a sum into signed terms: [(sign, ast)]."""
    if e[0] == "bin" and e[1] in "+-" and len(e[1]) == 1:
        l = split_terms(e[2])
        r = split_terms(e[3])
        if e[1] == "-":
            r = [(-s, t) for s, t in r]
        return l + r
    if e[0] == "neg":
        return [(-s, t) for s, t in split_terms(e[1])]
    return [(1, e)]


def split_factors(e):
    """Flatten a product into (numerator factors, denominator factors)."""
    if e[0] == "bin" and e[1] == "*":
        n1, d1 = split_factors(e[2])
        n2, d2 = split_factors(e[3])
        return n1 + n2, d1 + d2
    if e[0] == "bin" and e[1] == "/":
        n1, d1 = split_factors(e[2])
        n2, d2 = split_factors(e[3])
        return n1 + d2, d1 + n2
    return [e], []
