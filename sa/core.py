"""Plumbing shared by all checks: source tree with overlays, obligations,
reports, known findings, evidence files."""
from __future__ import annotations

import ast
import fnmatch
import json
import os
import re
import sys
import time
from dataclasses import dataclass, field, asdict

REPO = os.environ.get("NAUNET_REPO", "/repo")
VERIF = os.path.dirname(os.path.dirname(os.path.abspath(__file__)))
WHEELS = "/opt/veriftools/wheels"

OK, VIOLATION, UNRECOGNISED, MISSING = "DISCHARGED", "VIOLATION", "UNRECOGNISED", "MISSING"


def use_wheel(prefix: str) -> None:
    """zip-import a pure wheel from the offline wheelhouse (nothing is installed)."""
    if not os.path.isdir(WHEELS):
        return
    for fn in sorted(os.listdir(WHEELS)):
        if fn.startswith(prefix) and fn.endswith(".whl"):
            p = os.path.join(WHEELS, fn)
            if p not in sys.path:
                sys.path.append(p)
            return


class AnalysisError(Exception):
    """The tree could not be analysed (anchor vanished / shape not understood).
    Never a verdict on the property: exit 2."""

    def __init__(self, msg: str, where: tuple | None = None, kind: str = UNRECOGNISED):
        super().__init__(msg)
        self.where = where
        self.kind = kind


def norm_text(s: str) -> str:
    """Whitespace-free normal form of a statement, used in finding keys."""
    return re.sub(r"\s+", "", s)


class _Canon(ast.NodeTransformer):
    """Canonical spelling of a few equivalent constructs, applied to every parsed module so that no rule depends on which
    spelling the source uses:  `not (a == b)` -> `a != b` (and in / is),  `x in d.keys()` -> `x in d`,  constants / enum members
    on the right of == and !=,  `if not c: B else: A` -> `if c: A else: B`,  `b if not c else a` -> `a if c else b`."""

    NEG = {ast.Eq: ast.NotEq, ast.NotEq: ast.Eq, ast.In: ast.NotIn, ast.NotIn: ast.In, ast.Is: ast.IsNot, ast.IsNot: ast.Is}

    @staticmethod
    def _rank(e):
        if isinstance(e, ast.Constant):
            return 3
        if isinstance(e, ast.UnaryOp) and isinstance(e.operand, ast.Constant):
            return 3
        if isinstance(e, (ast.List, ast.Tuple, ast.Set)) and all(isinstance(x, ast.Constant) for x in e.elts):
            return 3
        if isinstance(e, ast.Attribute):
            b = e
            while isinstance(b, ast.Attribute):
                b = b.value
            if isinstance(b, ast.Name) and (b.id[:1].isupper() or e.attr.isupper()):
                return 2            # ReactionType.X, self.ReactionType.X, VariableType.param
            if isinstance(b, ast.Name) and b.id in ("self", "cls") and any(part[:1].isupper() for part in ast.unparse(e).split(".")[1:-1]):
                return 2
        return 0

    # ---- emptiness tests in a boolean position: len(x) > 0 / != 0 / >= 1 -> x ;  len(x) == 0 / < 1 -> not x
    @staticmethod
    def _truth(e):
        if isinstance(e, ast.Compare) and len(e.ops) == 1 and isinstance(e.left, ast.Call) and isinstance(e.left.func, ast.Name) and e.left.func.id == "len" \
                and len(e.left.args) == 1 and isinstance(e.comparators[0], ast.Constant) and isinstance(e.comparators[0].value, int):
            op, k, x = e.ops[0], e.comparators[0].value, e.left.args[0]
            if (isinstance(op, ast.Gt) and k == 0) or (isinstance(op, ast.NotEq) and k == 0) or (isinstance(op, ast.GtE) and k == 1):
                return x
            if (isinstance(op, ast.Eq) and k == 0) or (isinstance(op, ast.Lt) and k == 1) or (isinstance(op, ast.LtE) and k == 0):
                return ast.copy_location(ast.UnaryOp(op=ast.Not(), operand=x), e)
        return e

    def visit_BoolOp(self, n):
        self.generic_visit(n)
        n.values = [self._truth(v) for v in n.values]
        return n

    def _itertools(self, f):
        """name of the itertools function the callee expression `f` denotes under this module's imports (`itertools.count`,
        `it.count` after `import itertools as it`, `count` / `c` after `from itertools import count [as c]`), else None"""
        mods = getattr(self, "_it_mods", {"itertools"})
        if isinstance(f, ast.Attribute) and isinstance(f.value, ast.Name) and f.value.id in mods:
            return f.attr
        if isinstance(f, ast.Name):
            return getattr(self, "_it_names", {}).get(f.id)
        return None

    # ---- dict(zip(K, V)) with K a view of the keys and V a view of the values of ONE mapping d (d.keys() / d itself, d.values(), each
    # possibly under map(f, ..) / list(..) / tuple(..))  ->  {f(k): g(v) for k, v in d.items()}: the same pairs in the same order
    @staticmethod
    def _dict_view(e):
        fs = []
        while True:
            if isinstance(e, ast.Call) and isinstance(e.func, ast.Name) and not e.keywords and not any(isinstance(a, ast.Starred) for a in e.args):
                if e.func.id in ("list", "tuple", "iter") and len(e.args) == 1:
                    e = e.args[0]
                    continue
                if e.func.id == "map" and len(e.args) == 2 and isinstance(e.args[0], (ast.Name, ast.Attribute)):
                    fs.append(e.args[0])
                    e = e.args[1]
                    continue
            # (f(x) for x in X) / [f(x) for x in X] / (x for x in X): what map(f, X) has been rewritten to by visit_Call below
            if isinstance(e, (ast.GeneratorExp, ast.ListComp)) and len(e.generators) == 1 and not e.generators[0].ifs and isinstance(e.generators[0].target, ast.Name):
                t = e.generators[0].target.id
                if isinstance(e.elt, ast.Name) and e.elt.id == t:
                    e = e.generators[0].iter
                    continue
                if isinstance(e.elt, ast.Call) and not e.elt.keywords and len(e.elt.args) == 1 and isinstance(e.elt.args[0], ast.Name) and e.elt.args[0].id == t \
                        and isinstance(e.elt.func, (ast.Name, ast.Attribute)) and t not in {x.id for x in ast.walk(e.elt.func) if isinstance(x, ast.Name)}:
                    fs.append(e.elt.func)
                    e = e.generators[0].iter
                    continue
            break
        if isinstance(e, ast.Call) and isinstance(e.func, ast.Attribute) and e.func.attr in ("keys", "values") and not e.args and not e.keywords:
            return e.func.value, e.func.attr, fs
        return None

    def _dict_zip(self, n):
        if not (isinstance(n.func, ast.Name) and n.func.id == "dict" and len(n.args) == 1 and not n.keywords and isinstance(n.args[0], ast.Call)
                and isinstance(n.args[0].func, ast.Name) and n.args[0].func.id == "zip" and len(n.args[0].args) == 2 and not n.args[0].keywords):
            return None
        k, v = (self._dict_view(a) for a in n.args[0].args)
        if k is None or v is None or k[1] != "keys" or v[1] != "values" or ast.dump(k[0]) != ast.dump(v[0]):
            return None
        d = k[0]
        b = d
        while isinstance(b, ast.Attribute):
            b = b.value
        if not isinstance(b, ast.Name):
            return None
        import copy as _c

        def wrap(name, fs):
            e = ast.Name(id=name, ctx=ast.Load())
            for f in reversed(fs):
                e = ast.Call(func=_c.deepcopy(f), args=[e], keywords=[])
            return e
        tg = ast.Tuple(elts=[ast.Name(id="_zk", ctx=ast.Store()), ast.Name(id="_zv", ctx=ast.Store())], ctx=ast.Store())
        items = ast.Call(func=ast.Attribute(value=d, attr="items", ctx=ast.Load()), args=[], keywords=[])
        comp = ast.DictComp(key=wrap("_zk", k[2]), value=wrap("_zv", v[2]), generators=[ast.comprehension(target=tg, iter=items, ifs=[], is_async=0)])
        return ast.fix_missing_locations(ast.copy_location(comp, n))

    # ---- position counters: zip(itertools.count([k]), X) / zip(range(len(X)), X)  ->  enumerate(X[, k])
    # ---- map(f, X) -> (f(x) for x in X);  list(map(f, X)) -> [f(x) for x in X]   (f a name / attribute / one-parameter lambda)
    _fresh = [0]

    def visit_Call(self, n):
        self.generic_visit(n)
        dz = self._dict_zip(n)
        if dz is not None:
            return dz
        # dict((k, v) for .. in ..) / dict([(k, v) for ..])  ->  {k: v for .. in ..}
        if isinstance(n.func, ast.Name) and n.func.id == "dict" and len(n.args) == 1 and not n.keywords and isinstance(n.args[0], (ast.GeneratorExp, ast.ListComp)) \
                and isinstance(n.args[0].elt, (ast.Tuple, ast.List)) and len(n.args[0].elt.elts) == 2 and not any(isinstance(e, ast.Starred) for e in n.args[0].elt.elts):
            g = n.args[0]
            return ast.fix_missing_locations(ast.copy_location(ast.DictComp(key=g.elt.elts[0], value=g.elt.elts[1], generators=g.generators), n))
        inner = n.args[0] if isinstance(n.func, ast.Name) and n.func.id in ("list", "tuple") and len(n.args) == 1 and not n.keywords else n
        if isinstance(inner, ast.Call) and isinstance(inner.func, ast.Name) and inner.func.id == "map" and len(inner.args) == 2 and not inner.keywords \
                and not any(isinstance(a, ast.Starred) for a in inner.args) and (inner is n or n.func.id == "list"):
            f, x = inner.args
            lam = isinstance(f, ast.Lambda) and len(f.args.args) == 1 and not (f.args.posonlyargs or f.args.kwonlyargs or f.args.vararg or f.args.kwarg or f.args.defaults) \
                and not any(isinstance(y, (ast.Lambda, ast.ListComp, ast.SetComp, ast.DictComp, ast.GeneratorExp)) for y in ast.walk(f.body))
            if lam or (isinstance(f, (ast.Name, ast.Attribute)) and all(isinstance(y, (ast.Name, ast.Attribute, ast.expr_context)) for y in ast.walk(f))):
                self._fresh[0] += 1
                var = f"_m{self._fresh[0]}"
                if lam:
                    elt = self._subst_names(f.body, {f.args.args[0].arg: ast.Name(id=var, ctx=ast.Load())})
                else:
                    elt = ast.Call(func=f, args=[ast.Name(id=var, ctx=ast.Load())], keywords=[])
                gen = ast.comprehension(target=ast.Name(id=var, ctx=ast.Store()), iter=x, ifs=[], is_async=0)
                new = (ast.ListComp if inner is not n else ast.GeneratorExp)(elt=elt, generators=[gen])
                return ast.fix_missing_locations(ast.copy_location(new, n))
        if isinstance(n.func, ast.Name) and n.func.id == "zip" and len(n.args) == 2 and not n.keywords and not any(isinstance(a, ast.Starred) for a in n.args):
            c, x = n.args
            new = None
            if isinstance(c, ast.Call) and not c.keywords and self._itertools(c.func) == "count" and len(c.args) <= 1:
                new = [x] + list(c.args)
            elif isinstance(c, ast.Call) and not c.keywords and isinstance(c.func, ast.Name) and c.func.id == "range" and len(c.args) == 1 \
                    and isinstance(c.args[0], ast.Call) and isinstance(c.args[0].func, ast.Name) and c.args[0].func.id == "len" and len(c.args[0].args) == 1 \
                    and ast.dump(c.args[0].args[0]) == ast.dump(x) and isinstance(x, (ast.Name, ast.Attribute)):
                new = [x]
            if new is not None:
                return ast.copy_location(ast.Call(func=ast.copy_location(ast.Name(id="enumerate", ctx=ast.Load()), n.func), args=new, keywords=[]), n)
        return n

    def visit_While(self, n):
        self.generic_visit(n)
        n.test = self._truth(n.test)
        return n

    # ---- itertools.product(A, B, ..) in a `for` statement is the loop nest it abbreviates:
    #      for a, b in product(A, B): S   ->   for a in A: for b in B: S
    # (same pairs in the same order; applied when the operands are plain names / attribute chains that the body does not re-bind or
    # mutate, so evaluating B once per row is the same, and when no `break` / `else` belongs to the loop -- `continue` keeps its
    # meaning: on to the next tuple)
    @staticmethod
    def _own_break(stmts):
        def rec(node):
            for ch in ast.iter_child_nodes(node):
                if isinstance(ch, ast.Break):
                    return True
                if isinstance(ch, (ast.For, ast.While, ast.FunctionDef, ast.AsyncFunctionDef, ast.Lambda, ast.ClassDef)):
                    if any(isinstance(x, ast.Break) for s_ in getattr(ch, "orelse", []) for x in ast.walk(s_)):
                        return True
                    continue
                if rec(ch):
                    return True
            return False
        return any(isinstance(s_, ast.Break) or rec(s_) for s_ in stmts)

    # ---- the counter on the right: `for x, i in zip(X, itertools.count([k]))` is `for i, x in enumerate(X[, k])` (same pairs, the two
    # targets swapped); in `for` statements and comprehension clauses with a two-element target
    def _counter_second(self, target, it):
        if isinstance(it, ast.Call) and isinstance(it.func, ast.Name) and it.func.id == "zip" and len(it.args) == 2 and not it.keywords \
                and not any(isinstance(a, ast.Starred) for a in it.args) and isinstance(target, (ast.Tuple, ast.List)) and len(target.elts) == 2 \
                and not any(isinstance(e, ast.Starred) for e in target.elts):
            x, c = it.args
            if isinstance(c, ast.Call) and not c.keywords and self._itertools(c.func) == "count" and len(c.args) <= 1 \
                    and not (isinstance(x, ast.Call) and self._itertools(x.func) == "count"):
                new_it = ast.copy_location(ast.Call(func=ast.copy_location(ast.Name(id="enumerate", ctx=ast.Load()), it.func), args=[x] + list(c.args), keywords=[]), it)
                new_tg = ast.copy_location(type(target)(elts=[target.elts[1], target.elts[0]], ctx=target.ctx), target)
                return new_tg, new_it
        return None

    def visit_For(self, n):
        n = self.generic_visit(n)
        sw = self._counter_second(n.target, n.iter)
        if sw is not None:
            n.target, n.iter = sw
            ast.fix_missing_locations(n)
        it = n.iter
        # product(A, repeat=k) with a literal k is product(A, A, .. k times)
        if isinstance(it, ast.Call) and self._itertools(it.func) == "product" and len(it.args) == 1 and len(it.keywords) == 1 and it.keywords[0].arg == "repeat" \
                and isinstance(it.keywords[0].value, ast.Constant) and type(it.keywords[0].value.value) is int and 2 <= it.keywords[0].value.value <= 4 \
                and not isinstance(it.args[0], ast.Starred):
            import copy as _c
            it = ast.copy_location(ast.Call(func=it.func, args=[_c.deepcopy(it.args[0]) for _ in range(it.keywords[0].value.value)], keywords=[]), it)
        if isinstance(it, ast.Call) and self._itertools(it.func) == "product" and len(it.args) >= 2 and not it.keywords and not n.orelse \
                and isinstance(n.target, (ast.Tuple, ast.List)) and len(n.target.elts) == len(it.args) \
                and not any(isinstance(a, ast.Starred) for a in it.args) and not any(isinstance(e, ast.Starred) for e in n.target.elts):
            from .normalize import _pure, _stored
            stored = _stored(n.body) | {x.id for x in ast.walk(n.target) if isinstance(x, ast.Name)}
            ok = all(_pure(a) and isinstance(a, (ast.Name, ast.Attribute)) and not ({x.id for x in ast.walk(a) if isinstance(x, ast.Name)} & stored) for a in it.args)
            if ok and not self._own_break(n.body):
                body = n.body
                for tg, a in reversed(list(zip(n.target.elts, it.args))):
                    loop = ast.For(target=tg, iter=a, body=body, orelse=[], type_comment=None)
                    ast.copy_location(loop, n)
                    body = [loop]
                return ast.fix_missing_locations(body[0])
        return n

    # ---- class-level constants: `NAME = <number | string>` in a class body, NAME in capitals (the convention for a value that is
    # never overridden), never stored through an attribute anywhere in the module: `self.NAME` / `cls.NAME` / `<Class>.NAME` inside
    # the methods of that class is that literal
    def visit_ClassDef(self, n):
        consts = {}
        if not any("Enum" in ast.unparse(b) or "Flag" in ast.unparse(b) for b in n.bases):
            for st in n.body:
                if isinstance(st, ast.Assign) and len(st.targets) == 1 and isinstance(st.targets[0], ast.Name):
                    nm, v = st.targets[0].id, st.value
                elif isinstance(st, ast.AnnAssign) and isinstance(st.target, ast.Name) and st.value is not None:
                    nm, v = st.target.id, st.value
                else:
                    continue
                lit = v.operand if isinstance(v, ast.UnaryOp) and isinstance(v.op, (ast.USub, ast.UAdd)) else v
                if nm.isupper() and isinstance(lit, ast.Constant) and isinstance(lit.value, (int, float, str)) and not isinstance(lit.value, bool) \
                        and (lit is v or isinstance(lit.value, (int, float))):
                    consts[nm] = None if nm in consts else v          # bound twice in the class body: not a constant
            consts = {k: v for k, v in consts.items() if v is not None and k not in getattr(self, "_attr_stores", set())} if not getattr(self, "_attr_dyn", False) else {}
        if consts:
            import copy as _c
            cname = n.name

            class R(ast.NodeTransformer):
                def visit_Attribute(self, a):
                    self.generic_visit(a)
                    if isinstance(a.ctx, ast.Load) and a.attr in consts and isinstance(a.value, ast.Name) and a.value.id in ("self", "cls", cname):
                        return ast.copy_location(_c.deepcopy(consts[a.attr]), a)
                    return a

                def visit_ClassDef(self, c):
                    return c            # a nested class has a `self` of its own
            for st in n.body:
                if isinstance(st, (ast.FunctionDef, ast.AsyncFunctionDef)):
                    R().visit(st)
            ast.fix_missing_locations(n)
        return self.generic_visit(n)

    def visit_comprehension(self, n):
        self.generic_visit(n)
        n.ifs = [self._truth(c) for c in n.ifs]
        sw = self._counter_second(n.target, n.iter)
        if sw is not None:
            n.target, n.iter = sw
            ast.fix_missing_locations(n)
        return n

    def visit_UnaryOp(self, n):
        self.generic_visit(n)
        if isinstance(n.op, ast.Not):
            n.operand = self._truth(n.operand)
            if isinstance(n.operand, ast.UnaryOp) and isinstance(n.operand.op, ast.Not):
                pass
        if isinstance(n.op, ast.Not) and isinstance(n.operand, ast.Compare) and len(n.operand.ops) == 1 and type(n.operand.ops[0]) in self.NEG:
            c = n.operand
            c.ops = [self.NEG[type(c.ops[0])]()]
            return c
        # not any(P(x) for x in s)  ->  all(not P(x) for x in s);   not all(..)  ->  any(not ..)
        if isinstance(n.op, ast.Not) and isinstance(n.operand, ast.Call) and isinstance(n.operand.func, ast.Name) and n.operand.func.id in ("any", "all") \
                and len(n.operand.args) == 1 and not n.operand.keywords and isinstance(n.operand.args[0], (ast.GeneratorExp, ast.ListComp)):
            c = n.operand
            comp = c.args[0]
            neg = self.visit(ast.UnaryOp(op=ast.Not(), operand=comp.elt))
            comp.elt = ast.copy_location(neg, comp.elt) if hasattr(comp.elt, "lineno") else neg
            ast.fix_missing_locations(comp)
            c.func = ast.copy_location(ast.Name(id="all" if c.func.id == "any" else "any", ctx=ast.Load()), c.func)
            return c
        return n

    def visit_Compare(self, n):
        self.generic_visit(n)
        if len(n.ops) == 1:
            r = n.comparators[0]
            if isinstance(n.ops[0], (ast.In, ast.NotIn)) and isinstance(r, ast.Call) and isinstance(r.func, ast.Attribute) and r.func.attr == "keys" and not r.args and not r.keywords:
                n.comparators = [r.func.value]
            if isinstance(n.ops[0], (ast.Eq, ast.NotEq)) and self._rank(n.left) > self._rank(r):
                n.left, n.comparators = r, [n.left]
        return n

    def visit_If(self, n):
        self.generic_visit(n)
        n.test = self._truth(n.test)
        plain_else = n.orelse and not (len(n.orelse) == 1 and isinstance(n.orelse[0], ast.If))
        if plain_else and isinstance(n.test, ast.UnaryOp) and isinstance(n.test.op, ast.Not):
            n.test = n.test.operand
            n.body, n.orelse = n.orelse, n.body
        elif plain_else and isinstance(n.test, ast.Compare) and len(n.test.ops) == 1 and isinstance(n.test.ops[0], (ast.NotEq, ast.NotIn, ast.IsNot)):
            n.test.ops = [self.NEG[type(n.test.ops[0])]()]
            n.body, n.orelse = n.orelse, n.body
        return n

    # ---- accumulation loops as comprehensions -----------------------------------------------------------------------------
    #   X = []            X = []                      X = []                         D = {}
    #   for T in IT:      for T in IT:                if C:                          for T in IT:
    #       [t = e]           if C: X.append(A)           for ..: X.append(A)            D[K] = V
    #       [if C:]           else: X.append(B)       else:
    #           X.append(E)                               for ..: X.append(B)
    @staticmethod
    def _subst_names(node, m):
        import copy as _c

        class R(ast.NodeTransformer):
            def visit_Name(self, n):
                if isinstance(n.ctx, ast.Load) and n.id in m:
                    return _c.deepcopy(m[n.id])
                return n
        return R().visit(_c.deepcopy(node))

    @classmethod
    def _loop_comp(cls, x, kind, loop):
        """comprehension equal to what `loop` accumulates into the fresh container x, or None"""
        if not isinstance(loop, ast.For) or loop.orelse or not loop.body:
            return None
        body = list(loop.body)
        temps = {}
        # (loops that first compute temporaries are left alone: the rules for those sites read the loop form)
        while False and len(body) > 1 and isinstance(body[0], ast.Assign) and len(body[0].targets) == 1 and isinstance(body[0].targets[0], ast.Name):
            t = body[0].targets[0].id
            val = cls._subst_names(body[0].value, temps)
            if t == x or any(isinstance(n, (ast.Call,)) and isinstance(n.func, ast.Attribute) and n.func.attr in ("append", "remove", "pop", "extend", "update", "add") for n in ast.walk(val)):
                return None
            later = ast.Module(body=body[1:], type_ignores=[])
            if any(isinstance(n, ast.Name) and n.id == t and isinstance(n.ctx, ast.Store) for n in ast.walk(later)):
                return None
            if any(isinstance(n, ast.Call) and isinstance(n.func, ast.Attribute) and isinstance(n.func.value, ast.Name) and n.func.value.id == t
                   and n.func.attr in ("append", "remove", "pop", "extend", "update", "add", "insert", "sort", "clear") for n in ast.walk(later)):
                return None        # the temp is mutated afterwards: not a pure value
            temps[t] = val
            body = body[1:]
        # guard clauses in front of the one accumulating statement: `if c: continue` + REST is `if not c: REST`
        pre = []
        while len(body) > 1 and isinstance(body[0], ast.If) and not body[0].orelse and len(body[0].body) == 1 and isinstance(body[0].body[0], ast.Continue):
            t = body[0].test
            if isinstance(t, ast.Compare) and len(t.ops) == 1 and type(t.ops[0]) in cls.NEG:
                t = ast.copy_location(ast.Compare(left=t.left, ops=[cls.NEG[type(t.ops[0])]()], comparators=list(t.comparators)), t)
            elif isinstance(t, ast.UnaryOp) and isinstance(t.op, ast.Not):
                t = t.operand
            else:
                t = ast.copy_location(ast.UnaryOp(op=ast.Not(), operand=t), t)
            pre.append(t)
            body = body[1:]
        if len(body) != 1:
            return None
        conds = list(pre)
        st = body[0]

        def acc_value(s_):
            """expression accumulated by statement s_ into x (append/add arg, or (key, value) for a dict store)"""
            if kind in ("list", "set") and isinstance(s_, ast.Expr) and isinstance(s_.value, ast.Call) and isinstance(s_.value.func, ast.Attribute) \
                    and isinstance(s_.value.func.value, ast.Name) and s_.value.func.value.id == x \
                    and s_.value.func.attr == ("append" if kind == "list" else "add") and len(s_.value.args) == 1 and not s_.value.keywords:
                return s_.value.args[0]
            if kind == "dict" and isinstance(s_, ast.Assign) and len(s_.targets) == 1 and isinstance(s_.targets[0], ast.Subscript) \
                    and isinstance(s_.targets[0].value, ast.Name) and s_.targets[0].value.id == x:
                return (s_.targets[0].slice, s_.value)
            return None
        while isinstance(st, ast.If) and not st.orelse and len(st.body) == 1:
            conds.append(st.test)
            st = st.body[0]
        elt = acc_value(st)
        if elt is None and isinstance(st, ast.If) and len(st.body) == 1 and len(st.orelse) == 1 and kind != "dict":
            a, b = acc_value(st.body[0]), acc_value(st.orelse[0])
            if a is not None and b is not None:
                elt = ast.IfExp(test=st.test, body=a, orelse=b)
        if elt is None:
            return None
        parts = [loop.iter] + conds + (list(elt) if isinstance(elt, tuple) else [elt])
        if any(isinstance(n, ast.Name) and n.id == x for p_ in parts for n in ast.walk(p_)):
            return None
        gen = ast.comprehension(target=loop.target, iter=loop.iter, ifs=[cls._subst_names(c, temps) for c in conds], is_async=0)
        if kind == "dict":
            comp = ast.DictComp(key=cls._subst_names(elt[0], temps), value=cls._subst_names(elt[1], temps), generators=[gen])
        else:
            comp = (ast.ListComp if kind == "list" else ast.SetComp)(elt=cls._subst_names(elt, temps), generators=[gen])
        return comp

    @classmethod
    def _append_loop(cls, init, nxt):
        if not (isinstance(init, ast.Assign) and len(init.targets) == 1 and isinstance(init.targets[0], ast.Name)):
            return None
        x = init.targets[0].id
        v = init.value
        src = ast.unparse(v)
        kind = "list" if src in ("[]", "list()") else "set" if src == "set()" else "dict" if src in ("{}", "dict()", "OrderedDict()") else None
        if kind is None:
            return None
        empty = v
        if isinstance(nxt, ast.For):
            comp = cls._loop_comp(x, kind, nxt)
        elif isinstance(nxt, ast.If) and len(nxt.body) == 1 and len(nxt.orelse) <= 1 and not any(isinstance(n, ast.Name) and n.id == x for n in ast.walk(nxt.test)):
            a = cls._loop_comp(x, kind, nxt.body[0])
            b = cls._loop_comp(x, kind, nxt.orelse[0]) if nxt.orelse else empty
            comp = ast.IfExp(test=nxt.test, body=a, orelse=b) if a is not None and b is not None else None
        else:
            comp = None
        if comp is None:
            return None
        new = ast.Assign(targets=[ast.Name(id=x, ctx=ast.Store())], value=comp)
        return ast.fix_missing_locations(ast.copy_location(new, init))

    # ---- `T.update({"k1": v1, "k2": v2})` / `T.update(k1=v1)` written as a statement, keys literal: the item stores `T["k1"] = v1;
    # T["k2"] = v2` it performs, in that order (T a name / attribute / constant-subscript chain, so naming it once per store is the same)
    @staticmethod
    def _update_stores(st):
        if not (isinstance(st, ast.Expr) and isinstance(st.value, ast.Call) and isinstance(st.value.func, ast.Attribute) and st.value.func.attr == "update"):
            return None
        c, T = st.value, st.value.func.value
        b = T
        while isinstance(b, (ast.Attribute, ast.Subscript)):
            if isinstance(b, ast.Subscript) and not isinstance(b.slice, ast.Constant):
                return None
            b = b.value
        if not isinstance(b, ast.Name):
            return None
        pairs = []
        if len(c.args) == 1 and isinstance(c.args[0], ast.Dict) and c.args[0].keys and all(isinstance(k, ast.Constant) and isinstance(k.value, str) for k in c.args[0].keys):
            pairs += [(k, v) for k, v in zip(c.args[0].keys, c.args[0].values)]
        elif c.args:
            return None
        if any(k.arg is None for k in c.keywords):
            return None
        pairs += [(ast.Constant(value=k.arg), k.value) for k in c.keywords]
        if not pairs:
            return None
        import copy as _c
        out = []
        for k, v in pairs:
            a = ast.Assign(targets=[ast.Subscript(value=_c.deepcopy(T), slice=k, ctx=ast.Store())], value=v)
            for x in ast.walk(a.targets[0].value):
                if hasattr(x, "ctx"):
                    x.ctx = ast.Load()
            ast.copy_location(a, v if hasattr(v, "lineno") else st)
            out.append(ast.fix_missing_locations(a))
        return out

    @staticmethod
    def _setattr_store(st):
        """`setattr(x, "name", v)` written as a statement (literal identifier) is the attribute store `x.name = v`"""
        if isinstance(st, ast.Expr) and isinstance(st.value, ast.Call) and isinstance(st.value.func, ast.Name) and st.value.func.id == "setattr" and len(st.value.args) == 3 \
                and not st.value.keywords and isinstance(st.value.args[1], ast.Constant) and isinstance(st.value.args[1].value, str) and st.value.args[1].value.isidentifier() \
                and not any(isinstance(a, ast.Starred) for a in st.value.args):
            c = st.value
            a = ast.Assign(targets=[ast.Attribute(value=c.args[0], attr=c.args[1].value, ctx=ast.Store())], value=c.args[2])
            return [ast.fix_missing_locations(ast.copy_location(a, st))]
        return None

    def _fold_loops(self, body):
        body = [y for x in body for y in (self._update_stores(x) or self._setattr_store(x) or [x])]
        out = []
        i = 0
        while i < len(body):
            if i + 1 < len(body):
                m = self._append_loop(body[i], body[i + 1])
                if m is not None:
                    m.lineno = body[i + 1].lineno
                    out.append(m)
                    i += 2
                    continue
            out.append(body[i])
            i += 1
        return out

    def generic_visit(self, node):
        node = super().generic_visit(node)
        for fld in ("body", "orelse", "finalbody"):
            b = getattr(node, fld, None)
            if isinstance(b, list) and b and isinstance(b[0], ast.stmt):
                setattr(node, fld, self._fold_loops(b))
        return node

    @staticmethod
    def _records(mod):
        out, seen = {}, {}
        for st in mod.body:
            for x in ast.walk(st) if not isinstance(st, (ast.FunctionDef, ast.AsyncFunctionDef, ast.ClassDef)) else []:
                if isinstance(x, ast.Name) and isinstance(x.ctx, (ast.Store, ast.Del)):
                    seen[x.id] = seen.get(x.id, 0) + 1
            if isinstance(st, (ast.FunctionDef, ast.AsyncFunctionDef, ast.ClassDef)):
                seen[st.name] = seen.get(st.name, 0) + 1
            if isinstance(st, ast.ClassDef) and any(ast.unparse(b).split(".")[-1] == "NamedTuple" for b in st.bases) and not st.decorator_list:
                if not any(isinstance(x, ast.FunctionDef) and x.name in ("__new__", "__getattr__", "__getattribute__") for x in st.body):
                    out[st.name] = tuple(x.target.id for x in st.body if isinstance(x, ast.AnnAssign) and isinstance(x.target, ast.Name))
            elif isinstance(st, ast.Assign) and len(st.targets) == 1 and isinstance(st.targets[0], ast.Name) and isinstance(st.value, ast.Call) \
                    and ast.unparse(st.value.func).split(".")[-1] == "namedtuple" and len(st.value.args) == 2 and not st.value.keywords:
                f = st.value.args[1]
                try:
                    fv = ast.literal_eval(f)
                except Exception:
                    continue
                if isinstance(fv, str):
                    fv = fv.replace(",", " ").split()
                if isinstance(fv, (list, tuple)) and fv and all(isinstance(x, str) and x.isidentifier() for x in fv):
                    out[st.targets[0].id] = tuple(fv)
        return {k: v for k, v in out.items() if seen.get(k, 0) == 1 and v}

    @staticmethod
    def _dataclass_records(mod, taken):
        """{class name: (field, ..)} of the module-level `@dataclass` classes that are plain value records: annotated fields only (no
        `field(..)` defaults with factories), no hand-written __init__ / __post_init__ / __new__ / __setattr__ / __getattr__, not
        subclassing anything, and frozen or with no attribute of a field's name stored anywhere in the module"""
        out = {}
        stored = {x.attr for x in ast.walk(mod) if isinstance(x, ast.Attribute) and isinstance(x.ctx, (ast.Store, ast.Del))}
        dyn = any(isinstance(x, ast.Call) and isinstance(x.func, ast.Name) and x.func.id in ("setattr", "delattr") for x in ast.walk(mod))
        count = {}
        for st in mod.body:
            if isinstance(st, (ast.ClassDef, ast.FunctionDef)):
                count[st.name] = count.get(st.name, 0) + 1
        for st in mod.body:
            if not isinstance(st, ast.ClassDef) or st.bases or st.keywords or count.get(st.name) != 1 or st.name in taken or len(st.decorator_list) != 1:
                continue
            d = st.decorator_list[0]
            dn = ast.unparse(d.func if isinstance(d, ast.Call) else d)
            if dn not in ("dataclass", "dataclasses.dataclass"):
                continue
            frozen = isinstance(d, ast.Call) and any(k.arg == "frozen" and isinstance(k.value, ast.Constant) and k.value.value is True for k in d.keywords)
            if isinstance(d, ast.Call) and (d.args or any(k.arg not in ("frozen", "eq", "order", "repr", "slots") for k in d.keywords)):
                continue
            fields, plain = [], True
            for b in st.body:
                if isinstance(b, ast.AnnAssign) and isinstance(b.target, ast.Name):
                    fields.append(b.target.id)
                    if b.value is not None and not isinstance(b.value, ast.Constant):
                        plain = False
                elif isinstance(b, ast.FunctionDef) and b.name in ("__init__", "__post_init__", "__new__", "__setattr__", "__getattr__", "__getattribute__"):
                    plain = False
                elif isinstance(b, ast.Assign):
                    plain = False
            if fields and plain and (frozen or (not dyn and not (set(fields) & stored))):
                out[st.name] = tuple(fields)
        return out

    def visit_Module(self, n):
        # module-level tables `_NAME = (<literals>)` bound once and never mutated: a loop `for a, b in _NAME` inside a function
        # of the module is as static as one over a local literal (normalize.unroll_static_loops)
        from .normalize import module_tables, namedtuple_rows
        n = namedtuple_rows(n)          # rows of namedtuple types are tuple displays (a table of them is a literal table)
        self._module_tables = module_tables(n)
        # record types of the module (typing.NamedTuple classes, collections.namedtuple(..) bindings): name -> field names, attached to
        # every function of the module so that value reconstruction (valueflow.Flow) can project `R(a, b).field` to the argument
        recs = self._records(n)
        # ... and frozen / never re-assigned dataclasses of the module (fields in declaration order, generated __init__ only); the plain
        # methods of a record class are attached too, so that `R(a, b).method(x)` can be read as the method's value for that record
        recs.update(self._dataclass_records(n, recs))
        rec_methods = {}
        for st in n.body:
            if isinstance(st, ast.ClassDef) and st.name in recs:
                ms = {m.name: m for m in st.body if isinstance(m, ast.FunctionDef) and not m.decorator_list and not (m.name.startswith("__") and m.name.endswith("__"))}
                if ms:
                    rec_methods[st.name] = ms
        for x in ast.walk(n):
            if isinstance(x, (ast.FunctionDef, ast.AsyncFunctionDef)):
                x._sa_records = recs
                x._sa_record_methods = rec_methods
        # how this module spells the itertools functions (used by _itertools)
        self._it_mods, self._it_names = {"itertools"}, {}
        bound = {}
        for x in ast.walk(n):
            if isinstance(x, ast.Import):
                for a in x.names:
                    if a.name == "itertools" and a.asname:
                        self._it_mods.add(a.asname)
            elif isinstance(x, ast.ImportFrom) and x.module == "itertools" and not x.level:
                for a in x.names:
                    self._it_names[a.asname or a.name] = a.name
            elif isinstance(x, ast.Name) and isinstance(x.ctx, (ast.Store, ast.Del)):
                bound[x.id] = True
            elif isinstance(x, ast.arg):
                bound[x.arg] = True
        # a name that is also bound otherwise somewhere in the module is not trusted to mean the import
        self._attr_stores = {x.attr for x in ast.walk(n) if isinstance(x, ast.Attribute) and isinstance(x.ctx, (ast.Store, ast.Del))} | \
            {x.args[1].value for x in ast.walk(n) if isinstance(x, ast.Call) and isinstance(x.func, ast.Name) and x.func.id in ("setattr", "delattr") and len(x.args) >= 2
             and isinstance(x.args[1], ast.Constant) and isinstance(x.args[1].value, str)}
        self._attr_dyn = any(isinstance(x, ast.Call) and isinstance(x.func, ast.Name) and x.func.id in ("setattr", "delattr")
                             and not (len(x.args) >= 2 and isinstance(x.args[1], ast.Constant)) for x in ast.walk(n))
        self._it_names = {k: v for k, v in self._it_names.items() if k not in bound}
        self._it_mods = {k for k in self._it_mods if k not in bound}
        self._module = n
        self._classes = []
        return self.generic_visit(n)

    def visit_ClassDef(self, n):
        # class-level tables `_NAME = (<literals>)` bound once and never re-bound / mutated through an attribute anywhere in the
        # module: a loop `for a, b in self._NAME` inside a method of the class is static too
        from .normalize import class_tables
        stack = self.__dict__.setdefault("_classes", [])
        stack.append((n.name, class_tables(n, getattr(self, "_module", None)), 0))
        try:
            return self.generic_visit(n)
        finally:
            stack.pop()

    def visit_FunctionDef(self, n):
        stack = self.__dict__.setdefault("_classes", [])
        # only the functions directly in a class body are its methods (a def nested in a method has its own parameters)
        if stack:
            stack[-1] = (stack[-1][0], stack[-1][1], stack[-1][2] + 1)
        try:
            n = self.generic_visit(n)
        finally:
            if stack:
                stack[-1] = (stack[-1][0], stack[-1][1], stack[-1][2] - 1)
        # annotated locals: inside a function `x: T = v` is the assignment `x = v` (the annotation of a local is never evaluated) and
        # a bare `x: T` binds nothing.  (Class bodies keep their annotations: they declare dataclass / NamedTuple fields.)
        self._plain_annotated_locals(n)
        from .normalize import normalize_function
        cname, ctables = (stack[-1][0], stack[-1][1]) if stack and stack[-1][2] == 0 else (None, None)
        return normalize_function(n, getattr(self, "_module_tables", None), ctables, cname)

    @staticmethod
    def _plain_annotated_locals(func):
        def block(stmts):
            out = []
            for st in stmts:
                if isinstance(st, (ast.FunctionDef, ast.AsyncFunctionDef, ast.ClassDef)):
                    out.append(st)
                    continue
                for fld in ("body", "orelse", "finalbody"):
                    b = getattr(st, fld, None)
                    if isinstance(b, list) and b and isinstance(b[0], ast.stmt):
                        setattr(st, fld, block(b) or [ast.copy_location(ast.Pass(), st)])
                for h in getattr(st, "handlers", []) or []:
                    h.body = block(h.body) or [ast.copy_location(ast.Pass(), st)]
                for c in getattr(st, "cases", []) or []:
                    c.body = block(c.body) or [ast.copy_location(ast.Pass(), st)]
                if isinstance(st, ast.AnnAssign):
                    if st.value is None:
                        continue
                    tg = st.target
                    tg.ctx = ast.Store()
                    out.append(ast.copy_location(ast.Assign(targets=[tg], value=st.value), st))
                    continue
                out.append(st)
            return out
        func.body = block(func.body) or [ast.copy_location(ast.Pass(), func)]
        ast.fix_missing_locations(func)

    def visit_Assign(self, n):
        # `x = x + 1` / `x = 1 + x` / `x = x - 1` on a plain name with a numeric literal -> `x += 1` / `x -= 1` (numbers are immutable:
        # re-binding and in-place addition are the same thing)
        self.generic_visit(n)
        v = n.value
        if len(n.targets) == 1 and isinstance(n.targets[0], ast.Name) and isinstance(v, ast.BinOp) and isinstance(v.op, (ast.Add, ast.Sub)):
            x = n.targets[0].id
            num = lambda e: isinstance(e, ast.Constant) and type(e.value) in (int, float)
            if isinstance(v.left, ast.Name) and v.left.id == x and num(v.right):
                return ast.copy_location(ast.AugAssign(target=n.targets[0], op=v.op, value=v.right), n)
            if isinstance(v.op, ast.Add) and isinstance(v.right, ast.Name) and v.right.id == x and num(v.left):
                return ast.copy_location(ast.AugAssign(target=n.targets[0], op=v.op, value=v.left), n)
        return n

    @staticmethod
    def _append_call(target, elt, like):
        call = ast.Call(func=ast.Attribute(value=ast.Name(id=target.id, ctx=ast.Load()), attr="append", ctx=ast.Load()), args=[elt], keywords=[])
        return ast.fix_missing_locations(ast.copy_location(ast.Expr(value=call), like))

    def visit_AugAssign(self, n):
        # `xs += [e]` on a plain name -> `xs.append(e)` (in-place growth of a list by one element)
        self.generic_visit(n)
        if isinstance(n.op, ast.Add) and isinstance(n.target, ast.Name) and isinstance(n.value, ast.List) and len(n.value.elts) == 1 \
                and not isinstance(n.value.elts[0], ast.Starred):
            return self._append_call(n.target, n.value.elts[0], n)
        return n

    def visit_Expr(self, n):
        # statement `xs.extend([e])` / `xs.extend((e,))` on a plain name -> `xs.append(e)`
        self.generic_visit(n)
        c = n.value
        if isinstance(c, ast.Call) and isinstance(c.func, ast.Attribute) and c.func.attr == "extend" and isinstance(c.func.value, ast.Name) and len(c.args) == 1 \
                and not c.keywords and isinstance(c.args[0], (ast.List, ast.Tuple)) and len(c.args[0].elts) == 1 and not isinstance(c.args[0].elts[0], ast.Starred):
            return self._append_call(c.func.value, c.args[0].elts[0], n)
        return n

    def visit_IfExp(self, n):
        self.generic_visit(n)
        n.test = self._truth(n.test)
        if isinstance(n.test, ast.UnaryOp) and isinstance(n.test.op, ast.Not):
            n.test = n.test.operand
            n.body, n.orelse = n.orelse, n.body
        elif isinstance(n.test, ast.Compare) and len(n.test.ops) == 1 and isinstance(n.test.ops[0], (ast.NotEq, ast.NotIn, ast.IsNot)):
            n.test.ops = [self.NEG[type(n.test.ops[0])]()]
            n.body, n.orelse = n.orelse, n.body
        return n


_RAW_AST: dict = {}


class SourceTree:
    """Read-only view of the repository working tree, with an in-memory overlay
    (path -> text) used to analyse mutants without touching the disk."""

    def __init__(self, root: str = REPO, overlay: dict | None = None):
        self.root = root
        self.overlay = dict(overlay or {})
        self._text: dict = {}
        self._ast: dict = {}
        self._files: list | None = None

    def with_overlay(self, overlay: dict) -> "SourceTree":
        o = dict(self.overlay)
        o.update(overlay)
        return SourceTree(self.root, o)

    def exists(self, rel: str) -> bool:
        if rel in self.overlay:
            return self.overlay[rel] is not None
        return os.path.isfile(os.path.join(self.root, rel))

    def read(self, rel: str) -> str:
        if rel in self._text:
            return self._text[rel]
        if rel in self.overlay:
            t = self.overlay[rel]
            if t is None:
                raise AnalysisError(f"anchor file vanished: {rel}", (rel, 0), MISSING)
        else:
            p = os.path.join(self.root, rel)
            if not os.path.isfile(p):
                raise AnalysisError(f"anchor file vanished: {rel}", (rel, 0), MISSING)
            with open(p, encoding="utf-8", errors="replace") as f:
                t = f.read()
        self._text[rel] = t
        return t

    def files(self) -> list:
        if self._files is None:
            out = []
            for base in ("naunet",):
                for dp, dn, fn in os.walk(os.path.join(self.root, base)):
                    dn[:] = sorted(d for d in dn if d != "__pycache__")
                    for f in sorted(fn):
                        out.append(os.path.relpath(os.path.join(dp, f), self.root))
            s = set(out)
            for k, v in self.overlay.items():
                if v is None:
                    s.discard(k)
                else:
                    s.add(k)
            self._files = sorted(s)
        return self._files

    def glob(self, pattern: str) -> list:
        return [f for f in self.files() if fnmatch.fnmatch(f, pattern)]

    def pyast(self, rel: str) -> ast.Module:
        if rel not in self._ast:
            try:
                mod = ast.parse(self.read(rel), filename=rel)
                if rel.startswith("naunet/"):
                    # reads of class-level constants are the literals they name (normalize.class_constants), whatever the spelling
                    from .normalize import inline_class_constants
                    mod = inline_class_constants(mod, self.class_constants())
                self._ast[rel] = _Canon().visit(mod)
            except SyntaxError as e:
                raise AnalysisError(f"cannot parse {rel}: {e}", (rel, e.lineno or 0))
        return self._ast[rel]

    def class_constants(self) -> dict:
        """{attribute name: literal} of the package's class-level constants (normalize.class_constants), from a raw parse of every
        module of naunet/ (files that do not parse contribute nothing here; pyast reports them)"""
        if "_cconsts" not in self.__dict__:
            from .normalize import class_constants
            mods = []
            for f in self.files():
                if f.endswith(".py") and f.startswith("naunet/"):
                    try:
                        if f in self.overlay:
                            mods.append(ast.parse(self.read(f), filename=f))
                        else:
                            # files on disk: one raw parse per process (the trees are only read), shared by all overlays
                            p = os.path.join(self.root, f)
                            k = (p, os.path.getmtime(p))
                            if k not in _RAW_AST:
                                _RAW_AST[k] = ast.parse(self.read(f), filename=f)
                            mods.append(_RAW_AST[k])
                    except (SyntaxError, AnalysisError, OSError):
                        pass
            self.__dict__["_cconsts"] = class_constants(mods)
        return self.__dict__["_cconsts"]

    def seg(self, rel: str, node: ast.AST) -> str:
        return ast.get_source_segment(self.read(rel), node) or ""

    def line(self, rel: str, lineno: int) -> str:
        ls = self.read(rel).splitlines()
        return ls[lineno - 1] if 0 < lineno <= len(ls) else ""


@dataclass
class Ob:
    rule: str
    key: str
    file: str
    line: int
    outcome: str
    msg: str = ""
    expected: str | None = None
    found: str | None = None

    @property
    def fkey(self) -> str:
        return f"{self.rule}|{self.key}"

    def loc(self) -> str:
        return f"{self.file}:{self.line}"


class Ctx:
    """One run of one property's rules over one tree."""

    def __init__(self, tree: SourceTree, prop: str, tier: str = "quick"):
        self.tree = tree
        self.prop = prop
        self.tier = tier
        self.obs: list[Ob] = []
        self.notes: list[str] = []
        self.stats: dict = {}
        self.analysed: dict = {"files": set(), "functions": set()}
        self._seen: set = set()

    # -- recording ---------------------------------------------------
    def _add(self, ob: Ob) -> None:
        k = (ob.rule, ob.key, ob.outcome, ob.msg)
        if k in self._seen:
            return
        self._seen.add(k)
        self.obs.append(ob)

    def ok(self, rule, key, where, msg=""):
        self._add(Ob(rule, key, where[0], where[1], OK, msg))

    def bad(self, rule, key, where, msg, expected=None, found=None):
        self._add(Ob(rule, key, where[0], where[1], VIOLATION, msg,
                     None if expected is None else str(expected),
                     None if found is None else str(found)))

    def unrec(self, rule, key, where, msg):
        self._add(Ob(rule, key, where[0], where[1], UNRECOGNISED, msg))

    def missing(self, rule, key, where, msg):
        self._add(Ob(rule, key, where[0], where[1], MISSING, msg))

    def check(self, cond, rule, key, where, msg, expected=None, found=None):
        if cond:
            self.ok(rule, key, where, msg)
        else:
            self.bad(rule, key, where, msg, expected, found)
        return cond

    def floor(self, rule: str, what: str, n: int, minimum: int, where=("", 0)):
        """A rule that matches fewer instances than were confirmed by hand is
        broken (vacuous pass), not satisfied."""
        self.stats.setdefault("floors", {})[f"{rule}:{what}"] = {"matched": n, "floor": minimum}
        if n < minimum:
            self.missing(rule, f"floor:{what}", where,
                         f"rule matched {n} {what}, fewer than the {minimum} confirmed by hand")

    def absorb(self, fn, rule: str, only=None):
        """Run a rule function of another property module on a scratch context over the same tree and
        adopt its obligations under this property's rule id `rule`."""
        sub = Ctx(self.tree, self.prop, self.tier)
        fn(sub)
        for o in sub.obs:
            if only is not None and not only(o):
                continue
            self._add(Ob(rule, o.key, o.file, o.line, o.outcome, o.msg, o.expected, o.found))
        for k in ("files", "functions"):
            self.analysed[k] |= sub.analysed[k]

    def note(self, s: str):
        self.notes.append(s)

    def saw(self, file: str | None = None, func: str | None = None):
        if file:
            self.analysed["files"].add(file)
        if func:
            self.analysed["functions"].add(func)

    # -- summaries ---------------------------------------------------
    def by(self, outcome):
        return [o for o in self.obs if o.outcome == outcome]


def load_known() -> list:
    p = os.path.join(VERIF, "known_findings.json")
    if not os.path.isfile(p):
        return []
    with open(p) as f:
        return json.load(f).get("findings", [])


def write_json(path: str, obj) -> None:
    os.makedirs(os.path.dirname(path), exist_ok=True)
    tmp = path + ".tmp"
    with open(tmp, "w") as f:
        json.dump(obj, f, indent=1, sort_keys=False, default=str)
        f.write("\n")
    os.replace(tmp, path)
