"""E2: def-use expression reconstruction over one Python function.

One in-order walk of the statements; every local carries a reconstructed value
in a small tuple IR.  Loops are not unrolled (the loop variable is the abstract
element `elem(iterable, loop)`), `if` yields guards and phi values.  Every store
into a subscript / attribute, every `append`-like call, every `return`/`raise`
becomes a Fact carrying value, loop contexts and guards.  No path conditions,
no iteration, no evaluation: this is use-def expansion.

IR (hashable tuples):
 ("const", v) ("param", name) ("global", name) ("attr", base, name)
 ("fstr", (part, ...))   part = ("const", str) | ("fmt", value, spec|None, conv)
 ("join", sep, seq) ("list", (elt, ...)) ("tuple", (...)) ("set", (...)) ("dict", ((k, v), ...))
 ("star", x) ("comp", kind, elt, ((targets, iter, (ifs...)), ...)) ("bv", name, uid)
 ("elem", iter, loop) ("idx", iter, loop) ("key", d, loop) ("val", d, loop) ("item", x, i)
 ("call", f, (args), ((kw, v), ...)) ("meth", obj, name, (args), ((kw, v), ...))
 ("binop", op, l, r) ("unop", op, x) ("cmp", (ops), (operands)) ("bool", op, (values)) ("ifexp", c, a, b)
 ("sub", base, idx) ("slice", lo, hi, step)
 ("copy", L) ("removeone", L, x) ("appended", L, x)
 ("phi", cond, a, b) ("carried", name, loop) ("acc", name) ("unknown", text)
 ("lambda", (("bv", param, uid), ...), body)      a lambda / a nested single-return def used as a value
 ("rectype", name, (field, ...)[, ((field, default), ...)])   a namedtuple type (handed in through `consts`)
 ("record", name, ((field, value), ...))           an instance built by calling a rectype
 ("raise", exc)                                   leaf of the phi value of an inlined helper on a path that raises (Flow(raise_arms=True))

simp also reads stdlib spellings as the displays / comprehensions they are equal to: functools.reduce over a display (unfolded),
map(f, X) (a generator), [a, *[b, c]] (one display), [f(x) for x in L][a:b] and [..][k] (slice / element moved inside), format(),
getattr(x, "name"); Flow reads "text %s" % (..) and "text {}".format(..) as f-strings.  as_map / as_dict_map view list- and dict-valued
IR as one map over a base sequence / table.
"""
from __future__ import annotations

import ast
import itertools
from dataclasses import dataclass, field

TRANSPARENT = {"tqdm", "list", "tuple", "iter"}
# tuple IR of a namedtuple row written out by normalize.namedtuple_rows -> (field names, type name); values are hash-consed, so the
# table is shared by all flows (an entry seen with two different meanings is blanked)
_NT_ROWS: dict = {}


@dataclass
class Loop:
    id: int
    iter: tuple
    target: str
    line: int
    kind: str = "for"   # for | while | comp
    bvals: dict = field(default_factory=dict)
    nguards: int = 0    # number of (atomic) guards in force where the loop statement stands
    gdepth: int = 0     # number of (flattened) guards in force where the loop starts: a fact's guards[gdepth:] sit inside the loop


@dataclass
class Fact:
    kind: str            # store | augstore | append | remove | call | return | raise | attrstore | init | assign
    target: str          # array / attribute / callee name
    index: tuple | None
    op: str | None
    value: tuple | None
    loops: tuple
    guards: tuple        # ((cond IR, polarity), ...)
    line: int
    seq: int
    node: ast.AST = field(repr=False, default=None)
    extra: dict = field(default_factory=dict)


_NEG_OP = {"NotEq": "Eq", "NotIn": "In", "IsNot": "Is"}


def norm_guard(g):
    """(condition, polarity) with the condition in positive form: `not c` and !=, not in, is not are folded into the polarity,
    so that `if a != b: X` and `if a == b: ... else: X` give X the same guard."""
    c, pol = g
    for _ in range(4):
        if isinstance(c, tuple) and len(c) == 3 and c[0] == "unop" and c[1] == "Not":
            c, pol = c[2], not pol
            continue
        if isinstance(c, tuple) and len(c) == 3 and c[0] == "cmp" and len(c[1]) == 1 and c[1][0] in _NEG_OP:
            c, pol = ("cmp", (_NEG_OP[c[1][0]],), c[2]), not pol
            continue
        break
    return (c, pol)


def split_guard(g):
    """A guard as a list of atomic guards in positive form: a true conjunction / a false disjunction is the list of its parts
    (`if a and b:` == `if a: if b:`;  `if a or not b: continue` leaves (a, False), (b, True))."""
    c, pol = norm_guard(g)
    if isinstance(c, tuple) and len(c) == 3 and c[0] == "bool" and ((c[1] == "And" and pol) or (c[1] == "Or" and not pol)):
        out = []
        for x in c[2]:
            out.extend(split_guard((x, pol)))
        return out
    return [(c, pol)]


def expand_procedures(func: ast.FunctionDef, resolver, depth: int = 0) -> ast.FunctionDef:
    """Statement-level inlining of helper PROCEDURES of the same class: `self._helper(a, b, rhs)` written as a statement, where the
    helper returns nothing, is replaced by the helper's body with its parameters renamed to the argument names (arguments that
    are not plain names are bound to fresh locals first) and its locals made unique.  What the helper does to the lists it is
    handed then shows up in the caller exactly as if the code had not been extracted."""
    import copy as _copy
    counter = itertools.count(1)

    class Ren(ast.NodeTransformer):
        def __init__(self, m):
            self.m = m

        def visit_Name(self, n):
            if n.id in self.m:
                n.id = self.m[n.id]
            return n

    def void(callee):
        for r in ast.walk(callee):
            if isinstance(r, (ast.Yield, ast.YieldFrom, ast.Global, ast.Nonlocal)):
                return False
            if isinstance(r, ast.Return) and r.value is not None and not (isinstance(r.value, ast.Constant) and r.value.value is None):
                return False
            if isinstance(r, ast.Return) and r is not callee.body[-1]:
                return False
        return True

    def expand(stmts, d):
        out = []
        for st in stmts:
            for fld in ("body", "orelse", "finalbody"):
                b = getattr(st, fld, None)
                if isinstance(b, list) and b and isinstance(b[0], ast.stmt):
                    setattr(st, fld, expand(b, d))
            c = st.value if isinstance(st, ast.Expr) else None
            if isinstance(c, ast.Call) and isinstance(c.func, ast.Attribute) and isinstance(c.func.value, ast.Name) and c.func.value.id in ("self", "cls") \
                    and d < 2 and not any(isinstance(a, ast.Starred) for a in c.args) and all(k.arg for k in c.keywords):
                callee = resolver(c.func.attr)
                if callee is not None and callee is not func and void(callee) and not callee.args.vararg and not callee.args.kwarg:
                    decs = {ast.unparse(x) for x in callee.decorator_list}
                    params = [a.arg for a in callee.args.args]
                    if not (decs - {"staticmethod", "classmethod"}):
                        ren = {}
                        if "staticmethod" not in decs and params:
                            ren[params[0]] = c.func.value.id
                            params = params[1:]
                        given = dict(zip(params, c.args))
                        given.update({k.arg: k.value for k in c.keywords})
                        defaults = dict(zip(params[len(params) - len(callee.args.defaults):], callee.args.defaults))
                        if len(c.args) <= len(params) and all(p_ in given or p_ in defaults for p_ in params) and all(k in params for k in given):
                            k_ = next(counter)
                            pre = []
                            for p_ in params:
                                a = given.get(p_, defaults.get(p_))
                                if isinstance(a, ast.Name):
                                    ren[p_] = a.id
                                else:
                                    fresh = f"_inl{k_}_{p_}"
                                    ren[p_] = fresh
                                    pre.append(ast.copy_location(ast.Assign(targets=[ast.Name(id=fresh, ctx=ast.Store())], value=_copy.deepcopy(a)), st))
                            body = _copy.deepcopy(callee.body)
                            if body and isinstance(body[-1], ast.Return):
                                body = body[:-1]
                            locals_ = {n.id for b in body for n in ast.walk(b) if isinstance(n, ast.Name) and isinstance(n.ctx, ast.Store)} - set(ren)
                            for l in locals_:
                                ren[l] = f"_inl{k_}_{l}"
                            body = [Ren(ren).visit(b) for b in body]
                            body = [b for b in body if not (isinstance(b, ast.Expr) and isinstance(b.value, ast.Constant))]
                            for b in pre + body:
                                ast.fix_missing_locations(b)
                            out.extend(pre + expand(body, d + 1))
                            continue
            out.append(st)
        return out
    new = _copy.deepcopy(func)
    new.body = expand(new.body, depth)
    return new


class Flow:
    def __init__(self, func: ast.FunctionDef, file: str = "", consts: dict | None = None,
                 self_name: str | None = None, keep_arms: bool = False, resolver=None, _depth: int = 0, _env: dict | None = None,
                 proc_resolver=None, func_resolver=None, raise_arms: bool = False, inline_loops: bool = False, _uid=None,
                 records: dict | None = None):
        # records: {class name: (field, ..)} of immutable record types (NamedTuple): `X(u, v).a` is read as `u`
        self._records_arg = records or {}
        # proc_resolver: name -> FunctionDef of a helper PROCEDURE of the same class, expanded in place as statements
        # func_resolver: name -> FunctionDef of a small pure MODULE-LEVEL helper function called by its bare name (inlined)
        # raise_arms: an inlined helper's `raise` paths become ("raise", exc) leaves of the phi value (a dispatch chain moved into a
        #             helper keeps its refusing arms); without it a helper that can raise stays an opaque call
        self.func_resolver = func_resolver
        self.raise_arms = raise_arms
        # inline_loops: helper methods that contain loops are inlined too (opt-in): a local they re-bind in a loop is the same
        # ("carried", name, loop) it would be had the loop stood in the caller; the loop / variable ids are drawn from one counter
        self.inline_loops = inline_loops
        if proc_resolver is not None and _depth == 0:
            func = expand_procedures(func, proc_resolver)
        self.keep_arms = keep_arms
        self.resolver = resolver          # name -> FunctionDef of a small pure helper method of the same class (inlined)
        self._depth = _depth
        self._preset = _env
        self.func = func
        self.file = file
        self.env: dict = {}
        self.facts: list[Fact] = []
        self.loops: list[Loop] = []
        self.guards: list = []
        self._uid = _uid if _uid is not None else itertools.count(1)
        self._seq = itertools.count(1)
        self.all_loops: dict = {}
        self.assigns: dict = {}
        self.alias_of: dict = {}
        self._mutated: set = set()
        self._if_tests: dict = {}
        self._loop_stored: list = []
        self.consts = consts or {}
        self.records = dict(getattr(func, "_sa_records", None) or {})
        self.records.update(self._records_arg)
        self.acc = self._find_acc(func)
        a = func.args
        allargs = a.posonlyargs + a.args + a.kwonlyargs
        for p in allargs:
            self.env[p.arg] = ("param", p.arg)
        if a.vararg:
            self.env[a.vararg.arg] = ("param", "*" + a.vararg.arg)
        if a.kwarg:
            self.env[a.kwarg.arg] = ("param", "**" + a.kwarg.arg)
        if self._preset:
            self.env.update(self._preset)
        self.block(func.body)

    # ---- which locals are accumulators --------------------------------
    @staticmethod
    def _find_acc(func) -> set:
        acc = set()

        def visit(node, in_loop):
            for ch in ast.iter_child_nodes(node):
                if isinstance(ch, (ast.FunctionDef, ast.AsyncFunctionDef, ast.ClassDef, ast.Lambda)):
                    continue
                if isinstance(ch, (ast.Assign, ast.AugAssign, ast.AnnAssign)):
                    tg = ch.targets if isinstance(ch, ast.Assign) else [ch.target]
                    for t in tg:
                        if isinstance(t, ast.Subscript) and isinstance(t.value, ast.Name):
                            acc.add(t.value.id)
                if in_loop and isinstance(ch, ast.Expr) and isinstance(ch.value, ast.Call) \
                        and isinstance(ch.value.func, ast.Attribute) and isinstance(ch.value.func.value, ast.Name) \
                        and ch.value.func.attr in ("append", "extend", "add", "update", "insert", "pop"):
                    acc.add(ch.value.func.value.id)
                visit(ch, in_loop or isinstance(ch, (ast.For, ast.While)))

        visit(func, False)
        return acc

    # ---- helpers --------------------------------------------------------
    def _guards(self):
        out = []
        for g in self.guards:
            out.extend(split_guard(g))
        return tuple(out)

    def fact(self, kind, target, index, op, value, node, **extra):
        if kind in ("store", "augstore", "append", "remove", "mutate") and isinstance(target, str):
            self._mutated.add(target)
        f = Fact(kind, target, index, op, value, tuple(self.loops), self._guards(),
                 getattr(node, "lineno", 0), next(self._seq), node, extra)
        self.facts.append(f)
        return f

    def lookup(self, name):
        if name in self.env:
            v = self.env[name]
            # (a comprehension target that re-uses the name of an accumulator local is the comprehension's own bound variable)
            if name in self.acc and v is not None and v[0] not in ("param", "bv"):
                # precise until the first element store / in-loop mutation can have happened
                if name in self._mutated or any(name in st for st in self._loop_stored):
                    return ("acc", name)
            return v
        if name in self.consts:
            return self.consts[name]
        return ("global", name)

    # ---- expressions ----------------------------------------------------
    def ev(self, n) -> tuple:
        if n is None:
            return ("const", None)
        m = getattr(self, "e_" + type(n).__name__, None)
        if m is None:
            return ("unknown", ast.dump(n)[:80])
        return m(n)

    def e_Constant(self, n):
        return ("const", n.value)

    def e_Name(self, n):
        return self.lookup(n.id)

    def e_Attribute(self, n):
        base = self.ev(n.value)
        if base[0] == "record":
            for nm, val in base[2]:
                if nm == n.attr:
                    return val
        if base[0] == "tuple":
            fs = _NT_ROWS.get(base, ((), None))[0]
            if n.attr in fs:
                return base[1][fs.index(n.attr)]
        r = self._record_field(base, n.attr)
        return r if r is not None else ("attr", base, n.attr)

    def _as_record(self, obj):
        """("record", type, ((field, value), ..)) for a value that is an instance of a record type of the module with every field
        known -- `R(a, y=b)` of a type in self.records, a namedtuple row written out as a display, a record IR -- else None"""
        if not isinstance(obj, tuple) or not obj:
            return None
        if obj[0] == "record":
            return obj
        if obj[0] == "tuple":
            fs, tname = _NT_ROWS.get(obj, ((), None))
            if fs and tname and len(fs) == len(obj[1]):
                return ("record", tname, tuple(zip(fs, obj[1])))
            return None
        if obj[0] == "call" and obj[1][0] == "global" and obj[1][1] in self.records and obj[1][1] not in self.env:
            fields = self.records[obj[1][1]]
            args, kws = obj[2], dict(obj[3])
            if any(a[0] == "star" for a in args) or "**" in kws or len(args) > len(fields) or any(k not in fields for k in kws):
                return None
            given = dict(zip(fields, args))
            if set(given) & set(kws):
                return None
            given.update(kws)
            if all(fl_ in given for fl_ in fields):
                return ("record", obj[1][1], tuple((fl_, given[fl_]) for fl_ in fields))
        return None

    def _record_field(self, base, field):
        """`R(a, b).f` with R a record type of the module (typing.NamedTuple / collections.namedtuple, see core._Canon._records) is the
        argument bound to field f -- also when the record reaches this point as the element of a list of such records"""
        recs = self.records
        if not recs or not isinstance(base, tuple) or base[0] not in ("call", "elem", "bv", "sub", "item", "phi"):
            return None
        b = base if base[0] == "call" else simp(base)
        if b[0] == "call" and b[1][0] == "global" and b[1][1] in recs and field in recs[b[1][1]] and b[1][1] not in self.env:
            fields = recs[b[1][1]]
            args, kws = b[2], dict(b[3])
            if any(isinstance(a, tuple) and a and a[0] == "star" for a in args) or "**" in kws or len(args) > len(fields):
                return None
            i = fields.index(field)
            if i < len(args):
                return args[i]
            return kws.get(field)
        return None

    def e_JoinedStr(self, n):
        parts = []
        for v in n.values:
            if isinstance(v, ast.Constant):
                parts.append(("const", v.value))
            else:
                val = self.ev(v.value)
                spec = None
                if v.format_spec is not None:
                    s = self.ev(v.format_spec)
                    s = flatten_fstr(s)
                    spec = s[1] if s[0] == "const" else s
                conv = v.conversion
                if spec is None and conv == -1 and val[0] == "const" and isinstance(val[1], str):
                    parts.append(val)
                elif spec is None and conv == -1 and val[0] == "fstr":
                    parts.extend(val[1])
                else:
                    parts.append(("fmt", val, spec, conv))
        return flatten_fstr(("fstr", tuple(parts)))

    def e_List(self, n):
        return ("list", tuple(self.ev(e) for e in n.elts))

    def e_Tuple(self, n):
        # a namedtuple row that normalize.namedtuple_rows wrote as the tuple of its values keeps its field names (`_nt_fields`): it is
        # the record built by calling the type -- `.field`, `[k]` and unpacking then read the field's value (simp), also when the row
        # reaches the reader as the element of a list of such rows
        fs = getattr(n, "_nt_fields", None)
        if fs and len(fs) == len(n.elts) and not any(isinstance(e, ast.Starred) for e in n.elts):
            return ("record", getattr(n, "_nt_type", None) or "<namedtuple>", tuple((f, self.ev(e)) for f, e in zip(fs, n.elts)))
        return ("tuple", tuple(self.ev(e) for e in n.elts))

    def e_Set(self, n):
        return ("set", tuple(self.ev(e) for e in n.elts))

    def e_Dict(self, n):
        return ("dict", tuple((self.ev(k) if k is not None else ("star2",), self.ev(v)) for k, v in zip(n.keys, n.values)))

    def e_Starred(self, n):
        return ("star", self.ev(n.value))

    def e_BinOp(self, n):
        l, r = self.ev(n.left), self.ev(n.right)
        if isinstance(n.op, ast.Add):
            # "text" + x + "text": the same string as f"text{x}text" (one side being text makes the other text too)
            def textual(v):
                return (v[0] == "const" and isinstance(v[1], str)) or v[0] == "fstr" or (v[0] == "join")

            def parts(v):
                if v[0] == "const" and isinstance(v[1], str):
                    return (v,)
                if v[0] == "fstr":
                    return tuple(v[1])
                return (("fmt", v, None, -1),)
            if textual(l) or textual(r):
                return flatten_fstr(("fstr", parts(l) + parts(r)))
        if isinstance(n.op, ast.Mod) and l[0] == "const" and isinstance(l[1], str):
            # "text %s text" % (a, b): printf-style formatting with a literal format is the f-string it is equal to
            fs = self._percent_to_fstr(l[1], r)
            if fs is not None:
                return fs
        return ("binop", type(n.op).__name__, l, r)

    @staticmethod
    def _percent_to_fstr(text, arg):
        """'%s * pow(T, %10.3e)' % (a, b) as the f-string it is equal to (%s %d %i %f %e %g %r with flags / width / precision, %%,
        %(name)s with a dict display); None for anything else (*, unknown conversions, wrong number of arguments)."""
        import re as _re
        args = list(arg[1]) if arg[0] == "tuple" else None
        named = {k[1]: v for k, v in arg[1] if k[0] == "const"} if arg[0] == "dict" else None
        parts, pos, auto = [], 0, 0
        for m in _re.finditer(r"%(?:\((\w+)\))?([-+ 0#]*)(\d+)?(?:\.(\d+))?([sdifeEgGr%])", text):
            if m.start() > pos:
                parts.append(("const", text[pos:m.start()]))
            pos = m.end()
            name, flags, width, prec, conv = m.groups()
            if conv == "%":
                if name or flags or width or prec:
                    return None
                parts.append(("const", "%"))
                continue
            if name is not None:
                if named is None or name not in named:
                    return None
                val = named[name]
            elif named is not None:
                return None
            elif args is None:
                if auto:
                    return None
                val = arg
                auto += 1
            else:
                if auto >= len(args) or args[auto][0] == "star":
                    return None
                val = args[auto]
                auto += 1
            if "#" in flags or " " in flags:
                return None
            spec = ("<" if "-" in flags else "") + ("+" if "+" in flags else "") + ("0" if "0" in flags and "-" not in flags else "") + (width or "") \
                + ("." + prec if prec is not None else "")
            if conv in "sr":
                spec = (">" + spec if width and "-" not in flags else spec) if spec else ""
            else:
                spec += "d" if conv == "i" else conv
            if conv in "sr" and not spec:
                if conv == "s" and val[0] == "const" and isinstance(val[1], str):
                    parts.append(val)
                else:
                    parts.append(("fmt", val, None, ord("r") if conv == "r" else -1))
            else:
                parts.append(("fmt", val, spec or None, ord("r") if conv == "r" else -1))
        if "%" in _re.sub(r"%(?:\((\w+)\))?([-+ 0#]*)(\d+)?(?:\.(\d+))?([sdifeEgGr%])", "", text):
            return None
        if args is not None and auto != len(args):
            return None
        if pos < len(text):
            parts.append(("const", text[pos:]))
        return flatten_fstr(("fstr", tuple(parts)))

    def e_UnaryOp(self, n):
        return ("unop", type(n.op).__name__, self.ev(n.operand))

    def e_BoolOp(self, n):
        return ("bool", type(n.op).__name__, tuple(self.ev(v) for v in n.values))

    def e_Compare(self, n):
        return ("cmp", tuple(type(o).__name__ for o in n.ops), tuple(self.ev(x) for x in [n.left] + n.comparators))

    def e_IfExp(self, n):
        return ("ifexp", self.ev(n.test), self.ev(n.body), self.ev(n.orelse))

    def e_Subscript(self, n):
        return ("sub", self.ev(n.value), self.ev(n.slice))

    def e_Slice(self, n):
        return ("slice", self.ev(n.lower), self.ev(n.upper), self.ev(n.step))

    def e_Lambda(self, n):
        return self._closure(n.args, n.body)

    def _closure(self, a, body):
        """A function VALUE (a lambda, or a nested `def f(p): return e` -- the same thing with a name): ("lambda", (param, ...), body)
        with the parameters as bound variables; free names have the value they have where the function is created."""
        if a.vararg or a.kwarg or a.kwonlyargs or a.posonlyargs:
            return ("unknown", "lambda")
        saved = dict(self.env)
        uid = next(self._uid)
        params = []
        for p_ in a.args:
            bv = ("bv", p_.arg, uid)
            self.env[p_.arg] = bv
            params.append(bv)
        v = self.ev(body)
        self.env = saved
        return ("lambda", tuple(params), v)

    def _apply(self, fv, args, kws, depth=0):
        """value of calling the function value fv -- a ("lambda", params, body) or a phi of such (one definition per arm of an
        if/elif chain) -- with these arguments: the body with the parameters replaced; None when fv is not a local function value"""
        if depth > 6 or fv is None:
            return None
        if fv[0] in ("phi", "ifexp") and len(fv) == 4:
            a, b = self._apply(fv[2], args, kws, depth + 1), self._apply(fv[3], args, kws, depth + 1)
            return None if a is None or b is None else (fv[0], fv[1], a, b)
        if fv[0] == "raise":
            return fv               # this arm of the selection raised instead of yielding a function: nothing is called on it
        if fv[0] != "lambda":
            return None
        params = fv[1]
        names = [p_[1] for p_ in params]
        if len(args) > len(params) or any(k not in names for k, _ in kws):
            return None
        given = dict(zip(params, args))
        for k, v_ in kws:
            given[params[names.index(k)]] = v_
        if len(given) != len(params):
            return None
        return simp(subst(fv[2], given))


    def e_NamedExpr(self, n):
        v = self.ev(n.value)
        self.bind(n.target, v, n)
        return v

    def _comp(self, n, kind):
        saved = dict(self.env)
        gens = []
        for g in n.generators:
            it = strip_transparent(self.ev(g.iter))
            lp = Loop(next(self._uid), it, ast.unparse(g.target), getattr(n, "lineno", 0), "comp")
            self.all_loops[lp.id] = lp
            tg = self.bind_iter(g.target, it, lp, comp=True)
            ifs = tuple(self.ev(i) for i in g.ifs)
            gens.append((tg, it, ifs))
        if kind == "dict":
            elt = ("tuple", (self.ev(n.key), self.ev(n.value)))
        else:
            elt = self.ev(n.elt)
        self.env = saved
        return ("comp", kind, elt, tuple(gens))

    def e_ListComp(self, n):
        return self._comp(n, "list")

    def e_GeneratorExp(self, n):
        return self._comp(n, "gen")

    def e_SetComp(self, n):
        return self._comp(n, "set")

    def e_DictComp(self, n):
        return self._comp(n, "dict")

    def e_Call(self, n):
        args = tuple(self.ev(a) for a in n.args)
        kws = tuple((k.arg or "**", self.ev(k.value)) for k in n.keywords)
        f = n.func
        if isinstance(f, ast.Attribute):
            obj = self.ev(f.value)
            if f.attr == "join" and len(args) == 1 and not kws:
                return ("join", obj, args[0])
            if f.attr == "format" and obj[0] == "const" and isinstance(obj[1], str):
                fs = self._format_to_fstr(obj[1], args, dict(kws))
                if fs is not None:
                    return fs
            if f.attr == "copy" and not args:
                return ("copy", obj)
            if obj in (("param", "self"), ("param", "cls")) and self.resolver is not None and self._depth < 2 and all(k != "**" for k, _ in kws):
                callee = self.resolver(f.attr)
                if callee is not None:
                    inl = self._inline(callee, args, dict(kws))
                    if inl is not None:
                        return inl
            # a method of a record type (a NamedTuple class with methods) called on a record whose fields are known: the method's
            # value with `self` bound to the record (func_resolver("<Class>.<method>") finds it)
            if obj[0] == "record" and self.func_resolver is not None and self._depth < 2 and all(k != "**" for k, _ in kws) \
                    and not any(nm == f.attr for nm, _ in obj[2]):
                callee = self.func_resolver(f"{obj[1]}.{f.attr}")
                if callee is not None and callee is not self.func and not callee.decorator_list:
                    inl = self._inline(callee, (obj,) + args, dict(kws), bare=True)
                    if inl is not None:
                        return inl
            # an alternative constructor of a record type (`Rec.from_line(s)`, a classmethod that returns cls(..)): its value with `cls`
            # bound to the type
            if obj[0] == "rectype" and self.func_resolver is not None and self._depth < 2 and all(k != "**" for k, _ in kws):
                callee = self.func_resolver(f"{obj[1]}.{f.attr}")
                if callee is not None and callee is not self.func and [ast.unparse(d) for d in callee.decorator_list] == ["classmethod"]:
                    inl = self._inline(callee, args, dict(kws), recv=obj)
                    if inl is not None:
                        return inl
            # a method of a record class of the module called on a record whose fields are all known (`R(a, b).m(x)`, a namedtuple row
            # `(..).m(x)`): the value the method returns with `self` standing for that record
            rec = self._as_record(obj)
            if rec is not None and self._depth < 2 and all(k != "**" for k, _ in kws):
                callee = (getattr(self.func, "_sa_record_methods", None) or {}).get(rec[1], {}).get(f.attr)
                flat = []
                for a in args:          # `m(*t)` with t a display is m(t[0], t[1], ..)
                    if a[0] == "star" and simp(a[1])[0] in ("tuple", "list") and not any(e[0] == "star" for e in simp(a[1])[1]):
                        flat.extend(simp(a[1])[1])
                    else:
                        flat.append(a)
                if callee is not None and not any(a[0] == "star" for a in flat):
                    inl = self._inline(callee, tuple(flat), dict(kws), recv=rec)
                    if inl is not None:
                        return inl
            return ("meth", obj, f.attr, args, kws)
        # dispatch table: `table = {"k": self._m1, ...}; fn = table.get(key) / table[key]; fn(args)` is the if/elif chain
        # `key == "k" -> self._m1(args)` written as data
        if self.resolver is not None and self._depth < 2 and all(k != "**" for k, _ in kws):
            fv = self.ev(f)
            tab = key = None
            if fv[0] == "meth" and fv[2] == "get" and fv[1][0] == "dict" and len(fv[3]) in (1, 2):
                tab, key = fv[1], fv[3][0]
            elif fv[0] == "sub" and fv[1][0] == "dict":
                tab, key = fv[1], fv[2]
            if tab is not None and tab[1] and all(k[0] == "const" and v[0] == "attr" and v[1] in (("param", "self"), ("param", "cls")) for k, v in tab[1]):
                out = ("call", fv, args, kws)
                ok = True
                for k, v in reversed(tab[1]):
                    callee = self.resolver(v[2])
                    inl = self._inline(callee, args, dict(kws)) if callee is not None else None
                    if inl is None:
                        inl = ("meth", v[1], v[2], args, kws)       # this arm stays an opaque call
                    out = ("phi", ("cmp", ("Eq",), (key, k)), inl, out)
                if ok:
                    return out
        if isinstance(f, ast.Name) and f.id in self.env and all(k != "**" for k, _ in kws) and not any(a[0] == "star" for a in args):
            r = self._apply(self.env[f.id], args, kws)
            if r is not None:
                return r
        # `Point(1, y=2)` with Point a namedtuple type known to the caller (consts: ("rectype", name, fields)): the record with
        # every field bound -- reading `.x` / `[0]` / unpacking it then yields the field's value
        if isinstance(f, (ast.Name, ast.Attribute)) and all(k != "**" for k, _ in kws) and not any(a[0] == "star" for a in args):
            ctor = self.ev(f)
            if ctor[0] == "rectype":
                fields = ctor[2]
                given = dict(zip(fields, args))
                if len(args) <= len(fields) and all(k in fields and k not in given for k, _ in kws):
                    given.update(kws)
                    given = {**dict(ctor[3]), **given} if len(ctor) > 3 else given
                    if all(fl_ in given for fl_ in fields):
                        return ("record", ctor[1], tuple((fl_, given[fl_]) for fl_ in fields))
        # functools.reduce(helper, [e1, e2, ..], init) with `helper` a small module-level function (func_resolver): the left fold written
        # out, helper(helper(init, e1), e2) .., each application read as the value the helper returns (simp does the same for a lambda)
        if ((isinstance(f, ast.Name) and f.id == "reduce" and f.id not in self.env) or (isinstance(f, ast.Attribute) and f.attr == "reduce" and ast.unparse(f.value) == "functools")) \
                and self.func_resolver is not None and len(args) == 3 and not kws and args[0][0] == "global" and self._depth < 2:
            seq = simp(args[1])
            callee = self.func_resolver(args[0][1])
            if callee is not None and callee is not self.func and seq[0] in ("list", "tuple") and len(seq[1]) <= 16 and not any(e[0] == "star" for e in seq[1]):
                acc = args[2]
                for e in seq[1]:
                    acc = self._inline(callee, (acc, e), {}, bare=True) if acc is not None else None
                if acc is not None:
                    return acc
        if isinstance(f, ast.Name) and self.func_resolver is not None and f.id not in self.env and self._depth < 2 and all(k != "**" for k, _ in kws):
            callee = self.func_resolver(f.id)
            if callee is not None and callee is not self.func:
                inl = self._inline(callee, args, dict(kws), bare=True)
                if inl is not None:
                    return inl
        if isinstance(f, ast.Name) and f.id in TRANSPARENT and len(args) == 1 and not kws and f.id not in self.env:
            if f.id == "tqdm" or args[0][0] in ("comp", "list", "acc"):
                return args[0]
        if isinstance(f, ast.Name) and f.id == "tqdm" and args:
            return args[0]
        # the builtin format(x) / format(x, "spec") is the f-string f"{x}" / f"{x:spec}"
        if isinstance(f, ast.Name) and f.id == "format" and f.id not in self.env and not kws and 1 <= len(args) <= 2 \
                and (len(args) == 1 or (args[1][0] == "const" and isinstance(args[1][1], str))):
            spec = args[1][1] if len(args) == 2 and args[1][1] else None
            if spec is None and (args[0][0] == "fstr" or (args[0][0] == "const" and isinstance(args[0][1], str))):
                return args[0]
            return flatten_fstr(("fstr", (("fmt", args[0], spec, -1),)))
        return ("call", self.ev(f), args, kws)

    @staticmethod
    def _format_to_fstr(text, args, kws):
        """'a{}b{0:>4}{name!r}'.format(..) as the f-string it is equal to; None when a field is not a plain index / name."""
        import string
        parts = []
        auto = 0
        try:
            fields = list(string.Formatter().parse(text))
        except ValueError:
            return None
        for lit, field, spec, conv in fields:
            if lit:
                parts.append(("const", lit))
            if field is None:
                continue
            if field == "":
                if auto >= len(args):
                    return None
                val = args[auto]
                auto += 1
            elif field.isdigit():
                if int(field) >= len(args):
                    return None
                val = args[int(field)]
            elif field.isidentifier() and field in kws:
                val = kws[field]
            else:
                return None
            if spec and ("{" in spec):
                return None
            c = -1 if conv is None else ord(conv)
            if not spec and c == -1 and val[0] == "const" and isinstance(val[1], str):
                parts.append(val)
            elif not spec and c == -1 and val[0] == "fstr":
                parts.extend(val[1])
            else:
                parts.append(("fmt", val, spec or None, c))
        return flatten_fstr(("fstr", tuple(parts)))

    def _inline(self, callee, args, kws=None, bare=False, recv=None):
        """Value returned by a small, loop-free helper method for these argument values (phi over its returns).  Instance, class
        and static methods (bare=True: a module-level function, no receiver); positional and keyword arguments; defaults."""
        kws = kws or {}
        refused = (ast.Try, ast.With, ast.Yield) + (() if self.inline_loops else (ast.For, ast.While))
        if any(isinstance(n, refused) for n in ast.walk(callee)):
            return None
        params = [p.arg for p in callee.args.args]
        decs = {ast.unparse(d) for d in callee.decorator_list}
        if callee.args.kwarg or callee.args.kwonlyargs or decs - {"staticmethod", "classmethod"}:
            return None
        preset = {}
        if callee.args.vararg:
            # def h(a, *rest): the surplus positional arguments are the tuple `rest` (no starred argument at the call)
            npos = len(params) - (0 if ("staticmethod" in decs or bare) else 1)
            if any(a_[0] == "star" for a_ in args) or len(args) < npos or kws or callee.args.defaults:
                return None
            preset[callee.args.vararg.arg] = ("tuple", tuple(args[npos:]))
            args = tuple(args[:npos])
        if "staticmethod" not in decs and not bare:
            if not params:
                return None
            rname, params = params[0], params[1:]
            preset[rname] = recv if recv is not None else ("param", "self") if "classmethod" not in decs else ("param", "cls")
        if len(args) > len(params) or any(k not in params for k in kws):
            return None
        preset.update(zip(params, args))
        preset.update(kws)
        defaults = dict(zip(params[len(params) - len(callee.args.defaults):], callee.args.defaults))
        for p_ in params:
            if p_ not in preset:
                if p_ not in defaults:
                    return None
                preset[p_] = self.ev(defaults[p_]) if isinstance(defaults[p_], ast.Constant) else None
                if preset[p_] is None:
                    return None
        sub = Flow(callee, self.file, keep_arms=False, resolver=self.resolver, _depth=self._depth + 1, _env=preset, consts=self.consts,
                   func_resolver=self.func_resolver, raise_arms=self.raise_arms, inline_loops=self.inline_loops, _uid=self._uid if self.inline_loops else None, records=self._records_arg)
        rets = [(f.value if f.kind == "return" else ("raise", f.value if f.value is not None else ("const", None)), list(f.guards))
                for f in sub.facts if f.kind == "return" or (f.kind == "raise" and self.raise_arms)]
        if not any(f.kind == "return" for f in sub.facts) or any(f.kind in ("store", "augstore", "attrstore", "append", "mutate") for f in sub.facts):
            return None

        return phi_of_paths(rets)

    # ---- binding ----------------------------------------------------------
    def bind(self, target, value, node):
        if isinstance(target, ast.Name):
            if target.id in self.acc:
                self.fact("init", target.id, None, "=", value, node)
            self.assigns.setdefault(target.id, []).append(
                (value, tuple(self.loops), self._guards(), getattr(node, "lineno", 0), next(self._seq)))
            self.env[target.id] = value
        elif isinstance(target, (ast.Tuple, ast.List)):
            star = [i for i, e in enumerate(target.elts) if isinstance(e, ast.Starred)]
            n = len(target.elts)
            for i, e in enumerate(target.elts):
                if isinstance(e, ast.Starred):
                    self.bind(e.value, ("item", value, ("star", i, n)), node)
                elif value[0] in ("tuple", "list") and not star and len(value[1]) == n:
                    self.bind(e, value[1][i], node)
                elif value[0] == "record" and not star and len(value[2]) == n:
                    self.bind(e, value[2][i][1], node)
                else:
                    self.bind(e, ("item", value, i if not star or i < star[0] else i - n), node)
        elif isinstance(target, ast.Subscript):
            base = target.value
            bname = base.id if isinstance(base, ast.Name) else ast.unparse(base)
            self.fact("store", bname, self.ev(target.slice), "=", value, node, base=self.ev(base) if not isinstance(base, ast.Name) else None)
        elif isinstance(target, ast.Attribute):
            self.fact("attrstore", target.attr, None, "=", value, node, obj=self.ev(target.value))
        elif isinstance(target, ast.Starred):
            self.bind(target.value, value, node)

    def bind_iter(self, target, it, lp: Loop, comp=False):
        """Bind loop targets to abstract elements of `it`; returns the IR of the targets."""
        def elem_of(x):
            return ("elem", x, lp.id)

        def mk(name_node, val):
            if comp:
                bv = ("bv", name_node.id, lp.id)
                self.env[name_node.id] = bv
                lp.bvals[bv] = val
                return bv
            self.env[name_node.id] = val
            return val

        # enumerate(X[, start])
        if it[0] == "call" and it[1] == ("global", "enumerate") and isinstance(target, (ast.Tuple, ast.List)) and len(target.elts) == 2:
            inner = strip_transparent(it[2][0])
            start = it[2][1] if len(it[2]) > 1 else next((v for k, v in it[3] if k == "start"), None)
            a, b = target.elts
            idx = ("idx", inner, lp.id) if start is None else ("binop", "Add", ("idx", inner, lp.id), start)
            ra = mk(a, idx) if isinstance(a, ast.Name) else None
            rb = self.bind_iter(b, inner, lp, comp)
            return ("tuple", (ra, rb))
        if it[0] == "call" and it[1] == ("global", "zip") and isinstance(target, (ast.Tuple, ast.List)) \
                and len(target.elts) == len(it[2]) and not any(isinstance(e, ast.Starred) for e in target.elts):
            return ("tuple", tuple(self.bind_iter(e, strip_transparent(x), lp, comp) for e, x in zip(target.elts, it[2])))
        if it[0] == "meth" and it[2] == "items" and not it[3] and isinstance(target, (ast.Tuple, ast.List)) and len(target.elts) == 2:
            k, v = target.elts
            rk = mk(k, ("key", it[1], lp.id)) if isinstance(k, ast.Name) else None
            if isinstance(v, ast.Name):
                rv = mk(v, ("val", it[1], lp.id))
            else:
                rv = self._destructure(v, ("val", it[1], lp.id), mk)
            return ("tuple", (rk, rv))
        if isinstance(target, ast.Name):
            return mk(target, elem_of(it))
        return self._destructure(target, elem_of(it), mk)

    def _destructure(self, target, val, mk):
        if isinstance(target, ast.Name):
            return mk(target, val)
        if isinstance(target, (ast.Tuple, ast.List)):
            return ("tuple", tuple(self._destructure(e, ("item", val, i), mk) for i, e in enumerate(target.elts)))
        if isinstance(target, ast.Starred):
            return self._destructure(target.value, val, mk)
        return ("unknown", ast.dump(target)[:40])

    # ---- statements ---------------------------------------------------------
    def block(self, stmts):
        pushed = 0
        for s in stmts:
            m = getattr(self, "s_" + type(s).__name__, None)
            if m is None:
                self.fact("unknown-stmt", type(s).__name__, None, None, None, s)
            else:
                m(s)
            # statements after an `if` that may leave the block (return/raise/continue/break,
            # possibly nested) run only when its exit condition is false
            if isinstance(s, ast.If):
                t_term = _terminates(s.body)
                f_term = _terminates(s.orelse) if s.orelse else False
                if t_term != f_term:
                    self.guards.append((self._if_tests.get(id(s), self._last_if_test), not t_term))
                    pushed += 1
                    # `if a: return .. elif b: return ..` -- the arm that falls through may itself end with an `if` that leaves
                    # on one side: what follows runs only when that exit condition is false too (elif chains of early returns)
                    arm = s.orelse if t_term else s.body
                    while arm and isinstance(arm[-1], ast.If) and id(arm[-1]) in self._if_tests:
                        inner = arm[-1]
                        i_t, i_f = _terminates(inner.body), (_terminates(inner.orelse) if inner.orelse else False)
                        if i_t == i_f:
                            break
                        self.guards.append((self._if_tests[id(inner)], not i_t))
                        pushed += 1
                        arm = inner.orelse if i_t else inner.body
                elif not t_term and not f_term and not self.keep_arms:
                    ec = self._exit_cond([s])
                    if ec is not None:
                        self.guards.append((ec, False))
                        pushed += 1
        for _ in range(pushed):
            self.guards.pop()

    def _exit_cond(self, stmts):
        """Condition (IR) under which the statement list leaves the enclosing block; None = never / unknown."""
        conds = []
        for st in stmts:
            if isinstance(st, (ast.Return, ast.Raise, ast.Continue, ast.Break)):
                return ("const", True)
            if isinstance(st, ast.If):
                c = self._if_tests.get(id(st))
                if c is None:
                    continue
                a = self._exit_cond(st.body)
                b = self._exit_cond(st.orelse) if st.orelse else None
                if a == ("const", True) and b == ("const", True):
                    return ("const", True)
                if a is not None:
                    conds.append(c if a == ("const", True) else ("bool", "And", (c, a)))
                if b is not None:
                    nc = ("unop", "Not", c)
                    conds.append(nc if b == ("const", True) else ("bool", "And", (nc, b)))
        if not conds:
            return None
        return conds[0] if len(conds) == 1 else ("bool", "Or", tuple(conds))

    def s_Assign(self, s):
        v = self.ev(s.value)
        for t in s.targets:
            self.bind(t, v, s)
            if isinstance(t, ast.Name):
                if isinstance(s.value, ast.Name) and v[0] not in ("const", "param", "global"):
                    self.alias_of[t.id] = s.value.id
                else:
                    self.alias_of.pop(t.id, None)

    def s_AnnAssign(self, s):
        if s.value is not None:
            self.bind(s.target, self.ev(s.value), s)

    def s_AugAssign(self, s):
        v = self.ev(s.value)
        op = type(s.op).__name__
        t = s.target
        if isinstance(t, ast.Name):
            cur = self.lookup(t.id)
            self.fact("augassign", t.id, None, op, v, s)
            self.env[t.id] = ("binop", op, cur, v)
        elif isinstance(t, ast.Subscript):
            base = t.value
            bname = base.id if isinstance(base, ast.Name) else ast.unparse(base)
            self.fact("augstore", bname, self.ev(t.slice), op, v, s, base=self.ev(base) if not isinstance(base, ast.Name) else None)
        elif isinstance(t, ast.Attribute):
            self.fact("attrstore", t.attr, None, op, v, s, obj=self.ev(t.value))

    def s_Expr(self, s):
        n = s.value
        if isinstance(n, ast.Call) and isinstance(n.func, ast.Attribute):
            f = n.func
            args = tuple(self.ev(a) for a in n.args)
            kws = tuple((k.arg or "**", self.ev(k.value)) for k in n.keywords)
            if isinstance(f.value, ast.Name) and f.value.id in self.env and self.env[f.value.id][0] != "param":
                name = f.value.id
                if f.attr in ("append", "add") and len(args) == 1:
                    self.fact("append", name, None, f.attr, args[0], s)
                    if name not in self.acc:
                        self.env[name] = ("appended", self.env[name], args[0])
                    return
                if f.attr == "remove" and len(args) == 1:
                    self.fact("remove", name, None, "remove", args[0], s)
                    if name not in self.acc:
                        cur = self.env[name]
                        if name in self.alias_of:
                            cur = ("aliased", cur, self.alias_of[name])
                        self.env[name] = ("removeone", cur, args[0])
                    return
                if f.attr in ("extend", "update", "insert", "pop", "clear", "sort", "reverse"):
                    self.fact("mutate", name, None, f.attr, args[0] if args else None, s, args=args)
                    if name not in self.acc:
                        if f.attr == "sort" and not args and all(k in ("key", "reverse") for k, _ in kws):
                            # the VALUE of a list after `L.sort(key=K)` is `sorted(L, key=K)` (the same stable sort)
                            self.env[name] = ("call", ("global", "sorted"), (self.env[name],), kws)
                        else:
                            self.env[name] = ("mutated", self.env[name], f.attr, args)
                    return
            self.fact("call", f.attr, None, None, ("meth", self.ev(f.value), f.attr, args, kws), s)
            return
        if isinstance(n, ast.Call):
            self.fact("call", ast.unparse(n.func), None, None, self.ev(n), s)
            return
        if isinstance(n, ast.Constant):
            return  # docstring
        self.fact("expr", "", None, None, self.ev(n), s)

    @staticmethod
    def _stored_in(body) -> set:
        out = set()
        for node in ast.walk(ast.Module(body=body, type_ignores=[])):
            if isinstance(node, (ast.Assign, ast.AugAssign)):
                tg = node.targets if isinstance(node, ast.Assign) else [node.target]
                for t in tg:
                    if isinstance(t, ast.Subscript) and isinstance(t.value, ast.Name):
                        out.add(t.value.id)
            elif isinstance(node, ast.Expr) and isinstance(node.value, ast.Call) and isinstance(node.value.func, ast.Attribute) \
                    and isinstance(node.value.func.value, ast.Name) and node.value.func.attr in ("append", "extend", "add", "update", "insert", "pop", "remove"):
                out.add(node.value.func.value.id)
        return out

    def _carry(self, body, lp):
        """Names assigned in a loop body and defined before it become loop-carried."""
        assigned = set()
        for node in ast.walk(ast.Module(body=body, type_ignores=[])):
            if isinstance(node, ast.Name) and isinstance(node.ctx, ast.Store):
                assigned.add(node.id)
            elif isinstance(node, ast.Expr) and isinstance(node.value, ast.Call) and isinstance(node.value.func, ast.Attribute) \
                    and isinstance(node.value.func.value, ast.Name) and node.value.func.attr in ("append", "remove", "extend", "update", "add", "insert", "pop"):
                assigned.add(node.value.func.value.id)
        return assigned

    @staticmethod
    def _iter_parts(it):
        """the iterables visited one after the other by `chain(A, B, ..)` / `itertools.chain(..)` / `chain.from_iterable([A, B])`
        (transparent wrappers stripped), or None"""
        it = strip_transparent(it)
        args = None
        if it[0] == "call" and it[1] == ("global", "chain") and not it[3]:
            args = it[2]
        elif it[0] == "meth" and it[1] == ("global", "itertools") and it[2] == "chain" and not it[4]:
            args = it[3]
        elif it[0] == "meth" and it[2] == "from_iterable" and it[1] in (("global", "chain"), ("attr", ("global", "itertools"), "chain")) and len(it[3]) == 1 \
                and it[3][0][0] in ("list", "tuple") and not it[4]:
            args = it[3][0][1]
        if not args or len(args) > 4 or any(a[0] == "star" for a in args):
            return None
        out = []
        for a in args:
            out.extend(Flow._iter_parts(a) or [strip_transparent(a)])
        return out

    def s_For(self, s, _it=None):
        it = strip_transparent(self.ev(s.iter)) if _it is None else _it
        # loop fission: `for T in chain(A, B): body` runs the body for the items of A, then for the items of B -- it is
        # `for T in A: body` followed by `for T in B: body` (no break / else that would tie the two together)
        parts = self._iter_parts(it) if _it is None and not s.orelse else None
        if parts and len(parts) > 1 and not any(isinstance(n, ast.Break) for b in s.body for n in ast.walk(b)):
            for part in parts:
                self.s_For(s, _it=part)
            return
        lp = Loop(next(self._uid), it, ast.unparse(s.target), s.lineno, nguards=len(self._guards()), gdepth=len(self._guards()))
        self.all_loops[lp.id] = lp
        assigned = self._carry(s.body, lp)
        pre = dict(self.env)
        for nm in assigned:
            if nm in pre and nm not in self.acc:
                self.env[nm] = ("carried", nm, lp.id)
        self.bind_iter(s.target, it, lp)
        self.loops.append(lp)
        self._loop_stored.append(self._stored_in(s.body))
        self.block(s.body)
        self._loop_stored.pop()
        self.loops.pop()
        for nm in assigned:
            if nm not in self.acc and nm in self.env:
                self.env[nm] = ("carried", nm, lp.id) if nm in pre else ("after", self.env[nm], lp.id)
        if s.orelse:
            self.block(s.orelse)

    def s_While(self, s):
        lp = Loop(next(self._uid), ("while", self.ev(s.test)), "", s.lineno, "while")
        self.all_loops[lp.id] = lp
        assigned = self._carry(s.body, lp)
        pre = dict(self.env)
        for nm in assigned:
            if nm in pre and nm not in self.acc:
                self.env[nm] = ("carried", nm, lp.id)
        self.loops.append(lp)
        self._loop_stored.append(self._stored_in(s.body))
        self.block(s.body)
        self._loop_stored.pop()
        self.loops.pop()
        for nm in assigned:
            if nm not in self.acc and nm in self.env:
                self.env[nm] = ("carried", nm, lp.id)

    def s_If(self, s):
        c = self.ev(s.test)
        self._cur_if = c
        self._if_tests[id(s)] = c
        pre = dict(self.env)
        self.guards.append((c, True))
        self.block(s.body)
        self.guards.pop()
        env_t = self.env
        self.env = dict(pre)
        self.guards.append((c, False))
        self.block(s.orelse)
        self.guards.pop()
        env_f = self.env
        merged = {}
        t_term = _terminates(s.body)
        f_term = _terminates(s.orelse) if s.orelse else False
        for nm in set(env_t) | set(env_f):
            a, b = env_t.get(nm), env_f.get(nm)
            if t_term and not f_term:
                merged[nm] = b if b is not None else a
                if self.keep_arms and b is not None and b != pre.get(nm):
                    merged[nm] = ("phi", c, ("undef",), b)
            elif f_term and not t_term:
                merged[nm] = a if a is not None else b
                if self.keep_arms and a is not None and a != pre.get(nm):
                    merged[nm] = ("phi", c, a, ("undef",))
            elif a == b and (a == pre.get(nm) or not self.keep_arms):
                merged[nm] = a
            else:
                merged[nm] = ("phi", c, a if a is not None else ("undef",), b if b is not None else ("undef",))
        self.env = merged
        self._last_if_test = c

    def s_Return(self, s):
        self.fact("return", "", None, None, self.ev(s.value) if s.value else ("const", None), s)

    def s_Raise(self, s):
        self.fact("raise", "", None, None, self.ev(s.exc) if s.exc else None, s)

    def s_Pass(self, s):
        pass

    def s_Break(self, s):
        self.fact("break", "", None, None, None, s)

    def s_Continue(self, s):
        self.fact("continue", "", None, None, None, s)

    def s_Assert(self, s):
        self.fact("assert", "", None, None, self.ev(s.test), s)

    def s_Delete(self, s):
        for t in s.targets:
            self.fact("delete", ast.unparse(t), None, None, None, s)

    def s_With(self, s):
        for item in s.items:
            v = self.ev(item.context_expr)
            if item.optional_vars is not None:
                self.bind(item.optional_vars, ("with", v), s)
        self.block(s.body)

    def s_Try(self, s):
        self.block(s.body)
        for h in s.handlers:
            self.guards.append((("except", ast.unparse(h.type) if h.type else ""), True))
            if h.name:
                self.env[h.name] = ("exc", h.name)
            self.block(h.body)
            self.guards.pop()
        self.block(s.orelse)
        self.block(s.finalbody)

    def s_FunctionDef(self, s):
        body = [b for b in s.body if not (isinstance(b, ast.Expr) and isinstance(b.value, ast.Constant))]
        if not s.decorator_list and len(body) == 1 and isinstance(body[0], ast.Return) and body[0].value is not None:
            # `def f(p): return e` used as a value (sort key, callback) is `lambda p: e`
            self.env[s.name] = self._closure(s.args, body[0].value)
            return
        self.env[s.name] = ("localfunc", s.name)

    def s_ClassDef(self, s):
        self.env[s.name] = ("localclass", s.name)

    def s_Import(self, s):
        pass

    def s_ImportFrom(self, s):
        pass

    def s_Global(self, s):
        pass

    def s_Nonlocal(self, s):
        pass


def phi_of_paths(rs):
    """[(value, [atomic guards])] of the mutually exclusive paths of a decision tree -> the value as nested phi, or None when the
    guards do not form a complete binary tree (a path missing, two values on one path).  Guards are the atomic guards Flow records
    (split_guard): the complement of `(a or b, True)` is the run `(a, False), (b, False)`."""
    if len(rs) == 1 and not rs[0][1]:
        return rs[0][0]
    if any(not gs for v, gs in rs):
        return None
    for c, pol in dict.fromkeys(gs[0] for v, gs in rs):
        neg = split_guard((c, not pol))
        t = [(v, gs[1:]) for v, gs in rs if gs[0] == (c, pol)]
        e = [(v, gs[len(neg):]) for v, gs in rs if gs[0] != (c, pol) and list(gs[:len(neg)]) == neg]
        if len(t) + len(e) != len(rs) or not t or not e:
            continue
        a, b = phi_of_paths(t), phi_of_paths(e)
        if a is None or b is None:
            continue
        return ("phi", c, a, b) if pol else ("phi", c, b, a)
    return None


def loop_built_seq(fl, name):
    """A local list created empty and then filled by ONE for-loop whose every iteration appends exactly one element -- on each path
    through the body (`t = a; if c: t = g(t); X.append(t)`, `if c: X.append(a); continue; X.append(b)`) -- is the comprehension
    `[elt for <targets> in <iter>]` written as a loop.  -> (Loop, elt) with the loop targets appearing in elt as elem/idx of that
    loop (the form expand_bvals gives a comprehension), or None when the list is built in any other way."""
    inits = [f for f in fl.facts if f.kind == "init" and f.target == name]
    muts = [f for f in fl.facts if f.target == name and f.kind in ("store", "augstore", "append", "remove", "mutate")]
    if len(inits) != 1 or inits[0].loops or not muts:
        return None
    iv = simp(inits[0].value)
    if iv not in (("list", ()), ("call", ("global", "list"), (), ())):
        return None
    if any(f.kind != "append" or f.op != "append" or len(f.loops) != 1 or f.loops[0] is not muts[0].loops[0] or f.seq < inits[0].seq for f in muts):
        return None
    lp = muts[0].loops[0]
    if lp.kind != "for" or any(f.kind in ("break", "return") and lp in f.loops for f in fl.facts):
        return None
    elt = phi_of_paths([(f.value, list(f.guards[lp.nguards:])) for f in muts])
    if elt is None or any(isinstance(x, tuple) and len(x) == 3 and x[0] in ("carried", "after") and x[2] == lp.id for x in walk(elt)) \
            or any(x == ("acc", name) for x in walk(elt)):
        return None
    return lp, elt


def _terminates(stmts) -> bool:
    return bool(stmts) and isinstance(stmts[-1], (ast.Return, ast.Raise, ast.Continue, ast.Break))


def strip_transparent(v):
    while v[0] == "call" and v[1][0] == "global" and v[1][1] in TRANSPARENT and len(v[2]) == 1 and not v[3]:
        v = v[2][0]
    return v


def flatten_fstr(v):
    if v[0] != "fstr":
        return v
    parts = []
    for p in v[1]:
        if p[0] == "fstr":
            parts.extend(flatten_fstr(p)[1])
        elif p[0] == "const" and isinstance(p[1], str) and parts and parts[-1][0] == "const":
            parts[-1] = ("const", parts[-1][1] + p[1])
        else:
            parts.append(p)
    if len(parts) == 1 and parts[0][0] == "const":
        return parts[0]
    if not parts:
        return ("const", "")
    return ("fstr", tuple(parts))


# ------------------------------------------------------------------ IR utilities

def subst(v, mapping: dict):
    """Replace sub-terms (exact match) by others, bottom-up."""
    if v in mapping:
        return mapping[v]
    if not isinstance(v, tuple):
        return v
    if len(v) == 4 and v[0] == "comp" and isinstance(v[3], tuple) and any(isinstance(k, tuple) and k and k[0] == "bv" for k in mapping):
        # capture-avoiding: a comprehension that binds a variable of the same identity (the same sub-term shared between two places,
        # e.g. `[y[i] for i in idxs]` inside a map that was itself composed over `idxs`) keeps its own variable
        m = mapping
        gens = []
        for g in v[3]:
            if not (isinstance(g, tuple) and len(g) == 3):
                break
            tg, it, ifs = g
            it2 = subst(it, m) if isinstance(it, tuple) else it
            bound = {x for x in walk(tg) if isinstance(x, tuple) and x and x[0] == "bv"} if isinstance(tg, tuple) else set()
            if bound & set(m):
                m = {k: x for k, x in m.items() if k not in bound}
            gens.append((tg, it2, tuple(subst(c, m) if isinstance(c, tuple) else c for c in ifs)))
        else:
            if m is not mapping:
                out = ("comp", v[1], subst(v[2], m) if isinstance(v[2], tuple) else v[2], tuple(gens))
                return mapping.get(out, out)
    out = tuple(subst(x, mapping) if isinstance(x, tuple) else x for x in v)
    return mapping.get(out, out)


def walk(v):
    yield v
    if isinstance(v, tuple):
        for x in v:
            if isinstance(x, tuple):
                yield from walk(x)


def contains(v, pred) -> bool:
    return any(pred(x) for x in walk(v))


def show(v, depth=0) -> str:
    """Compact human-readable rendering of an IR value for reports."""
    if not isinstance(v, tuple) or not v:
        return repr(v)
    k = v[0]
    try:
        if k == "const":
            return repr(v[1])
        if k in ("param", "global"):
            return v[1]
        if k == "bv":
            return v[1]
        if k == "attr":
            return f"{show(v[1])}.{v[2]}"
        if k == "fstr":
            return "f\"" + "".join(p[1] if p[0] == "const" else "{" + show(p[1] if p[0] == "fmt" else p) + (":" + str(p[2]) if p[0] == "fmt" and p[2] else "") + "}" for p in v[1]) + "\""
        if k == "join":
            return f"{show(v[1])}.join({show(v[2])})"
        if k in ("list", "tuple", "set"):
            o, c = {"list": "[]", "tuple": "()", "set": "{}"}[k]
            return o + ", ".join(show(x) for x in v[1]) + c
        if k == "star":
            return "*" + show(v[1])
        if k == "comp":
            gens = " ".join(f"for {show(t)} in {show(i)}" + "".join(f" if {show(c)}" for c in ifs) for t, i, ifs in v[3])
            return f"[{show(v[2])} {gens}]"
        if k == "elem":
            return f"elem#{v[2]}({show(v[1])})"
        if k == "idx":
            return f"index#{v[2]}({show(v[1])})"
        if k in ("key", "val"):
            return f"{k}#{v[2]}({show(v[1])})"
        if k == "item":
            return f"{show(v[1])}[{v[2]}]"
        if k == "call":
            return f"{show(v[1])}({', '.join([show(a) for a in v[2]] + [f'{kk}={show(x)}' for kk, x in v[3]])})"
        if k == "meth":
            return f"{show(v[1])}.{v[2]}({', '.join([show(a) for a in v[3]] + [f'{kk}={show(x)}' for kk, x in v[4]])})"
        if k == "binop":
            sym = {"Add": "+", "Sub": "-", "Mult": "*", "Div": "/", "Mod": "%", "FloorDiv": "//", "Pow": "**", "BitOr": "|", "BitAnd": "&"}.get(v[1], v[1])
            return f"({show(v[2])} {sym} {show(v[3])})"
        if k == "unop":
            return f"{v[1]}({show(v[2])})"
        if k == "cmp":
            sym = {"Eq": "==", "NotEq": "!=", "Lt": "<", "LtE": "<=", "Gt": ">", "GtE": ">=", "In": "in", "NotIn": "not in", "Is": "is", "IsNot": "is not"}
            s = show(v[2][0])
            for o, x in zip(v[1], v[2][1:]):
                s += f" {sym.get(o, o)} {show(x)}"
            return s
        if k == "bool":
            return "(" + (" and " if v[1] == "And" else " or ").join(show(x) for x in v[2]) + ")"
        if k == "ifexp":
            return f"({show(v[2])} if {show(v[1])} else {show(v[3])})"
        if k == "sub":
            return f"{show(v[1])}[{show(v[2])}]"
        if k == "slice":
            return ":".join("" if x == ("const", None) else show(x) for x in v[1:3])
        if k == "copy":
            return f"copy({show(v[1])})"
        if k == "removeone":
            return f"removeone({show(v[1])}, {show(v[2])})"
        if k == "appended":
            return f"({show(v[1])} ++ [{show(v[2])}])"
        if k == "phi":
            return f"phi({show(v[1])}; {show(v[2])}; {show(v[3])})"
        if k == "lambda":
            return f"(lambda {', '.join(p_[1] for p_ in v[1])}: {show(v[2])})"
        if k == "carried":
            return f"carried:{v[1]}"
        if k == "acc":
            return f"acc:{v[1]}"
        if k == "closure":
            return f"<function {v[1]}>"
    except Exception:
        pass
    return str(v)[:120]


# ------------------------------------------------------------------ sequences as maps

_fresh = itertools.count(1000000)


def as_map(v):
    """View a list-valued IR as `[body(bv) for bv in base if filters]`.
    -> (bv, body, base, filters) or None.  `base` is a non-comprehension value."""
    k = v[0]
    if k == "copy":
        return as_map(v[1])
    if k == "comp" and v[1] in ("list", "gen") and len(v[3]) == 1:
        tg, it, ifs = v[3][0]
        if tg is not None and tg[0] == "tuple" and it[0] == "call" and it[1] == ("global", "zip") and not it[3] \
                and len(tg[1]) == len(it[2]) and all(t is not None and t[0] == "bv" for t in tg[1]):
            # zip of unfiltered maps over one base: a single map over that base
            maps = [as_map(a) for a in it[2]]
            if all(m is not None and not m[3] for m in maps) and len({m[2] for m in maps}) == 1:
                e = ("bv", "_z", next(_fresh))
                sub = {t: simp(subst(m[1], {m[0]: e})) for t, m in zip(tg[1], maps)}
                return (e, simp(subst(v[2], sub)), maps[0][2], tuple(simp(subst(c, sub)) for c in ifs))
            return None
        if tg is not None and tg[0] == "tuple" and tg[1] and all(t is not None and t[0] == "bv" for t in tg[1]):
            # `for a, b in S` over any other sequence: a and b are the items of S's element -- the parts of the pair when S is itself a
            # map that builds pairs (`[(f(r), g(r)) for r in R]`), so the composition is one map over R
            inner = as_map(it) if it[0] in ("comp", "copy") else None
            if inner is not None:
                bv2, body2, base2, ifs2 = inner
                if body2[0] in ("tuple", "list") and len(body2[1]) == len(tg[1]) and not any(x[0] == "star" for x in body2[1]):
                    m = dict(zip(tg[1], body2[1]))
                else:
                    m = {t: ("item", body2, i) for i, t in enumerate(tg[1])}
                return (bv2, simp(subst(v[2], m)), base2, tuple(ifs2) + tuple(simp(subst(c, m)) for c in ifs))
            e = ("bv", "_t", next(_fresh))
            m = {t: ("item", e, i) for i, t in enumerate(tg[1])}
            return (e, simp(subst(v[2], m)), it, tuple(simp(subst(c, m)) for c in ifs))
        if tg is None or tg[0] != "bv":
            return None
        if it[0] == "call" and it[1] == ("global", "zip") and not it[3] and it[2]:
            # `for pair in zip(A, B)` with the pair kept whole: the same single map, the variable standing for the tuple of bodies
            maps = [as_map(a) for a in it[2]]
            if all(m is not None and not m[3] for m in maps) and len({m[2] for m in maps}) == 1:
                e = ("bv", "_z", next(_fresh))
                sub = {tg: ("tuple", tuple(simp(subst(m[1], {m[0]: e})) for m in maps))}
                return (e, simp(subst(v[2], sub)), maps[0][2], tuple(simp(subst(c, sub)) for c in ifs))
        inner = as_map(it) if it[0] in ("comp", "copy") else None
        if inner is None:
            return (tg, v[2], it, tuple(ifs))
        bv2, body2, base2, ifs2 = inner
        m = {tg: body2}
        return (bv2, simp(subst(v[2], m)), base2, tuple(ifs2) + tuple(simp(subst(c, m)) for c in ifs))
    if k in ("attr", "param", "global", "elem", "val", "sub", "item", "meth", "call"):
        bv = ("bv", "_x", next(_fresh))
        return (bv, bv, v, ())
    return None


def record_fields(v, class_of=None):
    """The projections of a freshly built record value, whatever the representation:  {path: value IR}  with path
    ("sub", k) for `r[k]`, ("attr", name) for `r.name`, ("len",) for `len(r)`.

      [a, b] / (a, b)                     {("sub", 0): a, ("sub", 1): b, ("len",): 2}
      {"k": a}                            {("sub", "k"): a, ("len",): 1}
      C(a, y=b)  with C a dataclass / typing.NamedTuple class, a `namedtuple("C", ..)`, or a class whose __init__ stores its
                 parameters / constants into self: {("attr", field): value, ...} (defaults filled in; for named tuples also ("sub", i))

    `class_of(name)` -> the ClassDef, or the `namedtuple(..)` Call bound to that name at module level, or None.  None when the
    value is not such a display / constructor call."""
    v = simp(v)
    if v[0] in ("list", "tuple"):
        if any(e[0] == "star" for e in v[1]):
            return None
        d = {("sub", i): e for i, e in enumerate(v[1])}
        d[("len",)] = ("const", len(v[1]))
        return d
    if v[0] == "dict":
        if not all(k[0] == "const" for k, _ in v[1]):
            return None
        d = {("sub", k[1]): x for k, x in v[1]}
        d[("len",)] = ("const", len(v[1]))
        return d
    if v[0] == "record" and len(v) >= 3:
        # a record already reconstructed by Flow (a namedtuple row written out by normalisation, a dataclass / NamedTuple built from
        # known field values): fields by name; for named tuples (and rows of unknown type) by position as well
        d = {("attr", nm): x for nm, x in v[2]}
        cd_ = class_of(v[1]) if class_of is not None and isinstance(v[1], str) and v[1].isidentifier() else None
        if not (isinstance(cd_, ast.ClassDef) and any("dataclass" in ast.unparse(d_) for d_ in cd_.decorator_list)):
            d.update({("sub", i): x for i, (_, x) in enumerate(v[2])})
            d[("len",)] = ("const", len(v[2]))
        return d
    if v[0] != "call" or v[1][0] != "global" or class_of is None or any(a[0] == "star" for a in v[2]) or any(k == "**" for k, _ in v[3]):
        return None
    cd = class_of(v[1][1])
    fields, defaults, tup = None, {}, False
    if isinstance(cd, ast.Call) and ast.unparse(cd.func).split(".")[-1] == "namedtuple" and len(cd.args) >= 2:
        spec = cd.args[1]
        if isinstance(spec, ast.Constant) and isinstance(spec.value, str):
            fields = spec.value.replace(",", " ").split()
        elif isinstance(spec, (ast.List, ast.Tuple)) and all(isinstance(e, ast.Constant) and isinstance(e.value, str) for e in spec.elts):
            fields = [e.value for e in spec.elts]
        dn = next((k.value for k in cd.keywords if k.arg == "defaults"), None)
        if fields is not None and isinstance(dn, (ast.List, ast.Tuple)) and all(isinstance(e, ast.Constant) for e in dn.elts):
            defaults = {f: ("const", e.value) for f, e in zip(fields[len(fields) - len(dn.elts):], dn.elts)}
        elif dn is not None:
            fields = None
        tup = True
    elif isinstance(cd, ast.ClassDef):
        is_dc = any("dataclass" in ast.unparse(d) for d in cd.decorator_list)
        is_nt = any(ast.unparse(b).split(".")[-1] == "NamedTuple" for b in cd.bases)
        init = next((m for m in cd.body if isinstance(m, ast.FunctionDef) and m.name == "__init__"), None)
        if (is_dc or is_nt) and init is None and (is_nt or not cd.bases):
            fields = []
            for st in cd.body:
                if isinstance(st, ast.AnnAssign) and isinstance(st.target, ast.Name) and "ClassVar" not in ast.unparse(st.annotation):
                    fields.append(st.target.id)
                    if st.value is not None:
                        if not isinstance(st.value, ast.Constant):
                            return None
                        defaults[st.target.id] = ("const", st.value.value)
            tup = is_nt
        elif init is not None and not cd.bases and not init.args.vararg and not init.args.kwarg and not init.args.kwonlyargs:
            # a plain class: the fields are what __init__ stores into self, unconditionally, from its parameters / constants
            params = [a.arg for a in init.args.args]
            try:
                fl = Flow(init, "")
            except Exception:
                return None
            stores = [f for f in fl.facts if f.kind == "attrstore"]
            if not params or any(f.guards or f.loops or f.op != "=" or f.extra.get("obj") != ("param", params[0]) for f in stores) \
                    or any(f.kind in ("return", "raise", "call", "store", "augstore") and not (f.kind == "return" and f.value in (None, ("const", None))) for f in fl.facts):
                return None
            pdef = dict(zip(params[len(params) - len(init.args.defaults):], init.args.defaults))
            given = dict(zip(params[1:], v[2]))
            for k, x in v[3]:
                if k in given or k not in params[1:]:
                    return None
                given[k] = x
            for p_ in params[1:]:
                if p_ not in given:
                    if p_ not in pdef or not isinstance(pdef[p_], ast.Constant):
                        return None
                    given[p_] = ("const", pdef[p_].value)
            if len(v[2]) > len(params) - 1:
                return None
            m = {("param", p_): x for p_, x in given.items()}
            d = {}
            for f in stores:
                d[("attr", f.target)] = simp(subst(simp(f.value), m))
            return d
    if fields is None:
        return None
    if len(v[2]) > len(fields):
        return None
    given = dict(zip(fields, v[2]))
    for k, x in v[3]:
        if k in given or k not in fields:
            return None
        given[k] = x
    d = {}
    for i, f in enumerate(fields):
        if f not in given:
            if f not in defaults:
                return None
            given[f] = defaults[f]
        d[("attr", f)] = given[f]
        if tup:
            d[("sub", i)] = given[f]
    if tup:
        d[("len",)] = ("const", len(fields))
    return d


def projection(x, e):
    """the path (as used by record_fields) that the expression `x` reads off the record `e`: `e[k]` -> ("sub", k), `e.name` ->
    ("attr", name), `len(e)` -> ("len",), `e` itself -> (); None when x is anything else"""
    if x == e:
        return ()
    if x[0] == "sub" and x[1] == e and x[2][0] == "const":
        return ("sub", x[2][1])
    if x[0] == "attr" and x[1] == e:
        return ("attr", x[2])
    if x[0] == "call" and x[1] == ("global", "len") and x[2] == (e,) and not x[3]:
        return ("len",)
    return None


def as_dict_map(v):
    """View a dict-valued IR as `{kbody: vbody for K, X in T.items() if filters}`  ->  (K, X, kbody, vbody, T, filters) or None, with
    K / X bound variables standing for a key of T and its value.  Understood: T itself, copies (`T.copy()`, `dict(T)`), a dict
    comprehension over `T.items()` (or over a map of it), `dict(zip(<unfiltered map over T / T.keys()>, <unfiltered map over
    T.values()>))` and `dict(<pairs>)` -- the spellings of "T re-keyed / re-valued entry by entry"."""
    K, X = ("bv", "_k", next(_fresh)), ("bv", "_v", next(_fresh))
    while v[0] == "copy" or (v[0] == "call" and v[1] in (("global", "dict"), ("global", "OrderedDict")) and len(v[2]) == 1 and not v[3] and v[2][0][0] != "comp"
                             and not (v[2][0][0] == "call" and v[2][0][1] == ("global", "zip"))):
        v = v[1] if v[0] == "copy" else v[2][0]
    if v[0] == "call" and v[1] in (("global", "dict"), ("global", "OrderedDict")) and len(v[2]) == 1 and not v[3]:
        inner = v[2][0]
        if inner[0] == "call" and inner[1] == ("global", "zip") and len(inner[2]) == 2 and not inner[3]:
            mk, mv = as_map(inner[2][0]), as_map(inner[2][1])
            if mk is None or mv is None or mk[3] or mv[3]:
                return None
            tk = mk[2][1] if mk[2][0] == "meth" and mk[2][2] == "keys" and not mk[2][3] else mk[2]
            if not (mv[2][0] == "meth" and mv[2][2] == "values" and not mv[2][3] and mv[2][1] == tk):
                return None
            return (K, X, simp(subst(mk[1], {mk[0]: K})), simp(subst(mv[1], {mv[0]: X})), tk, ())
        if inner[0] == "comp" and inner[1] in ("list", "gen"):
            v = ("comp", "dict", inner[2], inner[3])        # dict(<pairs>) of a comprehension of pairs
        else:
            return None
    if v[0] == "comp" and v[1] == "dict" and len(v[3]) == 1:
        tg, it, ifs = v[3][0]
        if v[2][0] != "tuple" or len(v[2][1]) != 2:
            return None
        if it[0] == "meth" and it[2] == "items" and not it[3] and tg is not None and tg[0] == "tuple" and len(tg[1]) == 2 \
                and all(t is not None and t[0] == "bv" for t in tg[1]):
            sub = {tg[1][0]: K, tg[1][1]: X}
            return (K, X, simp(subst(v[2][1][0], sub)), simp(subst(v[2][1][1], sub)), it[1], tuple(simp(subst(c, sub)) for c in ifs))
        if tg is not None and tg[0] == "bv" and (it[0] in ("attr", "param", "global") or (it[0] == "meth" and it[2] == "keys" and not it[3])):
            # over the keys, the value looked up: {f(k): T[k] for k in T}
            T = it[1] if it[0] == "meth" else it
            sub = {("sub", T, tg): X, tg: K}
            return (K, X, simp(subst(v[2][1][0], sub)), simp(subst(v[2][1][1], sub)), T, tuple(simp(subst(c, sub)) for c in ifs))
        return None
    if v[0] in ("attr", "param", "global"):
        return (K, X, K, X, v, ())
    return None


def seq_base(v):
    """Base sequence of a position-preserving (unfiltered, one-to-one) view, else None."""
    if v[0] in ("phi", "ifexp"):
        a, b = seq_base(v[2]), seq_base(v[3])
        return a if a == b else None
    if v[0] in ("comp", "copy"):
        m = as_map(v)
        return m[2] if m and not m[3] else None
    if v[0] in ("attr", "param"):
        return v
    return None


def prefix_map(v):
    """Map describing the leading len(base) elements of a list value."""
    k = v[0]
    if k == "appended":
        return prefix_map(v[1])
    if k == "phi":
        a, b = prefix_map(v[2]), prefix_map(v[3])
        if a and b and norm_bv(a) == norm_bv(b):
            return a
        return None
    return as_map(v)


def norm_bv(m):
    bv, body, base, ifs = m
    z = ("bv", "_", 0)
    return (simp(subst(body, {bv: z})), base, tuple(simp(subst(c, {bv: z})) for c in ifs))


_RE_NARGS = {"sub": (2, 3), "subn": (2, 3), "split": (1, 2), "findall": (1, 1), "finditer": (1, 1), "search": (1, 1), "match": (1, 1), "fullmatch": (1, 1)}


def _const_tree(v, depth=0) -> bool:
    """a conditional value (phi / ifexp tree) whose every leaf is a constant"""
    if v[0] in ("phi", "ifexp") and len(v) == 4 and depth < 64:
        return _const_tree(v[2], depth + 1) and _const_tree(v[3], depth + 1)
    return v[0] == "const"


def _value_tree(v, depth=0) -> bool:
    """a conditional value whose every leaf is visibly None or visibly not None (a constant, a closure, text, a display, a record)"""
    if v[0] in ("phi", "ifexp") and len(v) == 4 and depth < 64:
        return _value_tree(v[2], depth + 1) and _value_tree(v[3], depth + 1)
    return v[0] in ("const", "lambda", "fstr", "list", "tuple", "dict", "set", "record")


def _map_leaves(v, f):
    if v[0] in ("phi", "ifexp") and len(v) == 4:
        return (v[0], v[1], _map_leaves(v[2], f), _map_leaves(v[3], f))
    return f(v)


def _bool_of_tree(v):
    """the condition a phi tree with True / False leaves states: `c ? True : (d ? False : True)` is `c or not d`"""
    if v[0] not in ("phi", "ifexp"):
        return v
    c, a, b = v[1], _bool_of_tree(v[2]), _bool_of_tree(v[3])
    T, F = ("const", True), ("const", False)
    neg = ("unop", "Not", c)

    def join(op, x, y):
        parts = tuple(z for w in (x, y) for z in (w[2] if w[0] == "bool" and w[1] == op else (w,)))
        return ("bool", op, parts)
    if a == b:
        return a
    if (a, b) == (T, F):
        return c
    if (a, b) == (F, T):
        return neg
    if a == F:
        return join("And", neg, b)
    if a == T:
        return join("Or", c, b)
    if b == F:
        return join("And", c, a)
    if b == T:
        return join("Or", neg, a)
    return (v[0], c, a, b)


def _simp_selection(v):
    """First-match selection from a table of known rows, and what is done with the selected constant:

        next((E(r) for r in <display> if C(r)), D)   ->  phi(C(r1), E(r1), phi(C(r2), E(r2), .. D))     (the scan written out; without D the
                                                         last arm is the StopIteration the call raises)
        <conditional constant> is None / == K        ->  the condition under which the selected constant satisfies the test
        getattr(x, <conditional constant>)           ->  the conditional of the attributes x.<name>
        <conditional callable>(args)                 ->  the conditional of the calls  (x.<name>(args) is the method call)

    so that `name = next(..table..); if name is None: raise; getattr(self, name)(reac)` is read as the if/elif chain of method calls it
    abbreviates.  None when `v` is none of these."""
    k = v[0]
    if k == "call" and v[1] == ("global", "next") and len(v[2]) in (1, 2) and not v[3]:
        src = v[2][0]
        dflt = v[2][1] if len(v[2]) == 2 else ("raise", ("global", "StopIteration"))
        if src[0] == "list" and not any(e[0] == "star" for e in src[1]):
            return src[1][0] if src[1] else dflt           # (a generator over known rows whose filters were all decided)
        if src[0] == "comp" and src[1] == "gen" and len(src[3]) == 1 and src[3][0][0] is not None and src[3][0][1][0] in ("tuple", "list") \
                and 0 < len(src[3][0][1][1]) <= 64 and not any(e[0] == "star" for e in src[3][0][1][1]):
            tg, it, ifs = src[3][0]
            names = [tg] if tg[0] == "bv" else list(tg[1]) if tg[0] == "tuple" and all(t is not None and t[0] == "bv" for t in tg[1]) else None
            rows = []
            for e in (it[1] if names is not None else ()):
                if tg[0] == "bv":
                    rows.append({tg: e})
                elif e[0] in ("tuple", "list") and len(e[1]) == len(names) and not any(x[0] == "star" for x in e[1]):
                    rows.append(dict(zip(names, e[1])))
                else:
                    rows = None
                    break
            if rows:
                out = dflt
                for m in reversed(rows):
                    conds = [simp(subst(c_, m)) for c_ in ifs]
                    cond = conds[0] if len(conds) == 1 else ("bool", "And", tuple(conds)) if conds else ("const", True)
                    t = truthy(cond) if cond[0] == "const" else None
                    elt = simp(subst(src[2], m))
                    out = elt if t is True else out if t is False else ("phi", cond, elt, out)
                return out
    if k == "cmp" and len(v[1]) == 1 and v[1][0] in ("Is", "IsNot", "Eq", "NotEq") and len(v[2]) == 2 and v[2][0][0] == "const" and v[2][1][0] == "const":
        # two literals compared (a default `convert=None` tested with `is None` once the helper is back in place)
        x, y = v[2][0][1], v[2][1][1]
        if v[1][0] in ("Is", "IsNot") and (x is None or y is None or (isinstance(x, bool) and isinstance(y, bool))):
            return ("const", (x is y) == (v[1][0] == "Is"))
        if v[1][0] in ("Eq", "NotEq") and type(x) is type(y) and isinstance(x, (str, int, bool, type(None))):
            return ("const", (x == y) == (v[1][0] == "Eq"))
    if k in ("ifexp", "phi") and len(v) == 4 and v[1][0] == "const":
        return v[2] if v[1][1] else v[3]
    if k == "cmp" and len(v[1]) == 1 and v[1][0] in ("Is", "IsNot", "Eq", "NotEq") and len(v[2]) == 2:
        a, b = v[2]
        tree, other = (a, b) if a[0] in ("phi", "ifexp") else (b, a)
        if tree[0] in ("phi", "ifexp") and other == ("const", None) and v[1][0] in ("Is", "IsNot") and not _const_tree(tree) and _value_tree(tree):
            # (a selected closure / text / display is not None; only the literal None is)
            return _bool_of_tree(_map_leaves(tree, lambda leaf: ("const", (leaf == ("const", None)) == (v[1][0] == "Is"))))
        if tree[0] in ("phi", "ifexp") and other[0] == "const" and _const_tree(tree) \
                and (v[1][0] in ("Eq", "NotEq") or other[1] is None or isinstance(other[1], bool)):
            def test(leaf):
                same = (leaf[1] is other[1]) if v[1][0] in ("Is", "IsNot") else (type(leaf[1]) is type(other[1]) and leaf[1] == other[1]) or \
                    (not isinstance(leaf[1], (str, type(None))) and not isinstance(other[1], (str, type(None))) and leaf[1] == other[1])
                return ("const", same if v[1][0] in ("Is", "Eq") else not same)
            return _bool_of_tree(_map_leaves(tree, test))
    if k == "call" and v[1] == ("global", "getattr") and len(v[2]) == 2 and not v[3] and v[2][1][0] in ("phi", "ifexp") and _const_tree(v[2][1]):
        return _map_leaves(v[2][1], lambda leaf: ("attr", v[2][0], leaf[1]) if isinstance(leaf[1], str) and leaf[1].isidentifier()
                           else ("call", ("global", "getattr"), (v[2][0], leaf), ()))
    if k == "call" and v[1][0] in ("phi", "ifexp") and len(v[1]) == 4:
        leaves = []
        _map_leaves(v[1], lambda leaf: leaves.append(leaf) or leaf)
        if any(l_[0] == "attr" for l_ in leaves) and all(l_[0] == "attr" or (l_[0] == "call" and l_[1] == ("global", "getattr")) for l_ in leaves):
            return _map_leaves(v[1], lambda f: ("meth", f[1], f[2], v[2], v[3]) if f[0] == "attr" else ("call", f, v[2], v[3]))
        # a closure selected from a table and called: the conditional of the bodies with the parameters bound
        if any(l_[0] == "lambda" for l_ in leaves) and not v[3] and not any(a_[0] == "star" for a_ in v[2]) \
                and all((l_[0] == "lambda" and len(l_[1]) == len(v[2])) or l_ == ("const", None) or l_[0] == "raise" for l_ in leaves):
            return _map_leaves(v[1], lambda f: simp(subst(f[2], dict(zip(f[1], v[2])))) if f[0] == "lambda" else f if f[0] == "raise" else ("call", f, v[2], v[3]))
    return None


def simp(v):
    """Bottom-up simplification with the two rewrite rules of DESIGN E2."""
    if not isinstance(v, tuple) or not v:
        return v
    k = v[0]
    if k in ("const", "param", "global", "bv", "acc", "carried", "unknown"):
        return v
    v = tuple(simp(x) if isinstance(x, tuple) and x and isinstance(x[0], str) else
              (tuple(simp(y) if isinstance(y, tuple) and y and isinstance(y[0], str) else
                     (tuple(simp(z) if isinstance(z, tuple) and z and isinstance(z[0], str) else z for z in y) if isinstance(y, tuple) else y)
                     for y in x) if isinstance(x, tuple) else x)
              for x in v)
    k = v[0]
    if k == "fstr":
        parts = []
        for p in v[1]:
            if p[0] == "fmt" and p[2] is None and p[3] == -1:
                inner = p[1]
                if inner[0] == "call" and inner[1] == ("global", "str") and len(inner[2]) == 1 and not inner[3]:
                    inner = inner[2][0]                     # f"{str(x)}" / "a" + str(x) print x
                    p = ("fmt", inner, None, -1)
                if inner[0] == "const" and isinstance(inner[1], str):
                    parts.append(inner)
                    continue
                if inner[0] == "const" and type(inner[1]) is int:
                    parts.append(("const", str(inner[1])))       # f">{WIDTH}" with WIDTH a known integer constant
                    continue
                if inner[0] == "fstr":
                    parts.extend(inner[1])
                    continue
            parts.append(p)
        return flatten_fstr(("fstr", tuple(parts)))
    # ---- first-match selection from a table and the conditional value it yields (values only, nothing is run) ----
    r_ = _simp_selection(v)
    if r_ is not None:
        return r_
    # ---- the same string / list spelled with builtins instead of displays (values only, nothing is run) ----
    if k == "call" and v[1][0] == "global" and not v[3]:
        fn, args = v[1][1], v[2]
        # format(x, "spec") is f"{x:spec}"
        if fn == "format" and len(args) in (1, 2) and (len(args) == 1 or (args[1][0] == "const" and isinstance(args[1][1], str))):
            return ("fstr", (("fmt", args[0], (args[1][1] or None) if len(args) == 2 else None, -1),))
        # getattr(x, "name") is x.name
        if fn == "getattr" and len(args) == 2 and args[1][0] == "const" and isinstance(args[1][1], str) and args[1][1].isidentifier():
            return ("attr", args[0], args[1][1])
    # map(f, S) / filter(p, S) with f, p a lambda (or a nested one-return def), operator.attrgetter("a") / itemgetter(i) / methodcaller("m"):
    # the generator expressions (f(x) for x in S) / (x for x in S if p(x)) they are equal to
    if k == "call" and v[1] in (("global", "map"), ("global", "filter")) and len(v[2]) == 2 and not v[3]:
        f, S = v[2]
        bv = ("bv", "_m", next(_fresh))
        body = None
        if f[0] == "lambda" and len(f[1]) == 1:
            body = simp(subst(f[2], {f[1][0]: bv}))
        elif (f[0] == "call" and f[1] in (("global", "attrgetter"), ("global", "itemgetter")) and len(f[2]) == 1 and not f[3]) or \
                (f[0] == "meth" and f[1] == ("global", "operator") and f[2] in ("attrgetter", "itemgetter") and len(f[3]) == 1 and not f[4]):
            which = f[1][1] if f[0] == "call" else f[2]
            arg = (f[2] if f[0] == "call" else f[3])[0]
            if which == "attrgetter" and arg[0] == "const" and isinstance(arg[1], str) and arg[1].isidentifier():
                body = ("attr", bv, arg[1])
            elif which == "itemgetter" and arg[0] == "const":
                body = simp(("sub", bv, arg))
        elif (f[0] == "call" and f[1] == ("global", "methodcaller") and f[2]) or (f[0] == "meth" and f[1] == ("global", "operator") and f[2] == "methodcaller" and f[3]):
            # operator.methodcaller("name", *args, **kws)(x) is x.name(*args, **kws)
            margs, mkws = (f[2], f[3]) if f[0] == "call" else (f[3], f[4])
            if margs[0][0] == "const" and isinstance(margs[0][1], str) and margs[0][1].isidentifier() and not any(a_[0] == "star" for a_ in margs):
                body = ("meth", bv, margs[0][1], tuple(margs[1:]), tuple(mkws))
        if body is not None:
            if v[1][1] == "map":
                return ("comp", "gen", body, ((bv, S, ()),))
            return ("comp", "gen", bv, ((bv, S, (body,)),))
    # list(<generator expression>) is the list comprehension (as Flow.e_Call reads it when the argument is written as one)
    if k == "call" and v[1] in (("global", "list"), ("global", "tuple")) and len(v[2]) == 1 and not v[3] and v[2][0][0] == "comp" and v[2][0][1] in ("gen", "list"):
        return ("comp", "list") + tuple(v[2][0][2:])
    # re.compile(P).finditer(s) is re.finditer(P, s): a scan through a compiled pattern (held in a local, say) and through the
    # module-level function are the same scan (only with the arguments both spellings take: no pos / endpos)
    if k == "meth" and v[1][0] == "call" and v[1][1] == ("attr", ("global", "re"), "compile") and len(v[1][2]) == 1 and not v[1][3] and not v[4] \
            and v[2] in _RE_NARGS and _RE_NARGS[v[2]][0] <= len(v[3]) <= _RE_NARGS[v[2]][1]:
        return ("meth", ("global", "re"), v[2], (v[1][2][0],) + tuple(v[3]), ())
    # functools.reduce(lambda acc, x: body, <display of known elements>, init) is the left fold written out:
    # body[acc:=body[acc:=init, x:=e1], x:=e2] ...   (e.g. a chain of str.replace driven by a table of pairs)
    if k == "call" and v[1] in (("global", "reduce"), ("attr", ("global", "functools"), "reduce")) and len(v[2]) == 3 and not v[3] \
            and v[2][0][0] == "lambda" and len(v[2][0][1]) == 2 and v[2][1][0] in ("tuple", "list") and len(v[2][1][1]) <= 16 \
            and not any(e[0] == "star" for e in v[2][1][1]):
        (p_acc, p_x), body = v[2][0][1], v[2][0][2]
        acc = v[2][2]
        for e in v[2][1][1]:
            acc = simp(subst(body, {p_acc: acc, p_x: e}))
        return acc
    # map(f, X) is the generator (f(x) for x in X)
    if k == "call" and v[1] == ("global", "map") and len(v[2]) == 2 and not v[3] and v[2][0][0] in ("global", "attr", "lambda", "param"):
        bv = ("bv", "_m", next(_fresh))
        fv = v[2][0]
        elt = simp(subst(fv[2], {fv[1][0]: bv})) if fv[0] == "lambda" and len(fv[1]) == 1 else ("call", fv, (bv,), ())
        return ("comp", "gen", elt, ((bv, v[2][1], ()),))
    # a call with a starred display among its arguments passes the elements: f(*("a", "b")) == f("a", "b")
    if k in ("call", "meth"):
        ai = 2 if k == "call" else 3
        if any(e[0] == "star" and e[1][0] in ("list", "tuple") and not any(x[0] == "star" for x in e[1][1]) for e in v[ai]):
            args = tuple(x for e in v[ai] for x in (e[1][1] if e[0] == "star" and e[1][0] in ("list", "tuple") and not any(y[0] == "star" for y in e[1][1]) else (e,)))
            return simp(v[:ai] + (args,) + v[ai + 1:])
    # operator.attrgetter("a", "b")(x) is (x.a, x.b); attrgetter("a")(x) is x.a; itemgetter(i, j)(x) is (x[i], x[j])
    if k == "call" and len(v[2]) == 1 and not v[3] and v[2][0][0] != "star":
        g = v[1]
        which, names = (g[1][1], g[2]) if g[0] == "call" and g[1] in (("global", "attrgetter"), ("global", "itemgetter")) and not g[3] else \
            (g[2], g[3]) if g[0] == "meth" and g[1] == ("global", "operator") and g[2] in ("attrgetter", "itemgetter") and not g[4] else (None, ())
        if which == "attrgetter" and names and all(n_[0] == "const" and isinstance(n_[1], str) and all(p_.isidentifier() for p_ in n_[1].split(".")) for n_ in names):
            def dotted(x, path):
                for p_ in path.split("."):
                    x = ("attr", x, p_)
                return x
            got = tuple(dotted(v[2][0], n_[1]) for n_ in names)
            return got[0] if len(got) == 1 else ("tuple", got)
        if which == "itemgetter" and names and all(n_[0] == "const" for n_ in names):
            got = tuple(simp(("sub", v[2][0], n_)) for n_ in names)
            return got[0] if len(got) == 1 else ("tuple", got)
    # a display with a starred display inside is one display: [a, *[b, c], d] == [a, b, c, d]
    if k in ("list", "tuple", "set") and any(e[0] == "star" and e[1][0] in ("list", "tuple") for e in v[1]):
        elts = []
        for e in v[1]:
            if e[0] == "star" and e[1][0] in ("list", "tuple"):
                elts.extend(e[1][1])
            else:
                elts.append(e)
        return simp((k, tuple(elts)))
    # a slice of an unfiltered one-to-one list comprehension is the comprehension over the slice: [f(x) for x in L][a:b] == [f(x) for x in L[a:b]]
    if k == "sub" and v[2][0] == "slice" and v[1][0] == "comp" and v[1][1] == "list" and len(v[1][3]) == 1 and not v[1][3][0][2] \
            and v[1][3][0][0] is not None and v[1][3][0][0][0] == "bv":
        tg, it, _ = v[1][3][0]
        return simp(("comp", "list", v[1][2], ((tg, ("sub", it, v[2]), ()),)))
    # ... and one element of it is the element expression at that position: [f(x) for x in L][k] == f(L[k])  (also when the
    # comprehension is destructured: `a, *mid, z = [f(x) for x in L]`)
    if k in ("sub", "item") and v[1][0] == "comp" and (v[1][1] == "list" or (v[1][1] == "gen" and k == "item")) and len(v[1][3]) == 1 and not v[1][3][0][2] \
            and v[1][3][0][0] is not None and v[1][3][0][0][0] == "bv":
        tg, it, _ = v[1][3][0]
        pos = v[2]
        if k == "sub" and ((pos[0] == "const" and type(pos[1]) is int) or (pos[0] == "unop" and pos[1] == "USub" and pos[2][0] == "const" and type(pos[2][1]) is int)):
            return simp(subst(v[1][2], {tg: ("sub", it, pos)}))
        if k == "item" and isinstance(pos, int):
            return simp(subst(v[1][2], {tg: ("item", it, pos)}))
        if k == "item" and isinstance(pos, tuple) and pos and pos[0] == "star":
            return simp(("comp", "list", v[1][2], ((tg, ("item", it, pos), ()),)))
    # a position table: {x: i for i, x in enumerate(L)}[k] is L.index(k) for a list of distinct elements (the species list: one slot per
    # species, C09) -- the O(1) spelling of the same lookup
    if k == "sub" and v[1][0] == "comp" and v[1][1] == "dict" and len(v[1][3]) == 1 and v[1][2][0] == "tuple" and len(v[1][2][1]) == 2:
        tg, it, ifs = v[1][3][0]
        if not ifs and tg is not None and tg[0] == "tuple" and len(tg[1]) == 2 and it[0] == "call" and it[1] == ("global", "enumerate") and len(it[2]) == 1 and not it[3] \
                and v[1][2][1][0] == tg[1][1] and v[1][2][1][1] == tg[1][0] and tg[1][0] != tg[1][1]:
            return simp(("meth", it[2][0], "index", (v[2],), ()))
    # a record keyed by literal names: dict(zip(("a", "b"), X))["b"] is X[1]
    if k == "sub" and v[2][0] == "const" and v[1][0] == "call" and v[1][1] == ("global", "dict") and len(v[1][2]) == 1 and not v[1][3] \
            and v[1][2][0][0] == "call" and v[1][2][0][1] == ("global", "zip") and len(v[1][2][0][2]) == 2 and not v[1][2][0][3] \
            and v[1][2][0][2][0][0] in ("tuple", "list") and all(e[0] == "const" for e in v[1][2][0][2][0][1]):
        names = [e[1] for e in v[1][2][0][2][0][1]]
        if names.count(v[2][1]) == 1:
            return simp(("sub", v[1][2][0][2][1], ("const", names.index(v[2][1]))))
    # "ab" * 3
    if k == "binop" and v[1] == "Mult" and {v[2][0], v[3][0]} == {"const"}:
        a, b = v[2][1], v[3][1]
        if isinstance(a, int) and isinstance(b, str):
            a, b = b, a
        if isinstance(a, str) and type(b) is int and 0 <= b * len(a) <= 256:
            return ("const", a * b)
    # [f(a, b) for a, b in ((a1, b1), (a2, b2), ..)] over a display of known elements is the display [f(a1, b1), f(a2, b2), ..]
    # (with filters -- `[c for c in (a, b) if c]`, also as a generator -- when the truth of every filter is visible from the element's shape)
    if k == "comp" and v[1] in ("list", "gen") and len(v[3]) == 1 and (not v[3][0][2] or v[3][0][0] is not None) and (v[1] == "list" or v[3][0][2]) \
            and v[3][0][1][0] in ("tuple", "list") and 0 < len(v[3][0][1][1]) <= 16 and not any(e[0] == "star" for e in v[3][0][1][1]):
        tg, it, ifs_ = v[3][0]
        names = [tg] if tg is not None and tg[0] == "bv" else list(tg[1]) if tg is not None and tg[0] == "tuple" and all(t is not None and t[0] == "bv" for t in tg[1]) else None
        if names is not None:
            out = []
            for e in it[1]:
                if tg[0] == "bv":
                    m = {tg: e}
                elif e[0] in ("tuple", "list") and len(e[1]) == len(names) and not any(x[0] == "star" for x in e[1]):
                    m = dict(zip(names, e[1]))
                else:
                    out = None
                    break
                keep = [truthy(simp(subst(c_, m))) for c_ in ifs_]
                if any(t_ is None for t_ in keep):
                    out = None
                    break
                if all(keep):
                    out.append(simp(subst(v[2], m)))
            if out is not None:
                return ("list", tuple(out))
    # list + list: one list (operands that are not displays are spliced in as *operand)
    if k == "binop" and v[1] == "Add" and (v[2][0] == "list" or v[3][0] == "list"):
        def operands(x):
            if x[0] == "binop" and x[1] == "Add":
                return operands(x[2]) + operands(x[3])
            return [x]
        elts = []
        for o in operands(v[2]) + operands(v[3]):
            if o[0] == "list":
                elts.extend(o[1])
            elif is_str(o) or o[0] == "const":
                elts = None
                break
            else:
                elts.append(("star", o))
        if elts is not None:
            return ("list", tuple(elts))
    if k == "comp" and len(v[3]) == 1 and v[3][0][0] is not None:
        # loop unswitching: a filter `a if c else b` whose test does not depend on the comprehension's variables selects one of
        # two comprehensions:  [e for x in L if (a if c else b)]  ==  [e for x in L if a] if c else [e for x in L if b]
        tg, it, ifs = v[3][0]
        bound = {x for x in walk(tg) if isinstance(x, tuple) and x and x[0] == "bv"}
        for i_, c_ in enumerate(ifs):
            if c_[0] in ("phi", "ifexp") and len(c_) == 4 and not any(x in bound for x in walk(c_[1])):
                # (an arm that raised -- the selecting helper refused -- builds nothing: it stays the ("raise", ..) leaf)
                arm = lambda w: w if w[0] == "raise" else simp(("comp", v[1], v[2], ((tg, it, tuple(ifs[:i_]) + (w,) + tuple(ifs[i_ + 1:])),)))
                return ("phi", c_[1], arm(c_[2]), arm(c_[3]))
    # decorate-sort-undecorate:  [t[k] for t in sorted(T(x) for x in S)]  with T(x) a tuple display whose k-th component is x itself
    # ==  sorted(S, key=lambda x: T(x))   (the same tuples are compared in the same order; both sorts are stable)
    if k == "comp" and v[1] == "list" and len(v[3]) == 1 and not v[3][0][2] and v[3][0][0] is not None:
        tg, it, _ = v[3][0]
        # (with sorted(.., key=lambda t: K(t)) the records are compared by K(T(x)): that is the key of the undecorated sort)
        dkey = None
        if it[0] == "call" and it[1] == ("global", "sorted") and len(it[2]) == 1 and len(it[3]) == 1 and it[3][0][0] == "key" and it[3][0][1][0] == "lambda" and len(it[3][0][1][1]) == 1:
            dkey = it[3][0][1]
        inner = strip_transparent(it[2][0]) if it[0] == "call" and it[1] == ("global", "sorted") and len(it[2]) == 1 and (not it[3] or dkey is not None) else None
        while inner is not None and inner[0] == "call" and inner[1] in (("global", "list"), ("global", "tuple")) and len(inner[2]) == 1 and not inner[3]:
            inner = inner[2][0]
        if inner is not None and inner[0] == "call" and inner[1] == ("global", "zip") and inner[2] and not inner[3] and not any(a[0] == "star" for a in inner[2]):
            # zip(F(S), S) decorates as well: the tuples (f(x), x) for x in S, when every argument is an unfiltered map over ONE sequence
            maps = [as_map(a) for a in inner[2]]
            if all(m is not None and not m[3] for m in maps) and len({m[2] for m in maps}) == 1:
                zx = ("bv", "_z", next(_fresh))
                inner = ("comp", "list", ("tuple", tuple(simp(subst(m[1], {m[0]: zx})) for m in maps)), ((zx, maps[0][2], ()),))
        if inner is not None and inner[0] == "comp" and inner[1] in ("list", "gen") and len(inner[3]) == 1:
            x, src, ifs = inner[3][0]
            T = inner[2]
            if x is not None and x[0] == "bv" and T[0] == "tuple" and T[1] and not any(e[0] == "star" for e in T[1]):
                n_ = len(T[1])
                pick = None
                if tg[0] == "tuple" and len(tg[1]) == n_ and v[2] in tg[1] and tg[1].count(v[2]) == 1:
                    pick = tg[1].index(v[2])
                elif tg[0] == "bv" and v[2][0] == "sub" and v[2][1] == tg:
                    i_ = v[2][2]
                    i_ = i_[1] if i_[0] == "const" else -i_[2][1] if i_[:2] == ("unop", "USub") and i_[2][0] == "const" and type(i_[2][1]) is int else None
                    if type(i_) is int and -n_ <= i_ < n_:
                        pick = i_ % n_
                if pick is not None and T[1][pick] == x:
                    seq = src if not ifs else ("comp", "list", x, ((x, src, ifs),))
                    if dkey is not None:
                        kb = dkey[2]
                        if kb[0] == "sub" and kb[1] == dkey[1][0] and kb[2][0] == "const" and type(kb[2][1]) is int and -n_ <= kb[2][1] < n_:
                            kb = T[1][kb[2][1]]                                   # t[i] of the record is its i-th component
                        else:
                            kb = simp(subst(kb, {dkey[1][0]: T}))
                        return ("call", ("global", "sorted"), (seq,), (("key", ("lambda", (x,), kb)),))
                    return ("call", ("global", "sorted"), (seq,), (("key", ("lambda", (x,), T)),))
    if k == "sub" and v[1][0] == "dict" and v[2][0] == "const" and v[1][1] and all(len(e) == 2 and e[0][0] == "const" for e in v[1][1]):
        # {"a": x, "b": y}["a"] is x (a literal table read back by a literal key)
        hits = [val for key, val in v[1][1] if key == v[2]]
        if len(hits) == 1:
            return hits[0]
    # first-hit-wins selection: `x = a; if not x: x = b` / `if a: return a; return b` / `a if a else b` all yield `a or b`
    # (the value of `or` is its first truthy operand, else the last one); nested selections flatten into one chain
    if k in ("phi", "ifexp") and len(v) == 4:
        c, pol = norm_guard((v[1], True))
        hit, miss = (v[2], v[3]) if pol else (v[3], v[2])
        if hit == c and c[0] not in ("const", "cmp", "bool", "unop"):
            parts = (c,) + (tuple(miss[2]) if miss[0] == "bool" and miss[1] == "Or" else (miss,))
            return ("bool", "Or", parts)
        if hit[0] == "bool" and hit[1] == "Or" and c == hit:
            # `x = a or b; if not x: x = c`
            return ("bool", "Or", tuple(hit[2]) + (tuple(miss[2]) if miss[0] == "bool" and miss[1] == "Or" else (miss,)))
    if k == "bool" and v[1] == "Or" and any(x[0] == "bool" and x[1] == "Or" for x in v[2]):
        return ("bool", "Or", tuple(y for x in v[2] for y in (x[2] if x[0] == "bool" and x[1] == "Or" else (x,))))
    # ---- stdlib spellings of a comprehension: map(f, S) / filter(p, S) / list(<generator>) (values only, nothing is run) ----
    if k == "call" and v[1] in (("global", "map"), ("global", "filter")) and len(v[2]) == 2 and not v[3] and v[2][1][0] != "star":
        f_, seq_ = v[2]
        bv = None
        if f_[0] == "lambda" and len(f_[1]) == 1:
            bv, body = f_[1][0], f_[2]
        elif f_[0] in ("attr", "global") and v[1][1] == "map" and f_ != ("const", None):
            bv = ("bv", "_m", next(_fresh))
            body = simp(("meth", f_[1], f_[2], (bv,), ())) if f_[0] == "attr" else simp(("call", f_, (bv,), ()))
        elif v[1][1] == "map" and ((f_[0] == "call" and f_[1] in (("global", "attrgetter"), ("global", "itemgetter")) and len(f_[2]) == 1 and not f_[3]) or
                                   (f_[0] == "meth" and f_[1] == ("global", "operator") and f_[2] in ("attrgetter", "itemgetter") and len(f_[3]) == 1 and not f_[4])):
            # operator.attrgetter("name") / itemgetter(k) applied to x is x.name / x[k]
            which = f_[1][1] if f_[0] == "call" else f_[2]
            arg = (f_[2] if f_[0] == "call" else f_[3])[0]
            if arg[0] == "const" and (which == "itemgetter" or (isinstance(arg[1], str) and arg[1].isidentifier())):
                bv = ("bv", "_m", next(_fresh))
                body = ("attr", bv, arg[1]) if which == "attrgetter" else simp(("sub", bv, arg))
        if bv is not None:
            if v[1][1] == "map":
                return simp(("comp", "gen", body, ((bv, seq_, ()),)))
            return simp(("comp", "gen", bv, ((bv, seq_, (body,)),)))
    # filter(p, S) / itertools.filterfalse(p, S) with p a bound `<container>.__contains__` or a named predicate: the filtered generator
    # (x for x in S if x in C) / (.. if not p(x))
    ff = v[2] if k == "call" and v[1] in (("global", "filter"), ("global", "filterfalse")) and not v[3] else \
        v[3] if k == "meth" and v[1] == ("global", "itertools") and v[2] == "filterfalse" and not v[4] else None
    if ff is not None and len(ff) == 2 and ff[1][0] != "star" and ff[0][0] in ("attr", "global", "lambda") and ff[0] != ("const", None):
        f_, seq_ = ff
        neg = not (k == "call" and v[1][1] == "filter")
        bv = ("bv", "_m", next(_fresh))
        if f_[0] == "lambda" and len(f_[1]) == 1:
            bv, cond = f_[1][0], f_[2]
        elif f_[0] == "lambda":
            cond = None
        elif f_[0] == "attr" and f_[2] == "__contains__":
            cond = ("cmp", ("NotIn",) if neg else ("In",), (bv, f_[1]))
            neg = False
        else:
            cond = simp(("meth", f_[1], f_[2], (bv,), ())) if f_[0] == "attr" else simp(("call", f_, (bv,), ()))
        if cond is not None and (neg or f_[0] != "lambda"):
            return simp(("comp", "gen", bv, ((bv, seq_, (("unop", "Not", cond) if neg else cond,)),)))
    if k == "call" and v[1] in (("global", "list"), ("global", "tuple")) and len(v[2]) == 1 and not v[3] and v[2][0][0] == "comp" and v[2][0][1] == "gen":
        return simp(("comp", "list") + tuple(v[2][0][2:]))
    # a dict display read with a constant key: {"a": x, "b": y}["a"] / .get("a") is x
    if (k == "sub" and v[1][0] == "dict" and v[2][0] == "const") or \
            (k == "meth" and v[2] == "get" and v[1][0] == "dict" and len(v[3]) in (1, 2) and not v[4] and v[3][0][0] == "const"):
        key_ = v[2] if k == "sub" else v[3][0]
        pairs = v[1][1]
        if pairs and all(kk[0] == "const" for kk, _ in pairs):
            hit = [val for kk, val in pairs if kk == key_]
            if hit:
                return hit[-1]
            if k == "meth":
                return v[3][1] if len(v[3]) == 2 else ("const", None)
    # a record (namedtuple / dataclass instance built from a known constructor): field access by name or position
    if k == "attr" and v[1][0] == "record":
        for nm, val in v[1][2]:
            if nm == v[2]:
                return val
    if k in ("sub", "item") and v[1][0] == "record":
        i = v[2][1] if k == "sub" and v[2][0] == "const" else v[2] if k == "item" else None
        if type(i) is int and -len(v[1][2]) <= i < len(v[1][2]):
            return v[1][2][i][1]
    # D[k] if k in D else d   is   D.get(k, d)
    if k in ("ifexp", "phi") and len(v) == 4 and v[1][0] == "cmp" and v[1][1] == ("In",) and len(v[1][2]) == 2 and v[2] == ("sub", v[1][2][1], v[1][2][0]):
        return ("meth", v[1][2][1], "get", (v[1][2][0], v[3]), ())
    if k == "sub":
        base, idx = v[1], v[2]
        if base[0] in ("list", "tuple") and idx[0] == "const" and isinstance(idx[1], int) \
                and not any(e[0] == "star" for e in base[1]) and -len(base[1]) <= idx[1] < len(base[1]):
            return base[1][idx[1]]
        if idx[0] == "meth" and idx[2] == "index" and len(idx[3]) == 1 and not idx[4]:
            pm = prefix_map(base)
            if pm and not pm[3] and pm[2] == idx[1]:
                return simp(subst(pm[1], {pm[0]: idx[3][0]}))
    # a list literal grown by (conditional) appends outside loops is still a literal list, case by case
    if k == "appended" and v[1][0] == "list" and not any(e[0] == "star" for e in v[1][1]):
        return simp(("list", tuple(v[1][1]) + (v[2],)))
    if k == "appended" and v[1][0] in ("phi", "ifexp"):
        return (v[1][0], v[1][1], simp(("appended", v[1][2], v[2])), simp(("appended", v[1][3], v[2])))
    if k == "join" and v[2][0] in ("phi", "ifexp") and v[1][0] == "const":
        return (v[2][0], v[2][1], simp(("join", v[1], v[2][2])), simp(("join", v[1], v[2][3])))
    if k == "join" and v[1][0] == "const" and isinstance(v[1][1], str) and v[2][0] in ("list", "tuple") \
            and all(e[0] in ("const", "fstr") and (e[0] != "const" or isinstance(e[1], str)) for e in v[2][1]):
        parts = []
        for i, e in enumerate(v[2][1]):
            if i and v[1][1]:
                parts.append(v[1])
            parts.extend(e[1] if e[0] == "fstr" else [e])
        return flatten_fstr(("fstr", tuple(parts)))
    # list concatenation with a list display: [a, b] + L == [a, b, *L],  L + [a] == [*L, a]  (the other operand of `+` must be a list
    # too, or the expression raises)
    if k == "binop" and v[1] == "Add" and (v[2][0] == "list" or v[3][0] == "list") and not is_str(v[2]) and not is_str(v[3]):
        left = v[2][1] if v[2][0] == "list" else (("star", v[2]),)
        right = v[3][1] if v[3][0] == "list" else (("star", v[3]),)
        return ("list", tuple(left) + tuple(right))
    if k == "binop" and v[1] == "Add" and is_str(v[2]) and is_str(v[3]):
        def parts(x):
            if x[0] == "fstr":
                return list(x[1])
            if x[0] == "const":
                return [x]
            return [("fmt", x, None, -1)]
        return simp(("fstr", tuple(parts(v[2]) + parts(v[3]))))
    # getattr(x, "name") is x.name
    if k == "call" and v[1] == ("global", "getattr") and len(v[2]) == 2 and not v[3] and v[2][1][0] == "const" and isinstance(v[2][1][1], str) \
            and v[2][1][1].isidentifier():
        return ("attr", v[2][0], v[2][1][1])
    # filter(None, <literal sequence>) keeps the truthy elements: decided when every element's truthiness is visible from its shape
    if k == "call" and v[1] == ("global", "filter") and len(v[2]) == 2 and not v[3] and v[2][0] == ("const", None) and v[2][1][0] in ("list", "tuple") \
            and all(e[0] != "star" and truthy(e) is not None for e in v[2][1][1]):
        return ("list", tuple(e for e in v[2][1][1] if truthy(e)))
    # the k-th item of an element of zip(A, B, ..) is the element of the k-th sequence at the same position
    if k == "item" and isinstance(v[2], int) and v[1][0] == "elem" and len(v[1]) == 3:
        z = strip_transparent(v[1][1])
        if z[0] == "call" and z[1] == ("global", "zip") and not z[3] and 0 <= v[2] < len(z[2]) and not any(a[0] == "star" for a in z[2]):
            return simp(("elem", z[2][v[2]], v[1][2]))
    # an element of enumerate(X[, start]) is the pair (position [+ start], element of X at that position) -- as Flow.bind_iter reads
    # `for i, x in enumerate(X)`
    if k == "elem" and len(v) == 3:
        z = strip_transparent(v[1])
        if z[0] == "call" and z[1] == ("global", "enumerate") and 1 <= len(z[2]) <= 2 and z[2][0][0] != "star" and all(k_ == "start" for k_, _ in z[3]) and len(z[2]) + len(z[3]) <= 2:
            inner = strip_transparent(z[2][0])
            start = z[2][1] if len(z[2]) == 2 else (z[3][0][1] if z[3] else None)
            idx = ("idx", inner, v[2]) if start is None else ("binop", "Add", ("idx", inner, v[2]), start)
            return ("tuple", (idx, simp(("elem", inner, v[2]))))
    if k == "item" and v[1][0] in ("tuple", "list") and isinstance(v[2], int) and not any(e[0] == "star" for e in v[1][1]):
        if -len(v[1][1]) <= v[2] < len(v[1][1]):
            return v[1][1][v[2]]
    if k == "idx" and v[1][0] == "call" and v[1][1] == ("global", "zip") and v[1][2] and not v[1][3]:
        bases = {seq_base(a) for a in v[1][2]}
        if len(bases) == 1 and None not in bases:
            return ("idx", next(iter(bases)), v[2])
    if k == "idx" and v[1][0] in ("comp", "copy"):
        m = as_map(v[1])
        if m and not m[3]:
            return ("idx", m[2], v[2])
    if k == "sub" and v[2][0] == "idx" and v[2][1] == v[1]:
        return ("elem", v[1], v[2][2])
    # an element of range(lo, lo + n) is lo + an element of range(n): ranges are compared zero-based
    if k == "elem" and v[1][0] == "call" and v[1][1] == ("global", "range") and len(v[1][2]) == 2 and not v[1][3]:
        lo, hi = v[1][2]
        if hi[0] == "binop" and hi[1] == "Add" and lo != ("const", 0):
            n = hi[3] if hi[2] == lo else hi[2] if hi[3] == lo else None
            if n is not None:
                return ("binop", "Add", lo, ("elem", ("call", ("global", "range"), (n,), ()), v[2]))
    # every element of itertools.repeat(c[, n]) is c
    if k == "elem" and v[1][0] == "call" and v[1][1] in (("global", "repeat"), ("attr", ("global", "itertools"), "repeat")) and 1 <= len(v[1][2]) <= 2 and not v[1][3]:
        return v[1][2][0]
    if k == "elem" and v[1][0] == "meth" and v[1][1] == ("global", "itertools") and v[1][2] == "repeat" and 1 <= len(v[1][3]) <= 2 and not v[1][4]:
        return v[1][3][0]
    if k == "elem" and v[1][0] in ("phi", "ifexp"):
        return ("phi", v[1][1], simp(("elem", v[1][2], v[2])), simp(("elem", v[1][3], v[2])))
    if k == "elem":
        seq = v[1]
        if seq[0] in ("comp", "copy"):
            m = as_map(seq)
            if m:
                bv, body, base, ifs = m
                b2 = ("filtered", base, bv, ifs) if ifs else base
                return simp(subst(body, {bv: ("elem", b2, v[2])}))
    return v


def summarise_appends(flow) -> dict:
    """{("acc", name): comprehension IR} for every local list that is provably `[value(x) for x in S]` although it is spelled as
    an accumulation loop with intermediate statements (`L = []; for x in S: t = ..; t.remove(..); L.append(g(x, t))`), which the
    syntactic loop-folding of core._Canon leaves alone.  Conditions: one initialisation to the empty list, one `append`, sited in
    exactly one loop more than the initialisation and under the same guards, no other write to the list, the loop iterates an
    unfiltered one-to-one view of a sequence, and the appended value depends on the iteration only through the loop's element.
    A rule can substitute these (subst + simp) into the values it reads; nothing is substituted by the engine itself."""
    out = {}
    by = {}
    for f in flow.facts:
        if isinstance(f.target, str) and f.kind in ("init", "append", "store", "augstore", "remove", "mutate"):
            by.setdefault(f.target, []).append(f)
    for name, fs in by.items():
        inits = [f for f in fs if f.kind == "init"]
        apps = [f for f in fs if f.kind == "append"]
        if len(inits) != 1 or len(apps) != 1 or len(fs) != 2 or simp(inits[0].value) != ("list", ()) or apps[0].op != "append":
            continue
        i0, a0 = inits[0], apps[0]
        if len(a0.loops) != len(i0.loops) + 1 or a0.loops[:len(i0.loops)] != i0.loops or a0.guards != i0.guards or a0.seq < i0.seq:
            continue
        lp = a0.loops[-1]
        if lp.kind != "for":
            continue
        m = as_map(simp(lp.iter))
        if m is None or m[3]:
            continue
        base = m[2]
        bv = ("bv", "_s", next(_fresh))
        val = simp(subst(simp(a0.value), {("elem", base, lp.id): bv}))
        if contains(val, lambda t: isinstance(t, tuple) and len(t) == 3 and t[0] in ("elem", "idx", "key", "val", "carried", "after") and t[2] == lp.id) \
                or contains(val, lambda t: isinstance(t, tuple) and t and t[0] in ("unknown", "mutated")) or contains(val, lambda t: t == ("acc", name)):
            continue
        out[("acc", name)] = ("comp", "list", val, ((bv, base, ()),))
    return out


def summarise_memos(flow) -> list:
    """Memo tables: a local dict filled by ONE store `D[K(x)] = G(x)` inside one loop `for x in S` (one loop more than the
    initialisation `D = {}`; unguarded or guarded by `K(x) not in D` only; no other write to D), where key and value depend on the
    iteration only through the loop's element x.  A later read `D[K(x')]` is then `G(x')` -- the entry stored for the first x with
    the same key, which has the same value because G depends on x through what the key determines (the same standing assumption
    as `Index(ListComp(f), S.index(r)) => f(r)`).  -> [(name, key pattern, value template, pattern variable)] for
    expand_memos; nothing is substituted by the engine itself."""
    out = []
    by = {}
    for f in flow.facts:
        if isinstance(f.target, str) and f.kind in ("init", "append", "store", "augstore", "remove", "mutate"):
            by.setdefault(f.target, []).append(f)
    for name, fs in by.items():
        inits = [f for f in fs if f.kind == "init"]
        stores = [f for f in fs if f.kind == "store"]
        if len(inits) != 1 or len(stores) != 1 or len(fs) != 2:
            continue
        i0, s0 = inits[0], stores[0]
        if simp(i0.value) not in (("dict", ()), ("call", ("global", "dict"), (), ())) or s0.index is None or s0.value is None:
            continue
        if len(s0.loops) != len(i0.loops) + 1 or s0.loops[:len(i0.loops)] != i0.loops or s0.seq < i0.seq or s0.loops[-1].kind != "for":
            continue
        lp = s0.loops[-1]
        key, val = simp(s0.index), simp(s0.value)
        extra = [(simp(c), pol) for c, pol in s0.guards[len(i0.guards):]]
        if list(s0.guards[:len(i0.guards)]) != list(i0.guards) or extra not in ([], [(("cmp", ("In",), (key, ("acc", name))), False)]):
            continue
        dep = lambda t: isinstance(t, tuple) and len(t) == 3 and t[0] in ("elem", "idx", "key", "val", "carried", "after") and t[2] == lp.id
        atoms = {t for t in walk(key) if dep(t)}
        if len(atoms) != 1 or next(iter(atoms))[0] != "elem":
            continue
        atom = next(iter(atoms))
        if {t for t in walk(val) if dep(t)} - atoms or contains(val, lambda t: t == ("acc", name) or (isinstance(t, tuple) and t and t[0] in ("unknown", "mutated"))):
            continue
        var = V("memo-element")
        out.append((name, subst(key, {atom: var}), val, atom))
    return out


def expand_memos(v, memos):
    """`v` with every read `D[k]` of a memo table (summarise_memos) replaced by the value stored under that key"""
    if not isinstance(v, tuple) or not memos:
        return v
    v = tuple(expand_memos(x, memos) if isinstance(x, tuple) else x for x in v)
    if len(v) == 3 and v[0] == "sub" and v[1][0] == "acc":
        for name, kpat, val, atom in memos:
            if v[1][1] == name:
                b = match(kpat, simp(v[2]))
                if b is not None and "memo-element" in b:
                    return simp(subst(val, {atom: b["memo-element"]}))
    return v


# ------------------------------------------------------------------ accumulators and literal-dict loops, read back as values

def acc_comp(flow, name):
    """The list a local accumulator holds after `name = []` and ONE `name.append(e)` inside ONE for loop (possibly under ifs, next
    to other statements): the comprehension `[e for t in it if conds]` it is equal to -- what core._Canon folds when the append
    is the loop's only statement.  None when the accumulator is built in any other way (the caller then does not understand it)."""
    inits = [f for f in flow.facts if f.kind == "init" and f.target == name]
    touch = [f for f in flow.facts if f.target == name and f.kind in ("append", "remove", "mutate", "store", "augstore", "augassign")]
    if len(inits) != 1 or inits[0].value != ("list", ()) or len(touch) != 1 or touch[0].kind != "append" or touch[0].op != "append":
        return None
    a, i0 = touch[0], inits[0]
    if a.seq < i0.seq or len(a.loops) != len(i0.loops) + 1 or a.loops[:-1] != i0.loops or a.loops[-1].kind != "for":
        return None
    lp = a.loops[-1]
    if any(f.kind == "break" and lp in f.loops for f in flow.facts):
        return None
    bv = ("bv", "_a", next(_fresh))
    m = {("elem", lp.iter, lp.id): bv}
    val = simp(subst(a.value, m))
    ifs = tuple(simp(subst(c if pol else ("unop", "Not", c), m)) for c, pol in a.guards[lp.gdepth:])
    for x in walk((val, ifs)):
        if isinstance(x, tuple) and x and x[0] in ("elem", "idx", "key", "val", "carried", "after") and x[-1] == lp.id:
            return None          # depends on the loop other than through its element
        if isinstance(x, tuple) and x and x[0] in ("acc", "unknown"):
            return None
    return ("comp", "list", val, ((bv, lp.iter, ifs),))


def expand_dict_loops(f):
    """A fact inside `for k, v in {literal dict}.items():` stands for one fact per entry of the dict: -> [(index, value)] with the
    loop's key / value replaced by each entry's (and re-simplified, so f"list_of_{k}" becomes a constant).  A fact in no such loop
    -> [(f.index, f.value)]."""
    def entries(d):
        return list(d[1]) if d[0] == "dict" and d[1] and all(len(e) == 2 and e[0][0] == "const" for e in d[1]) else None

    def items_of(it):
        """[(key, value)] of `{..}.items()`, or of several such tables one after the other: `chain(a.items(), b.items())`"""
        if it[0] == "meth" and it[2] == "items" and not it[3]:
            return entries(it[1])
        args = it[2] if it[0] == "call" and it[1] == ("global", "chain") and not it[3] else \
            it[3] if it[0] == "meth" and it[1] == ("global", "itertools") and it[2] == "chain" and not it[4] else None
        if args:
            parts = [items_of(a) for a in args]
            return None if any(p_ is None for p_ in parts) else [e for p_ in parts for e in p_]
        return None
    rows = [{}]
    for lp in f.loops:
        it = lp.iter
        ents = items_of(it)
        if not ents:
            continue
        if it[0] == "meth" and it[2] == "items":
            rows = [{**r, ("key", it[1], lp.id): k, ("val", it[1], lp.id): v} for r in rows for k, v in ents]
        else:
            # `for k, v in chain(..)`: the targets are the two components of the element
            el = ("elem", it, lp.id)
            rows = [{**r, ("item", el, 0): k, ("item", el, 1): v} for r in rows for k, v in ents]
    return [(simp(subst(f.index, r)) if f.index is not None else None, simp(subst(f.value, r)) if f.value is not None else None) for r in rows]


# ------------------------------------------------------------------ pattern matching

def V(name):
    return ("?", name)


def match(pat, v, b=None):
    """Structural match of IR `v` against `pat` with variables ("?", name).
    -> dict of bindings or None."""
    if b is None:
        b = {}
    if isinstance(pat, tuple) and len(pat) == 2 and pat[0] == "?":
        if pat[1] in b:
            return b if b[pat[1]] == v else None
        b = dict(b)
        b[pat[1]] = v
        return b
    if isinstance(pat, tuple):
        if not isinstance(v, tuple) or len(pat) != len(v):
            return None
        for p, x in zip(pat, v):
            b = match(p, x, b)
            if b is None:
                return None
        return b
    return b if pat == v else None


# ------------------------------------------------------------------ lowering to C text with holes

STRINGY = ("join", "fstr")


def is_str(v) -> bool:
    return v[0] in STRINGY or (v[0] == "const" and isinstance(v[1], str)) or \
        (v[0] == "ifexp" and is_str(v[2]) and is_str(v[3])) or \
        (v[0] == "meth" and v[2] in ("replace", "strip", "format", "upper", "lower", "lstrip", "rstrip"))


class Lowered:
    def __init__(self):
        self.text = ""
        self.holes = {}     # name -> IR (scalar-valued text)
        self.seqs = {}      # name -> (sep, IR of the sequence)
        self.errors = []    # [(kind, IR)]

    def hole(self, v):
        for k, x in self.holes.items():
            if x == v:
                return k
        k = f"H{len(self.holes)}_"
        self.holes[k] = v
        return k

    def seq(self, sep, v):
        k = f"SEQ{len(self.seqs)}_"
        self.seqs[k] = (sep, v)
        return k


def lower(v, lw: Lowered | None = None) -> Lowered:
    top = lw is None
    if lw is None:
        lw = Lowered()
    lw.text += _lower(simp(v) if top else v, lw)
    return lw


def _lower(v, lw) -> str:
    k = v[0]
    if k == "const":
        return v[1] if isinstance(v[1], str) else repr(v[1])
    if k == "fstr":
        return "".join(_lower(p, lw) for p in v[1])
    if k == "fmt":
        if v[2] is None and v[3] == -1:
            inner = v[1]
            if inner[0] in ("join", "fstr") or (inner[0] == "const" and isinstance(inner[1], str)):
                return _lower(inner, lw)
        return lw.hole(v)
    if k == "join":
        sep, seq = v[1], v[2]
        if sep[0] != "const" or not isinstance(sep[1], str):
            return lw.hole(v)
        if seq[0] in ("list", "tuple"):
            pieces = []
            for e in seq[1]:
                if e[0] == "star":
                    if is_str(e[1]):
                        lw.errors.append(("star-of-str", e[1]))
                        if e[1][0] == "join" and e[1][1] == sep:
                            # keep analysing the intended product; the unpacking itself is the finding
                            pieces.append(lw.seq(sep[1], e[1][2]))
                        else:
                            pieces.append(lw.hole(e))
                    else:
                        pieces.append(lw.seq(sep[1], e[1]))
                else:
                    pieces.append(_lower(e, lw))
            return sep[1].join(pieces)
        return lw.seq(sep[1], seq)
    return lw.hole(v)


def canon_ids(v, loopmap=None):
    """Rename loop ids (per `loopmap`) and bound-variable uids (in order of
    appearance) so that two reconstructions of the same shape compare equal."""
    loopmap = loopmap or {}
    bvs = {}

    def rec(x):
        if not isinstance(x, tuple) or not x:
            return x
        if x[0] == "bv" and len(x) == 3:
            if x not in bvs:
                bvs[x] = ("bv", x[1] if False else "_", len(bvs))
            return bvs[x]
        if x[0] in ("elem", "idx", "key", "val") and len(x) == 3:
            return (x[0], rec(x[1]), loopmap.get(x[2], x[2]))
        return tuple(rec(y) for y in x)
    return rec(v)


# ------------------------------------------------------------------ partial evaluation of variants

def truthy(v):
    """Truthiness of a string/number-valued IR when it is decidable from its shape; else None."""
    if v[0] == "const":
        return bool(v[1])
    if v[0] == "fstr":
        return True if any(p[0] == "const" and p[1] for p in v[1]) else None
    if v[0] in ("list", "tuple"):
        return bool(v[1])
    # `c is None` / `c is not None` between constants (a defaulted parameter bound to a constant): identity with None is decided by value
    if v[0] == "cmp" and len(v) == 3 and len(v[1]) == 1 and v[1][0] in ("Is", "IsNot") and len(v[2]) == 2 and all(x[0] == "const" for x in v[2]) \
            and any(x[1] is None for x in v[2]):
        same = v[2][0][1] is None and v[2][1][1] is None
        return same if v[1][0] == "Is" else not same
    return None


def peval(v, assume: dict, as_cond: bool = False):
    """Specialise an IR under assumed truth values of conditions (keys: IR of the
    condition).  Assumptions are applied in condition positions only."""
    if not isinstance(v, tuple) or not v:
        return v
    if as_cond and v in assume:
        return ("const", assume[v])
    k = v[0]
    if k == "ifexp":
        c = peval(v[1], assume, True)
        t = truthy(c)
        if t is True:
            return peval(v[2], assume, as_cond)
        if t is False:
            return peval(v[3], assume, as_cond)
        return ("ifexp", c, peval(v[2], assume, as_cond), peval(v[3], assume, as_cond))
    if k == "bool":
        vals = [peval(x, assume, as_cond) for x in v[2]]
        out = []
        for x in vals:
            t = truthy(x)
            if v[1] == "And":
                if t is False:
                    return x if not out else ("bool", "And", tuple(out + [x]))
                if t is True:
                    continue
                out.append(x)
            else:
                if t is True:
                    return x if not out else ("bool", "Or", tuple(out + [x]))
                if t is False:
                    continue
                out.append(x)
        if not out:
            return vals[-1]
        return ("bool", v[1], tuple(out)) if len(out) > 1 else out[0]
    if k == "unop" and v[1] == "Not":
        x = peval(v[2], assume, True)
        t = truthy(x)
        return ("const", not t) if t is not None else ("unop", "Not", x)
    if k == "phi":
        c = peval(v[1], assume, True)
        t = truthy(c)
        if t is True:
            return peval(v[2], assume, as_cond)
        if t is False:
            return peval(v[3], assume, as_cond)
        return ("phi", c, peval(v[2], assume, as_cond), peval(v[3], assume, as_cond))
    if k == "comp":
        gens = tuple((tg, peval(it, assume), tuple(peval(c, assume, True) for c in ifs)) for tg, it, ifs in v[3])
        return simp(("comp", v[1], peval(v[2], assume, as_cond), gens))
    # (the operands of a comparison / call are VALUES, not conditions: `abs(b) == 0.5` under the assumption "b is truthy" still reads b)
    return simp(tuple(peval(x, assume, False) if isinstance(x, tuple) else x for x in v))


def expand_bvals(flow, v):
    """Replace comprehension variables that stand for destructured enumerate/zip
    items by their meaning (elem/idx of the iterated sequences)."""
    m = {}
    for lp in flow.all_loops.values():
        m.update(lp.bvals)
    for _ in range(4):
        v2 = simp(subst(v, m))
        if v2 == v:
            break
        v = v2
    return v


# ---------------------------------------------------------------------- propositional reasoning over guards

def _unbool(c):
    """bool(x) has the truth value of x"""
    while isinstance(c, tuple) and len(c) == 4 and c[0] == "call" and c[1] == ("global", "bool") and len(c[2]) == 1 and not c[3]:
        c = c[2][0]
    return c


def _bool_atoms(c, acc):
    c = _unbool(c)
    if isinstance(c, tuple) and len(c) == 4 and c[0] in ("phi", "ifexp"):
        # a predicate helper inlined as its decision tree (`if c: return a` / `return b`): (c and a) or (not c and b)
        for x in c[1:]:
            _bool_atoms(x, acc)
    elif isinstance(c, tuple) and len(c) == 2 and c[0] == "const" and isinstance(c[1], bool):
        pass
    elif isinstance(c, tuple) and len(c) == 3 and c[0] == "unop" and c[1] == "Not":
        _bool_atoms(c[2], acc)
    elif isinstance(c, tuple) and len(c) == 3 and c[0] == "bool":
        for x in c[2]:
            _bool_atoms(x, acc)
    elif isinstance(c, tuple) and len(c) == 3 and c[0] == "cmp" and len(c[1]) == 1 and c[1][0] in _NEG_OP:
        acc.add(("cmp", (_NEG_OP[c[1][0]],), c[2]))
    else:
        acc.add(c)


def _bool_eval(c, env):
    c = _unbool(c)
    if isinstance(c, tuple) and len(c) == 4 and c[0] in ("phi", "ifexp"):
        return _bool_eval(c[2], env) if _bool_eval(c[1], env) else _bool_eval(c[3], env)
    if isinstance(c, tuple) and len(c) == 2 and c[0] == "const" and isinstance(c[1], bool):
        return c[1]
    if isinstance(c, tuple) and len(c) == 3 and c[0] == "unop" and c[1] == "Not":
        return not _bool_eval(c[2], env)
    if isinstance(c, tuple) and len(c) == 3 and c[0] == "bool":
        vals = [_bool_eval(x, env) for x in c[2]]
        return all(vals) if c[1] == "And" else any(vals)
    if isinstance(c, tuple) and len(c) == 3 and c[0] == "cmp" and len(c[1]) == 1 and c[1][0] in _NEG_OP:
        return not env[("cmp", (_NEG_OP[c[1][0]],), c[2])]
    return env[c]


def guards_satisfiable(guards, extra=()):
    """Is there a truth assignment of the atomic conditions under which every (cond, polarity) of `guards` and `extra` holds?
    Atoms are whatever is not not/and/or (negative comparisons are the negation of their positive form)."""
    import itertools
    gs = [(simp(c), p) for c, p in list(guards) + list(extra)]
    atoms = set()
    for c, _ in gs:
        _bool_atoms(c, atoms)
    atoms = sorted(atoms, key=repr)
    if len(atoms) > 12:
        return True
    for vals in itertools.product((False, True), repeat=len(atoms)):
        env = dict(zip(atoms, vals))
        if all(_bool_eval(c, env) == p for c, p in gs):
            return True
    return False


def guards_imply(a, b):
    """every path on which all guards of `a` hold also satisfies all guards of `b`"""
    return all(not guards_satisfiable(a, [(c, not p)]) for c, p in b)


# ---------------------------------------------------------------------- accumulators as comprehensions

def acc_as_comp(flow, name: str):
    """The value an accumulator local holds after its loop, as the comprehension IR it is equal to, or None.

        X = []                      X = {}
        for t in IT:                for t in IT:
            [temps; guards]             [temps; guards / continue]
            X.append(E)                 X[K] = V
        -> [E for t in IT if G..]   -> {K: V for t in IT if G..}

    Read off the facts: exactly one empty initialisation, exactly one mutating fact (append / element store) inside exactly one
    `for` loop entered after the initialisation; the guards the store acquired inside the loop become the filters (a guard
    with negative polarity becomes `not g`).  Temporaries are already expanded in the fact's value (use-def)."""
    inits = [f for f in flow.facts if f.kind == "init" and f.target == name]
    muts = [f for f in flow.facts if f.target == name and f.kind in ("append", "store", "augstore", "remove", "mutate", "delete")]
    if len(inits) != 1 or len(muts) != 1:
        return None
    init, m = inits[0], muts[0]
    iv = simp(init.value)
    empty_list = iv in (("list", ()), ("call", ("global", "list"), (), ()))
    empty_dict = iv in (("dict", ()), ("call", ("global", "dict"), (), ()), ("call", ("global", "OrderedDict"), (), ()))
    if m.seq < init.seq or init.loops or len(m.loops) != 1 or m.loops[0].kind != "for":
        return None
    lp = m.loops[0]
    if any(isinstance(x, tuple) and len(x) == 2 and x[0] == "acc" and x[1] == name for part in (m.value, m.index, lp.iter) if part is not None for x in walk(part)):
        return None
    outer = list(init.guards)
    if list(m.guards[:len(outer)]) != outer:
        return None
    inner = m.guards[len(outer):]
    bv = ("bv", "_a", next(_fresh))
    sub = {}

    def bound(x):
        """loop-bound atoms (elem / idx / key / val of this loop) -> comprehension variables"""
        for y in walk(x):
            if isinstance(y, tuple) and len(y) == 3 and y[0] in ("elem", "idx", "key", "val") and y[2] == lp.id and y not in sub:
                sub[y] = bv if y == ("elem", lp.iter, lp.id) else ("bv", f"_a_{y[0]}", next(_fresh))
    for part in [m.value, m.index] + [g for g, _ in inner]:
        if part is not None:
            bound(part)
    if any(k != ("elem", lp.iter, lp.id) for k in sub):
        return None            # enumerate / zip / items destructuring: not needed so far, left to the loop-form rules
    ifs = tuple(simp(subst(g if p else ("unop", "Not", g), sub)) for g, p in inner)
    if m.kind == "append" and m.op == "append" and empty_list:
        return ("comp", "list", simp(subst(m.value, sub)), ((bv, lp.iter, ifs),))
    if m.kind == "store" and empty_dict:
        return ("comp", "dict", ("tuple", (simp(subst(m.index, sub)), simp(subst(m.value, sub)))), ((bv, lp.iter, ifs),))
    return None
