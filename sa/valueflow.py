"""E2: def-use expression reconstruction over one Python function.

One in-order walk of the statements; every local carries a reconstructed value
in a small tuple IR.  Loops are not unrolled (the loop variable is the abstract
element `elem(iterable, loop)`), `if` yields guards and phi values.  Every store
into a subscript / attribute, every `append`-like call, every `return`/`raise`
becomes a Fact carrying value, loop contexts and guards.  No path conditions,
no iteration, no evaluation: this is use-def expansion.

IR (hashable tuples):
 ("const", v) ("param", name) ("global", name) ("attr", base, name)
 ("fstr", (part, ...))   part = ("const", str) | ("fmt", value, spec|None, conv)
 ("join", sep, seq) ("list", (elt, ...)) ("tuple", (...)) ("set", (...)) ("dict", ((k, v), ...))
 ("star", x) ("comp", kind, elt, ((targets, iter, (ifs...)), ...)) ("bv", name, uid)
 ("elem", iter, loop) ("idx", iter, loop) ("key", d, loop) ("val", d, loop) ("item", x, i)
 ("call", f, (args), ((kw, v), ...)) ("meth", obj, name, (args), ((kw, v), ...))
 ("binop", op, l, r) ("unop", op, x) ("cmp", (ops), (operands)) ("bool", op, (values)) ("ifexp", c, a, b)
 ("sub", base, idx) ("slice", lo, hi, step)
 ("copy", L) ("removeone", L, x) ("appended", L, x)
 ("phi", cond, a, b) ("carried", name, loop) ("acc", name) ("unknown", text)
"""
from __future__ import annotations

import ast
import itertools
from dataclasses import dataclass, field

TRANSPARENT = {"tqdm", "list", "tuple", "iter"}


@dataclass
class Loop:
    id: int
    iter: tuple
    target: str
    line: int
    kind: str = "for"   # for | while | comp
    bvals: dict = field(default_factory=dict)


@dataclass
class Fact:
    kind: str            # store | augstore | append | remove | call | return | raise | attrstore | init | assign
    target: str          # array / attribute / callee name
    index: tuple | None
    op: str | None
    value: tuple | None
    loops: tuple
    guards: tuple        # ((cond IR, polarity), ...)
    line: int
    seq: int
    node: ast.AST = field(repr=False, default=None)
    extra: dict = field(default_factory=dict)


_NEG_OP = {"NotEq": "Eq", "NotIn": "In", "IsNot": "Is"}


def norm_guard(g):
    """(condition, polarity) with the condition in positive form: `not c` and !=, not in, is not are folded into the polarity,
    so that `if a != b: X` and `if a == b: ... else: X` give X the same guard."""
    c, pol = g
    for _ in range(4):
        if isinstance(c, tuple) and len(c) == 3 and c[0] == "unop" and c[1] == "Not":
            c, pol = c[2], not pol
            continue
        if isinstance(c, tuple) and len(c) == 3 and c[0] == "cmp" and len(c[1]) == 1 and c[1][0] in _NEG_OP:
            c, pol = ("cmp", (_NEG_OP[c[1][0]],), c[2]), not pol
            continue
        break
    return (c, pol)


def split_guard(g):
    """A guard as a list of atomic guards in positive form: a true conjunction / a false disjunction is the list of its parts
    (`if a and b:` == `if a: if b:`;  `if a or not b: continue` leaves (a, False), (b, True))."""
    c, pol = norm_guard(g)
    if isinstance(c, tuple) and len(c) == 3 and c[0] == "bool" and ((c[1] == "And" and pol) or (c[1] == "Or" and not pol)):
        out = []
        for x in c[2]:
            out.extend(split_guard((x, pol)))
        return out
    return [(c, pol)]


def expand_procedures(func: ast.FunctionDef, resolver, depth: int = 0) -> ast.FunctionDef:
    """Statement-level inlining of helper PROCEDURES of the same class: `self._helper(a, b, rhs)` written as a statement, where the
    helper returns nothing, is replaced by the helper's body with its parameters renamed to the argument names (arguments that
    are not plain names are bound to fresh locals first) and its locals made unique.  What the helper does to the lists it is
    handed then shows up in the caller exactly as if the code had not been extracted."""
    import copy as _copy
    counter = itertools.count(1)

    class Ren(ast.NodeTransformer):
        def __init__(self, m):
            self.m = m

        def visit_Name(self, n):
            if n.id in self.m:
                n.id = self.m[n.id]
            return n

    def void(callee):
        for r in ast.walk(callee):
            if isinstance(r, (ast.Yield, ast.YieldFrom, ast.Global, ast.Nonlocal)):
                return False
            if isinstance(r, ast.Return) and r.value is not None and not (isinstance(r.value, ast.Constant) and r.value.value is None):
                return False
            if isinstance(r, ast.Return) and r is not callee.body[-1]:
                return False
        return True

    def expand(stmts, d):
        out = []
        for st in stmts:
            for fld in ("body", "orelse", "finalbody"):
                b = getattr(st, fld, None)
                if isinstance(b, list) and b and isinstance(b[0], ast.stmt):
                    setattr(st, fld, expand(b, d))
            c = st.value if isinstance(st, ast.Expr) else None
            if isinstance(c, ast.Call) and isinstance(c.func, ast.Attribute) and isinstance(c.func.value, ast.Name) and c.func.value.id in ("self", "cls") \
                    and d < 2 and not any(isinstance(a, ast.Starred) for a in c.args) and all(k.arg for k in c.keywords):
                callee = resolver(c.func.attr)
                if callee is not None and callee is not func and void(callee) and not callee.args.vararg and not callee.args.kwarg:
                    decs = {ast.unparse(x) for x in callee.decorator_list}
                    params = [a.arg for a in callee.args.args]
                    if not (decs - {"staticmethod", "classmethod"}):
                        ren = {}
                        if "staticmethod" not in decs and params:
                            ren[params[0]] = c.func.value.id
                            params = params[1:]
                        given = dict(zip(params, c.args))
                        given.update({k.arg: k.value for k in c.keywords})
                        defaults = dict(zip(params[len(params) - len(callee.args.defaults):], callee.args.defaults))
                        if len(c.args) <= len(params) and all(p_ in given or p_ in defaults for p_ in params) and all(k in params for k in given):
                            k_ = next(counter)
                            pre = []
                            for p_ in params:
                                a = given.get(p_, defaults.get(p_))
                                if isinstance(a, ast.Name):
                                    ren[p_] = a.id
                                else:
                                    fresh = f"_inl{k_}_{p_}"
                                    ren[p_] = fresh
                                    pre.append(ast.copy_location(ast.Assign(targets=[ast.Name(id=fresh, ctx=ast.Store())], value=_copy.deepcopy(a)), st))
                            body = _copy.deepcopy(callee.body)
                            if body and isinstance(body[-1], ast.Return):
                                body = body[:-1]
                            locals_ = {n.id for b in body for n in ast.walk(b) if isinstance(n, ast.Name) and isinstance(n.ctx, ast.Store)} - set(ren)
                            for l in locals_:
                                ren[l] = f"_inl{k_}_{l}"
                            body = [Ren(ren).visit(b) for b in body]
                            body = [b for b in body if not (isinstance(b, ast.Expr) and isinstance(b.value, ast.Constant))]
                            for b in pre + body:
                                ast.fix_missing_locations(b)
                            out.extend(pre + expand(body, d + 1))
                            continue
            out.append(st)
        return out
    new = _copy.deepcopy(func)
    new.body = expand(new.body, depth)
    return new


class Flow:
    def __init__(self, func: ast.FunctionDef, file: str = "", consts: dict | None = None,
                 self_name: str | None = None, keep_arms: bool = False, resolver=None, _depth: int = 0, _env: dict | None = None,
                 proc_resolver=None):
        # proc_resolver: name -> FunctionDef of a helper PROCEDURE of the same class, expanded in place as statements
        if proc_resolver is not None and _depth == 0:
            func = expand_procedures(func, proc_resolver)
        self.keep_arms = keep_arms
        self.resolver = resolver          # name -> FunctionDef of a small pure helper method of the same class (inlined)
        self._depth = _depth
        self._preset = _env
        self.func = func
        self.file = file
        self.env: dict = {}
        self.facts: list[Fact] = []
        self.loops: list[Loop] = []
        self.guards: list = []
        self._uid = itertools.count(1)
        self._seq = itertools.count(1)
        self.all_loops: dict = {}
        self.assigns: dict = {}
        self.alias_of: dict = {}
        self._mutated: set = set()
        self._if_tests: dict = {}
        self._loop_stored: list = []
        self.consts = consts or {}
        self.acc = self._find_acc(func)
        a = func.args
        allargs = a.posonlyargs + a.args + a.kwonlyargs
        for p in allargs:
            self.env[p.arg] = ("param", p.arg)
        if a.vararg:
            self.env[a.vararg.arg] = ("param", "*" + a.vararg.arg)
        if a.kwarg:
            self.env[a.kwarg.arg] = ("param", "**" + a.kwarg.arg)
        if self._preset:
            self.env.update(self._preset)
        self.block(func.body)

    # ---- which locals are accumulators --------------------------------
    @staticmethod
    def _find_acc(func) -> set:
        acc = set()

        def visit(node, in_loop):
            for ch in ast.iter_child_nodes(node):
                if isinstance(ch, (ast.FunctionDef, ast.AsyncFunctionDef, ast.ClassDef, ast.Lambda)):
                    continue
                if isinstance(ch, (ast.Assign, ast.AugAssign, ast.AnnAssign)):
                    tg = ch.targets if isinstance(ch, ast.Assign) else [ch.target]
                    for t in tg:
                        if isinstance(t, ast.Subscript) and isinstance(t.value, ast.Name):
                            acc.add(t.value.id)
                if in_loop and isinstance(ch, ast.Expr) and isinstance(ch.value, ast.Call) \
                        and isinstance(ch.value.func, ast.Attribute) and isinstance(ch.value.func.value, ast.Name) \
                        and ch.value.func.attr in ("append", "extend", "add", "update", "insert", "pop"):
                    acc.add(ch.value.func.value.id)
                visit(ch, in_loop or isinstance(ch, (ast.For, ast.While)))

        visit(func, False)
        return acc

    # ---- helpers --------------------------------------------------------
    def _guards(self):
        out = []
        for g in self.guards:
            out.extend(split_guard(g))
        return tuple(out)

    def fact(self, kind, target, index, op, value, node, **extra):
        if kind in ("store", "augstore", "append", "remove", "mutate") and isinstance(target, str):
            self._mutated.add(target)
        f = Fact(kind, target, index, op, value, tuple(self.loops), self._guards(),
                 getattr(node, "lineno", 0), next(self._seq), node, extra)
        self.facts.append(f)
        return f

    def lookup(self, name):
        if name in self.env:
            v = self.env[name]
            if name in self.acc and v is not None and v[0] != "param":
                # precise until the first element store / in-loop mutation can have happened
                if name in self._mutated or any(name in st for st in self._loop_stored):
                    return ("acc", name)
            return v
        if name in self.consts:
            return self.consts[name]
        return ("global", name)

    # ---- expressions ----------------------------------------------------
    def ev(self, n) -> tuple:
        if n is None:
            return ("const", None)
        m = getattr(self, "e_" + type(n).__name__, None)
        if m is None:
            return ("unknown", ast.dump(n)[:80])
        return m(n)

    def e_Constant(self, n):
        return ("const", n.value)

    def e_Name(self, n):
        return self.lookup(n.id)

    def e_Attribute(self, n):
        return ("attr", self.ev(n.value), n.attr)

    def e_JoinedStr(self, n):
        parts = []
        for v in n.values:
            if isinstance(v, ast.Constant):
                parts.append(("const", v.value))
            else:
                val = self.ev(v.value)
                spec = None
                if v.format_spec is not None:
                    s = self.ev(v.format_spec)
                    s = flatten_fstr(s)
                    spec = s[1] if s[0] == "const" else s
                conv = v.conversion
                if spec is None and conv == -1 and val[0] == "const" and isinstance(val[1], str):
                    parts.append(val)
                elif spec is None and conv == -1 and val[0] == "fstr":
                    parts.extend(val[1])
                else:
                    parts.append(("fmt", val, spec, conv))
        return flatten_fstr(("fstr", tuple(parts)))

    def e_List(self, n):
        return ("list", tuple(self.ev(e) for e in n.elts))

    def e_Tuple(self, n):
        return ("tuple", tuple(self.ev(e) for e in n.elts))

    def e_Set(self, n):
        return ("set", tuple(self.ev(e) for e in n.elts))

    def e_Dict(self, n):
        return ("dict", tuple((self.ev(k) if k is not None else ("star2",), self.ev(v)) for k, v in zip(n.keys, n.values)))

    def e_Starred(self, n):
        return ("star", self.ev(n.value))

    def e_BinOp(self, n):
        l, r = self.ev(n.left), self.ev(n.right)
        if isinstance(n.op, ast.Add):
            # "text" + x + "text": the same string as f"text{x}text" (one side being text makes the other text too)
            def textual(v):
                return (v[0] == "const" and isinstance(v[1], str)) or v[0] == "fstr" or (v[0] == "join")

            def parts(v):
                if v[0] == "const" and isinstance(v[1], str):
                    return (v,)
                if v[0] == "fstr":
                    return tuple(v[1])
                return (("fmt", v, None, -1),)
            if textual(l) or textual(r):
                return flatten_fstr(("fstr", parts(l) + parts(r)))
        return ("binop", type(n.op).__name__, l, r)

    def e_UnaryOp(self, n):
        return ("unop", type(n.op).__name__, self.ev(n.operand))

    def e_BoolOp(self, n):
        return ("bool", type(n.op).__name__, tuple(self.ev(v) for v in n.values))

    def e_Compare(self, n):
        return ("cmp", tuple(type(o).__name__ for o in n.ops), tuple(self.ev(x) for x in [n.left] + n.comparators))

    def e_IfExp(self, n):
        return ("ifexp", self.ev(n.test), self.ev(n.body), self.ev(n.orelse))

    def e_Subscript(self, n):
        return ("sub", self.ev(n.value), self.ev(n.slice))

    def e_Slice(self, n):
        return ("slice", self.ev(n.lower), self.ev(n.upper), self.ev(n.step))

    def e_Lambda(self, n):
        return ("unknown", "lambda")

    def e_NamedExpr(self, n):
        v = self.ev(n.value)
        self.bind(n.target, v, n)
        return v

    def _comp(self, n, kind):
        saved = dict(self.env)
        gens = []
        for g in n.generators:
            it = strip_transparent(self.ev(g.iter))
            lp = Loop(next(self._uid), it, ast.unparse(g.target), getattr(n, "lineno", 0), "comp")
            self.all_loops[lp.id] = lp
            tg = self.bind_iter(g.target, it, lp, comp=True)
            ifs = tuple(self.ev(i) for i in g.ifs)
            gens.append((tg, it, ifs))
        if kind == "dict":
            elt = ("tuple", (self.ev(n.key), self.ev(n.value)))
        else:
            elt = self.ev(n.elt)
        self.env = saved
        return ("comp", kind, elt, tuple(gens))

    def e_ListComp(self, n):
        return self._comp(n, "list")

    def e_GeneratorExp(self, n):
        return self._comp(n, "gen")

    def e_SetComp(self, n):
        return self._comp(n, "set")

    def e_DictComp(self, n):
        return self._comp(n, "dict")

    def e_Call(self, n):
        args = tuple(self.ev(a) for a in n.args)
        kws = tuple((k.arg or "**", self.ev(k.value)) for k in n.keywords)
        f = n.func
        if isinstance(f, ast.Attribute):
            obj = self.ev(f.value)
            if f.attr == "join" and len(args) == 1 and not kws:
                return ("join", obj, args[0])
            if f.attr == "format" and obj[0] == "const" and isinstance(obj[1], str):
                fs = self._format_to_fstr(obj[1], args, dict(kws))
                if fs is not None:
                    return fs
            if f.attr == "copy" and not args:
                return ("copy", obj)
            if obj in (("param", "self"), ("param", "cls")) and self.resolver is not None and self._depth < 2 and all(k != "**" for k, _ in kws):
                callee = self.resolver(f.attr)
                if callee is not None:
                    inl = self._inline(callee, args, dict(kws))
                    if inl is not None:
                        return inl
            return ("meth", obj, f.attr, args, kws)
        # dispatch table: `table = {"k": self._m1, ...}; fn = table.get(key) / table[key]; fn(args)` is the if/elif chain
        # `key == "k" -> self._m1(args)` written as data
        if self.resolver is not None and self._depth < 2 and all(k != "**" for k, _ in kws):
            fv = self.ev(f)
            tab = key = None
            if fv[0] == "meth" and fv[2] == "get" and fv[1][0] == "dict" and len(fv[3]) in (1, 2):
                tab, key = fv[1], fv[3][0]
            elif fv[0] == "sub" and fv[1][0] == "dict":
                tab, key = fv[1], fv[2]
            if tab is not None and tab[1] and all(k[0] == "const" and v[0] == "attr" and v[1] in (("param", "self"), ("param", "cls")) for k, v in tab[1]):
                out = ("call", fv, args, kws)
                ok = True
                for k, v in reversed(tab[1]):
                    callee = self.resolver(v[2])
                    inl = self._inline(callee, args, dict(kws)) if callee is not None else None
                    if inl is None:
                        inl = ("meth", v[1], v[2], args, kws)       # this arm stays an opaque call
                    out = ("phi", ("cmp", ("Eq",), (key, k)), inl, out)
                if ok:
                    return out
        if isinstance(f, ast.Name) and f.id in TRANSPARENT and len(args) == 1 and not kws and f.id not in self.env:
            if f.id == "tqdm" or args[0][0] in ("comp", "list", "acc"):
                return args[0]
        if isinstance(f, ast.Name) and f.id == "tqdm" and args:
            return args[0]
        return ("call", self.ev(f), args, kws)

    @staticmethod
    def _format_to_fstr(text, args, kws):
        """'a{}b{0:>4}{name!r}'.format(..) as the f-string it is equal to; None when a field is not a plain index / name."""
        import string
        parts = []
        auto = 0
        try:
            fields = list(string.Formatter().parse(text))
        except ValueError:
            return None
        for lit, field, spec, conv in fields:
            if lit:
                parts.append(("const", lit))
            if field is None:
                continue
            if field == "":
                if auto >= len(args):
                    return None
                val = args[auto]
                auto += 1
            elif field.isdigit():
                if int(field) >= len(args):
                    return None
                val = args[int(field)]
            elif field.isidentifier() and field in kws:
                val = kws[field]
            else:
                return None
            if spec and ("{" in spec):
                return None
            c = -1 if conv is None else ord(conv)
            if not spec and c == -1 and val[0] == "const" and isinstance(val[1], str):
                parts.append(val)
            elif not spec and c == -1 and val[0] == "fstr":
                parts.extend(val[1])
            else:
                parts.append(("fmt", val, spec or None, c))
        return flatten_fstr(("fstr", tuple(parts)))

    def _inline(self, callee, args, kws=None):
        """Value returned by a small, loop-free helper method for these argument values (phi over its returns).  Instance, class
        and static methods; positional and keyword arguments; defaults."""
        kws = kws or {}
        if any(isinstance(n, (ast.For, ast.While, ast.Try, ast.With, ast.Yield)) for n in ast.walk(callee)):
            return None
        params = [p.arg for p in callee.args.args]
        decs = {ast.unparse(d) for d in callee.decorator_list}
        if callee.args.vararg or callee.args.kwarg or callee.args.kwonlyargs or decs - {"staticmethod", "classmethod"}:
            return None
        preset = {}
        if "staticmethod" not in decs:
            if not params:
                return None
            recv, params = params[0], params[1:]
            preset[recv] = ("param", "self") if "classmethod" not in decs else ("param", "cls")
        if len(args) > len(params) or any(k not in params for k in kws):
            return None
        preset.update(zip(params, args))
        preset.update(kws)
        defaults = dict(zip(params[len(params) - len(callee.args.defaults):], callee.args.defaults))
        for p_ in params:
            if p_ not in preset:
                if p_ not in defaults:
                    return None
                preset[p_] = self.ev(defaults[p_]) if isinstance(defaults[p_], ast.Constant) else None
                if preset[p_] is None:
                    return None
        sub = Flow(callee, self.file, keep_arms=False, resolver=self.resolver, _depth=self._depth + 1, _env=preset)
        rets = [(f.value, list(f.guards)) for f in sub.facts if f.kind == "return"]
        if not rets or any(f.kind in ("store", "augstore", "attrstore", "append", "mutate") for f in sub.facts):
            return None

        def build(rs):
            if len(rs) == 1 and not rs[0][1]:
                return rs[0][0]
            conds = [g[0] for v, gs in rs for g in gs[:1]]
            if not conds or any(not gs for v, gs in rs):
                return None
            c = conds[0]
            t = [(v, gs[1:]) for v, gs in rs if gs[0] == (c, True)]
            e = [(v, gs[1:]) for v, gs in rs if gs[0] == (c, False)]
            if len(t) + len(e) != len(rs) or not t or not e:
                return None
            a, b = build(t), build(e)
            if a is None or b is None:
                return None
            return ("phi", c, a, b)
        return build(rets)

    # ---- binding ----------------------------------------------------------
    def bind(self, target, value, node):
        if isinstance(target, ast.Name):
            if target.id in self.acc:
                self.fact("init", target.id, None, "=", value, node)
            self.assigns.setdefault(target.id, []).append(
                (value, tuple(self.loops), self._guards(), getattr(node, "lineno", 0), next(self._seq)))
            self.env[target.id] = value
        elif isinstance(target, (ast.Tuple, ast.List)):
            star = [i for i, e in enumerate(target.elts) if isinstance(e, ast.Starred)]
            n = len(target.elts)
            for i, e in enumerate(target.elts):
                if isinstance(e, ast.Starred):
                    self.bind(e.value, ("item", value, ("star", i, n)), node)
                elif value[0] in ("tuple", "list") and not star and len(value[1]) == n:
                    self.bind(e, value[1][i], node)
                else:
                    self.bind(e, ("item", value, i if not star or i < star[0] else i - n), node)
        elif isinstance(target, ast.Subscript):
            base = target.value
            bname = base.id if isinstance(base, ast.Name) else ast.unparse(base)
            self.fact("store", bname, self.ev(target.slice), "=", value, node, base=self.ev(base) if not isinstance(base, ast.Name) else None)
        elif isinstance(target, ast.Attribute):
            self.fact("attrstore", target.attr, None, "=", value, node, obj=self.ev(target.value))
        elif isinstance(target, ast.Starred):
            self.bind(target.value, value, node)

    def bind_iter(self, target, it, lp: Loop, comp=False):
        """Bind loop targets to abstract elements of `it`; returns the IR of the targets."""
        def elem_of(x):
            return ("elem", x, lp.id)

        def mk(name_node, val):
            if comp:
                bv = ("bv", name_node.id, lp.id)
                self.env[name_node.id] = bv
                lp.bvals[bv] = val
                return bv
            self.env[name_node.id] = val
            return val

        # enumerate(X[, start])
        if it[0] == "call" and it[1] == ("global", "enumerate") and isinstance(target, (ast.Tuple, ast.List)) and len(target.elts) == 2:
            inner = strip_transparent(it[2][0])
            start = it[2][1] if len(it[2]) > 1 else next((v for k, v in it[3] if k == "start"), None)
            a, b = target.elts
            idx = ("idx", inner, lp.id) if start is None else ("binop", "Add", ("idx", inner, lp.id), start)
            ra = mk(a, idx) if isinstance(a, ast.Name) else None
            rb = self.bind_iter(b, inner, lp, comp)
            return ("tuple", (ra, rb))
        if it[0] == "call" and it[1] == ("global", "zip") and isinstance(target, (ast.Tuple, ast.List)) \
                and len(target.elts) == len(it[2]) and not any(isinstance(e, ast.Starred) for e in target.elts):
            return ("tuple", tuple(self.bind_iter(e, strip_transparent(x), lp, comp) for e, x in zip(target.elts, it[2])))
        if it[0] == "meth" and it[2] == "items" and not it[3] and isinstance(target, (ast.Tuple, ast.List)) and len(target.elts) == 2:
            k, v = target.elts
            rk = mk(k, ("key", it[1], lp.id)) if isinstance(k, ast.Name) else None
            if isinstance(v, ast.Name):
                rv = mk(v, ("val", it[1], lp.id))
            else:
                rv = self._destructure(v, ("val", it[1], lp.id), mk)
            return ("tuple", (rk, rv))
        if isinstance(target, ast.Name):
            return mk(target, elem_of(it))
        return self._destructure(target, elem_of(it), mk)

    def _destructure(self, target, val, mk):
        if isinstance(target, ast.Name):
            return mk(target, val)
        if isinstance(target, (ast.Tuple, ast.List)):
            return ("tuple", tuple(self._destructure(e, ("item", val, i), mk) for i, e in enumerate(target.elts)))
        if isinstance(target, ast.Starred):
            return self._destructure(target.value, val, mk)
        return ("unknown", ast.dump(target)[:40])

    # ---- statements ---------------------------------------------------------
    def block(self, stmts):
        pushed = 0
        for s in stmts:
            m = getattr(self, "s_" + type(s).__name__, None)
            if m is None:
                self.fact("unknown-stmt", type(s).__name__, None, None, None, s)
            else:
                m(s)
            # statements after an `if` that may leave the block (return/raise/continue/break,
            # possibly nested) run only when its exit condition is false
            if isinstance(s, ast.If):
                t_term = _terminates(s.body)
                f_term = _terminates(s.orelse) if s.orelse else False
                if t_term != f_term:
                    self.guards.append((self._last_if_test, not t_term))
                    pushed += 1
                elif not t_term and not f_term and not self.keep_arms:
                    ec = self._exit_cond([s])
                    if ec is not None:
                        self.guards.append((ec, False))
                        pushed += 1
        for _ in range(pushed):
            self.guards.pop()

    def _exit_cond(self, stmts):
        """Condition (IR) under which the statement list leaves the enclosing block; None = never / unknown."""
        conds = []
        for st in stmts:
            if isinstance(st, (ast.Return, ast.Raise, ast.Continue, ast.Break)):
                return ("const", True)
            if isinstance(st, ast.If):
                c = self._if_tests.get(id(st))
                if c is None:
                    continue
                a = self._exit_cond(st.body)
                b = self._exit_cond(st.orelse) if st.orelse else None
                if a == ("const", True) and b == ("const", True):
                    return ("const", True)
                if a is not None:
                    conds.append(c if a == ("const", True) else ("bool", "And", (c, a)))
                if b is not None:
                    nc = ("unop", "Not", c)
                    conds.append(nc if b == ("const", True) else ("bool", "And", (nc, b)))
        if not conds:
            return None
        return conds[0] if len(conds) == 1 else ("bool", "Or", tuple(conds))

    def s_Assign(self, s):
        v = self.ev(s.value)
        for t in s.targets:
            self.bind(t, v, s)
            if isinstance(t, ast.Name):
                if isinstance(s.value, ast.Name) and v[0] not in ("const", "param", "global"):
                    self.alias_of[t.id] = s.value.id
                else:
                    self.alias_of.pop(t.id, None)

    def s_AnnAssign(self, s):
        if s.value is not None:
            self.bind(s.target, self.ev(s.value), s)

    def s_AugAssign(self, s):
        v = self.ev(s.value)
        op = type(s.op).__name__
        t = s.target
        if isinstance(t, ast.Name):
            cur = self.lookup(t.id)
            self.fact("augassign", t.id, None, op, v, s)
            self.env[t.id] = ("binop", op, cur, v)
        elif isinstance(t, ast.Subscript):
            base = t.value
            bname = base.id if isinstance(base, ast.Name) else ast.unparse(base)
            self.fact("augstore", bname, self.ev(t.slice), op, v, s)
        elif isinstance(t, ast.Attribute):
            self.fact("attrstore", t.attr, None, op, v, s, obj=self.ev(t.value))

    def s_Expr(self, s):
        n = s.value
        if isinstance(n, ast.Call) and isinstance(n.func, ast.Attribute):
            f = n.func
            args = tuple(self.ev(a) for a in n.args)
            kws = tuple((k.arg or "**", self.ev(k.value)) for k in n.keywords)
            if isinstance(f.value, ast.Name) and f.value.id in self.env and self.env[f.value.id][0] != "param":
                name = f.value.id
                if f.attr in ("append", "add") and len(args) == 1:
                    self.fact("append", name, None, f.attr, args[0], s)
                    if name not in self.acc:
                        self.env[name] = ("appended", self.env[name], args[0])
                    return
                if f.attr == "remove" and len(args) == 1:
                    self.fact("remove", name, None, "remove", args[0], s)
                    if name not in self.acc:
                        cur = self.env[name]
                        if name in self.alias_of:
                            cur = ("aliased", cur, self.alias_of[name])
                        self.env[name] = ("removeone", cur, args[0])
                    return
                if f.attr in ("extend", "update", "insert", "pop", "clear", "sort", "reverse"):
                    self.fact("mutate", name, None, f.attr, args[0] if args else None, s, args=args)
                    if name not in self.acc:
                        self.env[name] = ("mutated", self.env[name], f.attr, args)
                    return
            self.fact("call", f.attr, None, None, ("meth", self.ev(f.value), f.attr, args, kws), s)
            return
        if isinstance(n, ast.Call):
            self.fact("call", ast.unparse(n.func), None, None, self.ev(n), s)
            return
        if isinstance(n, ast.Constant):
            return  # docstring
        self.fact("expr", "", None, None, self.ev(n), s)

    @staticmethod
    def _stored_in(body) -> set:
        out = set()
        for node in ast.walk(ast.Module(body=body, type_ignores=[])):
            if isinstance(node, (ast.Assign, ast.AugAssign)):
                tg = node.targets if isinstance(node, ast.Assign) else [node.target]
                for t in tg:
                    if isinstance(t, ast.Subscript) and isinstance(t.value, ast.Name):
                        out.add(t.value.id)
            elif isinstance(node, ast.Expr) and isinstance(node.value, ast.Call) and isinstance(node.value.func, ast.Attribute) \
                    and isinstance(node.value.func.value, ast.Name) and node.value.func.attr in ("append", "extend", "add", "update", "insert", "pop", "remove"):
                out.add(node.value.func.value.id)
        return out

    def _carry(self, body, lp):
        """Names assigned in a loop body and defined before it become loop-carried."""
        assigned = set()
        for node in ast.walk(ast.Module(body=body, type_ignores=[])):
            if isinstance(node, ast.Name) and isinstance(node.ctx, ast.Store):
                assigned.add(node.id)
            elif isinstance(node, ast.Expr) and isinstance(node.value, ast.Call) and isinstance(node.value.func, ast.Attribute) \
                    and isinstance(node.value.func.value, ast.Name) and node.value.func.attr in ("append", "remove", "extend", "update", "add", "insert", "pop"):
                assigned.add(node.value.func.value.id)
        return assigned

    def s_For(self, s):
        it = strip_transparent(self.ev(s.iter))
        lp = Loop(next(self._uid), it, ast.unparse(s.target), s.lineno)
        self.all_loops[lp.id] = lp
        assigned = self._carry(s.body, lp)
        pre = dict(self.env)
        for nm in assigned:
            if nm in pre and nm not in self.acc:
                self.env[nm] = ("carried", nm, lp.id)
        self.bind_iter(s.target, it, lp)
        self.loops.append(lp)
        self._loop_stored.append(self._stored_in(s.body))
        self.block(s.body)
        self._loop_stored.pop()
        self.loops.pop()
        for nm in assigned:
            if nm not in self.acc and nm in self.env:
                self.env[nm] = ("carried", nm, lp.id) if nm in pre else ("after", self.env[nm], lp.id)
        if s.orelse:
            self.block(s.orelse)

    def s_While(self, s):
        lp = Loop(next(self._uid), ("while", self.ev(s.test)), "", s.lineno, "while")
        self.all_loops[lp.id] = lp
        assigned = self._carry(s.body, lp)
        pre = dict(self.env)
        for nm in assigned:
            if nm in pre and nm not in self.acc:
                self.env[nm] = ("carried", nm, lp.id)
        self.loops.append(lp)
        self._loop_stored.append(self._stored_in(s.body))
        self.block(s.body)
        self._loop_stored.pop()
        self.loops.pop()
        for nm in assigned:
            if nm not in self.acc and nm in self.env:
                self.env[nm] = ("carried", nm, lp.id)

    def s_If(self, s):
        c = self.ev(s.test)
        self._cur_if = c
        self._if_tests[id(s)] = c
        pre = dict(self.env)
        self.guards.append((c, True))
        self.block(s.body)
        self.guards.pop()
        env_t = self.env
        self.env = dict(pre)
        self.guards.append((c, False))
        self.block(s.orelse)
        self.guards.pop()
        env_f = self.env
        merged = {}
        t_term = _terminates(s.body)
        f_term = _terminates(s.orelse) if s.orelse else False
        for nm in set(env_t) | set(env_f):
            a, b = env_t.get(nm), env_f.get(nm)
            if t_term and not f_term:
                merged[nm] = b if b is not None else a
                if self.keep_arms and b is not None and b != pre.get(nm):
                    merged[nm] = ("phi", c, ("undef",), b)
            elif f_term and not t_term:
                merged[nm] = a if a is not None else b
                if self.keep_arms and a is not None and a != pre.get(nm):
                    merged[nm] = ("phi", c, a, ("undef",))
            elif a == b and (a == pre.get(nm) or not self.keep_arms):
                merged[nm] = a
            else:
                merged[nm] = ("phi", c, a if a is not None else ("undef",), b if b is not None else ("undef",))
        self.env = merged
        self._last_if_test = c

    def s_Return(self, s):
        self.fact("return", "", None, None, self.ev(s.value) if s.value else ("const", None), s)

    def s_Raise(self, s):
        self.fact("raise", "", None, None, self.ev(s.exc) if s.exc else None, s)

    def s_Pass(self, s):
        pass

    def s_Break(self, s):
        self.fact("break", "", None, None, None, s)

    def s_Continue(self, s):
        self.fact("continue", "", None, None, None, s)

    def s_Assert(self, s):
        self.fact("assert", "", None, None, self.ev(s.test), s)

    def s_Delete(self, s):
        for t in s.targets:
            self.fact("delete", ast.unparse(t), None, None, None, s)

    def s_With(self, s):
        for item in s.items:
            v = self.ev(item.context_expr)
            if item.optional_vars is not None:
                self.bind(item.optional_vars, ("with", v), s)
        self.block(s.body)

    def s_Try(self, s):
        self.block(s.body)
        for h in s.handlers:
            self.guards.append((("except", ast.unparse(h.type) if h.type else ""), True))
            if h.name:
                self.env[h.name] = ("exc", h.name)
            self.block(h.body)
            self.guards.pop()
        self.block(s.orelse)
        self.block(s.finalbody)

    def s_FunctionDef(self, s):
        self.env[s.name] = ("localfunc", s.name)

    def s_ClassDef(self, s):
        self.env[s.name] = ("localclass", s.name)

    def s_Import(self, s):
        pass

    def s_ImportFrom(self, s):
        pass

    def s_Global(self, s):
        pass

    def s_Nonlocal(self, s):
        pass


def _terminates(stmts) -> bool:
    return bool(stmts) and isinstance(stmts[-1], (ast.Return, ast.Raise, ast.Continue, ast.Break))


def strip_transparent(v):
    while v[0] == "call" and v[1][0] == "global" and v[1][1] in TRANSPARENT and len(v[2]) == 1 and not v[3]:
        v = v[2][0]
    return v


def flatten_fstr(v):
    if v[0] != "fstr":
        return v
    parts = []
    for p in v[1]:
        if p[0] == "fstr":
            parts.extend(flatten_fstr(p)[1])
        elif p[0] == "const" and isinstance(p[1], str) and parts and parts[-1][0] == "const":
            parts[-1] = ("const", parts[-1][1] + p[1])
        else:
            parts.append(p)
    if len(parts) == 1 and parts[0][0] == "const":
        return parts[0]
    if not parts:
        return ("const", "")
    return ("fstr", tuple(parts))


# ------------------------------------------------------------------ IR utilities

def subst(v, mapping: dict):
    """Replace sub-terms (exact match) by others, bottom-up."""
    if v in mapping:
        return mapping[v]
    if not isinstance(v, tuple):
        return v
    out = tuple(subst(x, mapping) if isinstance(x, tuple) else x for x in v)
    return mapping.get(out, out)


def walk(v):
    yield v
    if isinstance(v, tuple):
        for x in v:
            if isinstance(x, tuple):
                yield from walk(x)


def contains(v, pred) -> bool:
    return any(pred(x) for x in walk(v))


def show(v, depth=0) -> str:
    """Compact human-readable rendering of an IR value for reports."""
    if not isinstance(v, tuple) or not v:
        return repr(v)
    k = v[0]
    try:
        if k == "const":
            return repr(v[1])
        if k in ("param", "global"):
            return v[1]
        if k == "bv":
            return v[1]
        if k == "attr":
            return f"{show(v[1])}.{v[2]}"
        if k == "fstr":
            return "f\"" + "".join(p[1] if p[0] == "const" else "{" + show(p[1] if p[0] == "fmt" else p) + (":" + str(p[2]) if p[0] == "fmt" and p[2] else "") + "}" for p in v[1]) + "\""
        if k == "join":
            return f"{show(v[1])}.join({show(v[2])})"
        if k in ("list", "tuple", "set"):
            o, c = {"list": "[]", "tuple": "()", "set": "{}"}[k]
            return o + ", ".join(show(x) for x in v[1]) + c
        if k == "star":
            return "*" + show(v[1])
        if k == "comp":
            gens = " ".join(f"for {show(t)} in {show(i)}" + "".join(f" if {show(c)}" for c in ifs) for t, i, ifs in v[3])
            return f"[{show(v[2])} {gens}]"
        if k == "elem":
            return f"elem#{v[2]}({show(v[1])})"
        if k == "idx":
            return f"index#{v[2]}({show(v[1])})"
        if k in ("key", "val"):
            return f"{k}#{v[2]}({show(v[1])})"
        if k == "item":
            return f"{show(v[1])}[{v[2]}]"
        if k == "call":
            return f"{show(v[1])}({', '.join([show(a) for a in v[2]] + [f'{kk}={show(x)}' for kk, x in v[3]])})"
        if k == "meth":
            return f"{show(v[1])}.{v[2]}({', '.join([show(a) for a in v[3]] + [f'{kk}={show(x)}' for kk, x in v[4]])})"
        if k == "binop":
            sym = {"Add": "+", "Sub": "-", "Mult": "*", "Div": "/", "Mod": "%", "FloorDiv": "//", "Pow": "**", "BitOr": "|", "BitAnd": "&"}.get(v[1], v[1])
            return f"({show(v[2])} {sym} {show(v[3])})"
        if k == "unop":
            return f"{v[1]}({show(v[2])})"
        if k == "cmp":
            sym = {"Eq": "==", "NotEq": "!=", "Lt": "<", "LtE": "<=", "Gt": ">", "GtE": ">=", "In": "in", "NotIn": "not in", "Is": "is", "IsNot": "is not"}
            s = show(v[2][0])
            for o, x in zip(v[1], v[2][1:]):
                s += f" {sym.get(o, o)} {show(x)}"
            return s
        if k == "bool":
            return "(" + (" and " if v[1] == "And" else " or ").join(show(x) for x in v[2]) + ")"
        if k == "ifexp":
            return f"({show(v[2])} if {show(v[1])} else {show(v[3])})"
        if k == "sub":
            return f"{show(v[1])}[{show(v[2])}]"
        if k == "slice":
            return ":".join("" if x == ("const", None) else show(x) for x in v[1:3])
        if k == "copy":
            return f"copy({show(v[1])})"
        if k == "removeone":
            return f"removeone({show(v[1])}, {show(v[2])})"
        if k == "appended":
            return f"({show(v[1])} ++ [{show(v[2])}])"
        if k == "phi":
            return f"phi({show(v[1])}; {show(v[2])}; {show(v[3])})"
        if k == "carried":
            return f"carried:{v[1]}"
        if k == "acc":
            return f"acc:{v[1]}"
    except Exception:
        pass
    return str(v)[:120]


# ------------------------------------------------------------------ sequences as maps

_fresh = itertools.count(1000000)


def as_map(v):
    """View a list-valued IR as `[body(bv) for bv in base if filters]`.
    -> (bv, body, base, filters) or None.  `base` is a non-comprehension value."""
    k = v[0]
    if k == "copy":
        return as_map(v[1])
    if k == "comp" and v[1] in ("list", "gen") and len(v[3]) == 1:
        tg, it, ifs = v[3][0]
        if tg is not None and tg[0] == "tuple" and it[0] == "call" and it[1] == ("global", "zip") and not it[3] \
                and len(tg[1]) == len(it[2]) and all(t is not None and t[0] == "bv" for t in tg[1]):
            # zip of unfiltered maps over one base: a single map over that base
            maps = [as_map(a) for a in it[2]]
            if all(m is not None and not m[3] for m in maps) and len({m[2] for m in maps}) == 1:
                e = ("bv", "_z", next(_fresh))
                sub = {t: simp(subst(m[1], {m[0]: e})) for t, m in zip(tg[1], maps)}
                return (e, simp(subst(v[2], sub)), maps[0][2], tuple(simp(subst(c, sub)) for c in ifs))
            return None
        if tg is None or tg[0] != "bv":
            return None
        inner = as_map(it) if it[0] in ("comp", "copy") else None
        if inner is None:
            return (tg, v[2], it, tuple(ifs))
        bv2, body2, base2, ifs2 = inner
        m = {tg: body2}
        return (bv2, simp(subst(v[2], m)), base2, tuple(ifs2) + tuple(simp(subst(c, m)) for c in ifs))
    if k in ("attr", "param", "global", "elem", "val", "sub", "item", "meth", "call"):
        bv = ("bv", "_x", next(_fresh))
        return (bv, bv, v, ())
    return None


def seq_base(v):
    """Base sequence of a position-preserving (unfiltered, one-to-one) view, else None."""
    if v[0] in ("phi", "ifexp"):
        a, b = seq_base(v[2]), seq_base(v[3])
        return a if a == b else None
    if v[0] in ("comp", "copy"):
        m = as_map(v)
        return m[2] if m and not m[3] else None
    if v[0] in ("attr", "param"):
        return v
    return None


def prefix_map(v):
    """Map describing the leading len(base) elements of a list value."""
    k = v[0]
    if k == "appended":
        return prefix_map(v[1])
    if k == "phi":
        a, b = prefix_map(v[2]), prefix_map(v[3])
        if a and b and norm_bv(a) == norm_bv(b):
            return a
        return None
    return as_map(v)


def norm_bv(m):
    bv, body, base, ifs = m
    z = ("bv", "_", 0)
    return (simp(subst(body, {bv: z})), base, tuple(simp(subst(c, {bv: z})) for c in ifs))


def simp(v):
    """Bottom-up simplification with the two rewrite rules of DESIGN E2."""
    if not isinstance(v, tuple) or not v:
        return v
    k = v[0]
    if k in ("const", "param", "global", "bv", "acc", "carried", "unknown"):
        return v
    v = tuple(simp(x) if isinstance(x, tuple) and x and isinstance(x[0], str) else
              (tuple(simp(y) if isinstance(y, tuple) and y and isinstance(y[0], str) else
                     (tuple(simp(z) if isinstance(z, tuple) and z and isinstance(z[0], str) else z for z in y) if isinstance(y, tuple) else y)
                     for y in x) if isinstance(x, tuple) else x)
              for x in v)
    k = v[0]
    if k == "fstr":
        parts = []
        for p in v[1]:
            if p[0] == "fmt" and p[2] is None and p[3] == -1:
                inner = p[1]
                if inner[0] == "const" and isinstance(inner[1], str):
                    parts.append(inner)
                    continue
                if inner[0] == "fstr":
                    parts.extend(inner[1])
                    continue
            parts.append(p)
        return flatten_fstr(("fstr", tuple(parts)))
    if k == "sub":
        base, idx = v[1], v[2]
        if base[0] in ("list", "tuple") and idx[0] == "const" and isinstance(idx[1], int) \
                and not any(e[0] == "star" for e in base[1]) and -len(base[1]) <= idx[1] < len(base[1]):
            return base[1][idx[1]]
        if idx[0] == "meth" and idx[2] == "index" and len(idx[3]) == 1 and not idx[4]:
            pm = prefix_map(base)
            if pm and not pm[3] and pm[2] == idx[1]:
                return simp(subst(pm[1], {pm[0]: idx[3][0]}))
    # a list literal grown by (conditional) appends outside loops is still a literal list, case by case
    if k == "appended" and v[1][0] == "list" and not any(e[0] == "star" for e in v[1][1]):
        return simp(("list", tuple(v[1][1]) + (v[2],)))
    if k == "appended" and v[1][0] in ("phi", "ifexp"):
        return (v[1][0], v[1][1], simp(("appended", v[1][2], v[2])), simp(("appended", v[1][3], v[2])))
    if k == "join" and v[2][0] in ("phi", "ifexp") and v[1][0] == "const":
        return (v[2][0], v[2][1], simp(("join", v[1], v[2][2])), simp(("join", v[1], v[2][3])))
    if k == "join" and v[1][0] == "const" and isinstance(v[1][1], str) and v[2][0] in ("list", "tuple") \
            and all(e[0] in ("const", "fstr") and (e[0] != "const" or isinstance(e[1], str)) for e in v[2][1]):
        parts = []
        for i, e in enumerate(v[2][1]):
            if i and v[1][1]:
                parts.append(v[1])
            parts.extend(e[1] if e[0] == "fstr" else [e])
        return flatten_fstr(("fstr", tuple(parts)))
    if k == "binop" and v[1] == "Add" and is_str(v[2]) and is_str(v[3]):
        def parts(x):
            if x[0] == "fstr":
                return list(x[1])
            if x[0] == "const":
                return [x]
            return [("fmt", x, None, -1)]
        return simp(("fstr", tuple(parts(v[2]) + parts(v[3]))))
    if k == "item" and v[1][0] in ("tuple", "list") and isinstance(v[2], int) and not any(e[0] == "star" for e in v[1][1]):
        if -len(v[1][1]) <= v[2] < len(v[1][1]):
            return v[1][1][v[2]]
    if k == "idx" and v[1][0] == "call" and v[1][1] == ("global", "zip") and v[1][2] and not v[1][3]:
        bases = {seq_base(a) for a in v[1][2]}
        if len(bases) == 1 and None not in bases:
            return ("idx", next(iter(bases)), v[2])
    if k == "idx" and v[1][0] in ("comp", "copy"):
        m = as_map(v[1])
        if m and not m[3]:
            return ("idx", m[2], v[2])
    if k == "sub" and v[2][0] == "idx" and v[2][1] == v[1]:
        return ("elem", v[1], v[2][2])
    # an element of range(lo, lo + n) is lo + an element of range(n): ranges are compared zero-based
    if k == "elem" and v[1][0] == "call" and v[1][1] == ("global", "range") and len(v[1][2]) == 2 and not v[1][3]:
        lo, hi = v[1][2]
        if hi[0] == "binop" and hi[1] == "Add" and lo != ("const", 0):
            n = hi[3] if hi[2] == lo else hi[2] if hi[3] == lo else None
            if n is not None:
                return ("binop", "Add", lo, ("elem", ("call", ("global", "range"), (n,), ()), v[2]))
    if k == "elem" and v[1][0] in ("phi", "ifexp"):
        return ("phi", v[1][1], simp(("elem", v[1][2], v[2])), simp(("elem", v[1][3], v[2])))
    if k == "elem":
        seq = v[1]
        if seq[0] in ("comp", "copy"):
            m = as_map(seq)
            if m:
                bv, body, base, ifs = m
                b2 = ("filtered", base, bv, ifs) if ifs else base
                return simp(subst(body, {bv: ("elem", b2, v[2])}))
    return v


# ------------------------------------------------------------------ pattern matching

def V(name):
    return ("?", name)


def match(pat, v, b=None):
    """Structural match of IR `v` against `pat` with variables ("?", name).
    -> dict of bindings or None."""
    if b is None:
        b = {}
    if isinstance(pat, tuple) and len(pat) == 2 and pat[0] == "?":
        if pat[1] in b:
            return b if b[pat[1]] == v else None
        b = dict(b)
        b[pat[1]] = v
        return b
    if isinstance(pat, tuple):
        if not isinstance(v, tuple) or len(pat) != len(v):
            return None
        for p, x in zip(pat, v):
            b = match(p, x, b)
            if b is None:
                return None
        return b
    return b if pat == v else None


# ------------------------------------------------------------------ lowering to C text with holes

STRINGY = ("join", "fstr")


def is_str(v) -> bool:
    return v[0] in STRINGY or (v[0] == "const" and isinstance(v[1], str)) or \
        (v[0] == "ifexp" and is_str(v[2]) and is_str(v[3])) or \
        (v[0] == "meth" and v[2] in ("replace", "strip", "format", "upper", "lower", "lstrip", "rstrip"))


class Lowered:
    def __init__(self):
        self.text = ""
        self.holes = {}     # name -> IR (scalar-valued text)
        self.seqs = {}      # name -> (sep, IR of the sequence)
        self.errors = []    # [(kind, IR)]

    def hole(self, v):
        for k, x in self.holes.items():
            if x == v:
                return k
        k = f"H{len(self.holes)}_"
        self.holes[k] = v
        return k

    def seq(self, sep, v):
        k = f"SEQ{len(self.seqs)}_"
        self.seqs[k] = (sep, v)
        return k


def lower(v, lw: Lowered | None = None) -> Lowered:
    top = lw is None
    if lw is None:
        lw = Lowered()
    lw.text += _lower(simp(v) if top else v, lw)
    return lw


def _lower(v, lw) -> str:
    k = v[0]
    if k == "const":
        return v[1] if isinstance(v[1], str) else repr(v[1])
    if k == "fstr":
        return "".join(_lower(p, lw) for p in v[1])
    if k == "fmt":
        if v[2] is None and v[3] == -1:
            inner = v[1]
            if inner[0] in ("join", "fstr") or (inner[0] == "const" and isinstance(inner[1], str)):
                return _lower(inner, lw)
        return lw.hole(v)
    if k == "join":
        sep, seq = v[1], v[2]
        if sep[0] != "const" or not isinstance(sep[1], str):
            return lw.hole(v)
        if seq[0] in ("list", "tuple"):
            pieces = []
            for e in seq[1]:
                if e[0] == "star":
                    if is_str(e[1]):
                        lw.errors.append(("star-of-str", e[1]))
                        if e[1][0] == "join" and e[1][1] == sep:
                            # keep analysing the intended product; the unpacking itself is the finding
                            pieces.append(lw.seq(sep[1], e[1][2]))
                        else:
                            pieces.append(lw.hole(e))
                    else:
                        pieces.append(lw.seq(sep[1], e[1]))
                else:
                    pieces.append(_lower(e, lw))
            return sep[1].join(pieces)
        return lw.seq(sep[1], seq)
    return lw.hole(v)


def canon_ids(v, loopmap=None):
    """Rename loop ids (per `loopmap`) and bound-variable uids (in order of
    appearance) so that two reconstructions of the same shape compare equal."""
    loopmap = loopmap or {}
    bvs = {}

    def rec(x):
        if not isinstance(x, tuple) or not x:
            return x
        if x[0] == "bv" and len(x) == 3:
            if x not in bvs:
                bvs[x] = ("bv", x[1] if False else "_", len(bvs))
            return bvs[x]
        if x[0] in ("elem", "idx", "key", "val") and len(x) == 3:
            return (x[0], rec(x[1]), loopmap.get(x[2], x[2]))
        return tuple(rec(y) for y in x)
    return rec(v)


# ------------------------------------------------------------------ partial evaluation of variants

def truthy(v):
    """Truthiness of a string/number-valued IR when it is decidable from its shape; else None."""
    if v[0] == "const":
        return bool(v[1])
    if v[0] == "fstr":
        return True if any(p[0] == "const" and p[1] for p in v[1]) else None
    if v[0] in ("list", "tuple"):
        return bool(v[1])
    return None


def peval(v, assume: dict, as_cond: bool = False):
    """Specialise an IR under assumed truth values of conditions (keys: IR of the
    condition).  Assumptions are applied in condition positions only."""
    if not isinstance(v, tuple) or not v:
        return v
    if as_cond and v in assume:
        return ("const", assume[v])
    k = v[0]
    if k == "ifexp":
        c = peval(v[1], assume, True)
        t = truthy(c)
        if t is True:
            return peval(v[2], assume, as_cond)
        if t is False:
            return peval(v[3], assume, as_cond)
        return ("ifexp", c, peval(v[2], assume, as_cond), peval(v[3], assume, as_cond))
    if k == "bool":
        vals = [peval(x, assume, as_cond) for x in v[2]]
        out = []
        for x in vals:
            t = truthy(x)
            if v[1] == "And":
                if t is False:
                    return x if not out else ("bool", "And", tuple(out + [x]))
                if t is True:
                    continue
                out.append(x)
            else:
                if t is True:
                    return x if not out else ("bool", "Or", tuple(out + [x]))
                if t is False:
                    continue
                out.append(x)
        if not out:
            return vals[-1]
        return ("bool", v[1], tuple(out)) if len(out) > 1 else out[0]
    if k == "unop" and v[1] == "Not":
        x = peval(v[2], assume, True)
        t = truthy(x)
        return ("const", not t) if t is not None else ("unop", "Not", x)
    if k == "phi":
        c = peval(v[1], assume, True)
        t = truthy(c)
        if t is True:
            return peval(v[2], assume, as_cond)
        if t is False:
            return peval(v[3], assume, as_cond)
        return ("phi", c, peval(v[2], assume, as_cond), peval(v[3], assume, as_cond))
    if k == "comp":
        gens = tuple((tg, peval(it, assume), tuple(peval(c, assume, True) for c in ifs)) for tg, it, ifs in v[3])
        return ("comp", v[1], peval(v[2], assume, as_cond), gens)
    return simp(tuple(peval(x, assume, as_cond) if isinstance(x, tuple) else x for x in v))


def expand_bvals(flow, v):
    """Replace comprehension variables that stand for destructured enumerate/zip
    items by their meaning (elem/idx of the iterated sequences)."""
    m = {}
    for lp in flow.all_loops.values():
        m.update(lp.bvals)
    for _ in range(4):
        v2 = simp(subst(v, m))
        if v2 == v:
            break
        v = v2
    return v


# ---------------------------------------------------------------------- propositional reasoning over guards

def _unbool(c):
    """bool(x) has the truth value of x"""
    while isinstance(c, tuple) and len(c) == 4 and c[0] == "call" and c[1] == ("global", "bool") and len(c[2]) == 1 and not c[3]:
        c = c[2][0]
    return c


def _bool_atoms(c, acc):
    c = _unbool(c)
    if isinstance(c, tuple) and len(c) == 3 and c[0] == "unop" and c[1] == "Not":
        _bool_atoms(c[2], acc)
    elif isinstance(c, tuple) and len(c) == 3 and c[0] == "bool":
        for x in c[2]:
            _bool_atoms(x, acc)
    elif isinstance(c, tuple) and len(c) == 3 and c[0] == "cmp" and len(c[1]) == 1 and c[1][0] in _NEG_OP:
        acc.add(("cmp", (_NEG_OP[c[1][0]],), c[2]))
    else:
        acc.add(c)


def _bool_eval(c, env):
    c = _unbool(c)
    if isinstance(c, tuple) and len(c) == 3 and c[0] == "unop" and c[1] == "Not":
        return not _bool_eval(c[2], env)
    if isinstance(c, tuple) and len(c) == 3 and c[0] == "bool":
        vals = [_bool_eval(x, env) for x in c[2]]
        return all(vals) if c[1] == "And" else any(vals)
    if isinstance(c, tuple) and len(c) == 3 and c[0] == "cmp" and len(c[1]) == 1 and c[1][0] in _NEG_OP:
        return not env[("cmp", (_NEG_OP[c[1][0]],), c[2])]
    return env[c]


def guards_satisfiable(guards, extra=()):
    """Is there a truth assignment of the atomic conditions under which every (cond, polarity) of `guards` and `extra` holds?
    Atoms are whatever is not not/and/or (negative comparisons are the negation of their positive form)."""
    import itertools
    gs = [(simp(c), p) for c, p in list(guards) + list(extra)]
    atoms = set()
    for c, _ in gs:
        _bool_atoms(c, atoms)
    atoms = sorted(atoms, key=repr)
    if len(atoms) > 12:
        return True
    for vals in itertools.product((False, True), repeat=len(atoms)):
        env = dict(zip(atoms, vals))
        if all(_bool_eval(c, env) == p for c, p in gs):
            return True
    return False


def guards_imply(a, b):
    """every path on which all guards of `a` hold also satisfies all guards of `b`"""
    return all(not guards_satisfiable(a, [(c, not p)]) for c, p in b)
