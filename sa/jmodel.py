"""E4: model of the Jinja templates, from jinja2's own parser (nothing is rendered).

`load(tree, rel)` parses one template; `flatten(tree, rel, config)` resolves
includes and decides `{% if %}` tests over the finite configuration variables,
returning a list of items:

 ("text", str, line, file)
 ("out", expr, line, file)
 ("for", target, iter, body, else_, line, file, test)
 ("if", test, body, else_, line, file)          # test not decidable from config
 ("set", target, value, line, file)
 ("setblock", target, body, line, file)
 ("other", kind, line, file)

Expressions are hashable tuples:
 ("name", n) ("const", v) ("attr", base, name) ("item", base, idx)
 ("filter", name, base, (args), ((kw, v), ...)) ("call", f, (args), (kws))
 ("test", name, base, (args)) ("cmp", base, ((op, x), ...)) ("bin", op, a, b)
 ("neg"/"not"/"pos", x) ("and"/"or", a, b) ("cond", test, a, b) ("concat", (parts))
 ("list"/"tuple", (items)) ("dict", ((k, v), ...)) ("slice", a, b, c)
"""
from __future__ import annotations

import re as _re

import jinja2
from jinja2 import nodes

from .core import AnalysisError, SourceTree

TEMPLATE_ROOT = "naunet/templates"
_env = jinja2.Environment(trim_blocks=True)


def load(tree: SourceTree, rel: str) -> nodes.Template:
    cache = tree.__dict__.setdefault("_jcache", {})
    if rel not in cache:
        try:
            cache[rel] = _env.parse(tree.read(rel), name=rel, filename=rel)
        except jinja2.TemplateSyntaxError as e:
            raise AnalysisError(f"template does not parse: {rel}:{e.lineno}: {e.message}", (rel, e.lineno or 0))
    return cache[rel]


def all_templates(tree: SourceTree) -> list:
    return [f for f in tree.files() if f.startswith(TEMPLATE_ROOT + "/") and f.endswith(".j2")]


# Jinja's built-in filter aliases: one name per filter (canonical form)
_FILTER_ALIAS = {"count": "length", "d": "default", "e": "escape"}

BIN = {nodes.Add: "+", nodes.Sub: "-", nodes.Mul: "*", nodes.Div: "/", nodes.FloorDiv: "//",
       nodes.Mod: "%", nodes.Pow: "**"}


def _dict_keys(e):
    """iterating a dict iterates its keys: `x.element_count | first` is `x.element_count.keys() | first` (canonical form); also
    applied after a substitution (a loop variable standing for `x.element_count`) has produced the left-hand spelling"""
    if e[0] == "filter" and e[1] in ("first", "last", "list", "length", "join", "sort") and e[2][0] == "attr" and e[2][2] == "element_count":
        return e[:2] + (("call", ("attr", e[2], "keys"), (), ()),) + e[3:]
    return e


def jx(n):
    if n is None:
        return None
    t = type(n)
    if t is nodes.Name:
        return ("name", n.name)
    if t is nodes.Const:
        return ("const", n.value)
    if t is nodes.TemplateData:
        return ("const", n.data)
    if t is nodes.Getattr:
        return ("attr", jx(n.node), n.attr)
    if t is nodes.Getitem:
        return ("item", jx(n.node), jx(n.arg))
    if t is nodes.Filter:
        inner = jx(n.node)
        name = _FILTER_ALIAS.get(n.name, n.name)
        return _dict_keys(("filter", name, inner, tuple(jx(a) for a in n.args),
                           tuple((k.key, jx(k.value)) for k in n.kwargs)))
    if t is nodes.Test:
        return ("test", n.name, jx(n.node), tuple(jx(a) for a in n.args))
    if t is nodes.Call:
        return ("call", jx(n.node), tuple(jx(a) for a in n.args), tuple((k.key, jx(k.value)) for k in n.kwargs))
    if t is nodes.Compare:
        return ("cmp", jx(n.expr), tuple((o.op, jx(o.expr)) for o in n.ops))
    if t in BIN:
        l, r = jx(n.left), jx(n.right)
        # the one-based loop counters minus one are the zero-based ones: `loop.index - 1` is `loop.index0` (canonical form)
        if t is nodes.Sub and r == ("const", 1) and l[0] == "attr" and l[1] == ("name", "loop") and l[2] in ("index", "revindex"):
            return ("attr", l[1], l[2] + "0")
        # ... and counting from the other end: `loop.length - loop.revindex` is `loop.index0`, `loop.length - loop.index` is `loop.revindex0`
        if t is nodes.Sub and l == ("attr", ("name", "loop"), "length") and r[0] == "attr" and r[1] == ("name", "loop") and r[2] in ("index", "revindex"):
            return ("attr", r[1], {"revindex": "index0", "index": "revindex0"}[r[2]])
        # ... and `loop.index0 + 1` is `loop.index` (likewise revindex)
        if t is nodes.Add and l[0] == "attr" and l[1] == ("name", "loop") and r == ("const", 1) and l[2] in ("index0", "revindex0"):
            return ("attr", l[1], l[2][:-1])
        if BIN[t] == "+" and l == ("const", 1) and r[0] == "attr" and r[1] == ("name", "loop") and r[2] in ("index0", "revindex0"):
            return ("attr", r[1], r[2][:-1])
        return ("bin", BIN[t], l, r)
    if t is nodes.Neg:
        return ("neg", jx(n.node))
    if t is nodes.Pos:
        return ("pos", jx(n.node))
    if t is nodes.Not:
        return ("not", jx(n.node))
    if t is nodes.And:
        return ("and", jx(n.left), jx(n.right))
    if t is nodes.Or:
        return ("or", jx(n.left), jx(n.right))
    if t is nodes.CondExpr:
        return ("cond", jx(n.test), jx(n.expr1), jx(n.expr2))
    if t is nodes.Concat:
        return ("concat", tuple(jx(x) for x in n.nodes))
    if t is nodes.List:
        return ("list", tuple(jx(x) for x in n.items))
    if t is nodes.Tuple:
        return ("tuple", tuple(jx(x) for x in n.items))
    if t is nodes.Dict:
        return ("dict", tuple((jx(p.key), jx(p.value)) for p in n.items))
    if t is nodes.Slice:
        return ("slice", jx(n.start), jx(n.stop), jx(n.step))
    if t is nodes.NSRef:
        return ("attr", ("name", n.name), n.attr)
    return ("unknown", t.__name__)


# Jinja's built-in aliases of one filter (jinja2.filters.FILTERS maps both names to the same function): one canonical name
_FILTER_ALIAS = {"count": "length", "d": "default", "e": "escape"}


def path(e):
    """Dotted path of a name/attr chain, else None."""
    if e is None:
        return None
    if e[0] == "name":
        return e[1]
    if e[0] == "attr":
        b = path(e[1])
        return None if b is None else f"{b}.{e[2]}"
    return None


def show(e) -> str:
    if e is None:
        return ""
    k = e[0]
    if k == "name":
        return e[1]
    if k == "const":
        return repr(e[1])
    if k == "attr":
        return f"{show(e[1])}.{e[2]}"
    if k == "item":
        return f"{show(e[1])}[{show(e[2])}]"
    if k == "filter":
        a = ", ".join([show(x) for x in e[3]] + [f"{kk}={show(v)}" for kk, v in e[4]])
        return f"{show(e[2])}|{e[1]}" + (f"({a})" if a else "")
    if k == "test":
        return f"{show(e[2])} is {e[1]}" + (f"({', '.join(show(x) for x in e[3])})" if e[3] else "")
    if k == "call":
        return f"{show(e[1])}({', '.join([show(x) for x in e[2]] + [f'{kk}={show(v)}' for kk, v in e[3]])})"
    if k == "cmp":
        return show(e[1]) + "".join(f" {o} {show(x)}" for o, x in e[2])
    if k == "bin":
        return f"({show(e[2])} {e[1]} {show(e[3])})"
    if k in ("neg", "not", "pos"):
        return f"{k} {show(e[1])}"
    if k in ("and", "or"):
        return f"({show(e[1])} {k} {show(e[2])})"
    if k == "cond":
        return f"({show(e[2])} if {show(e[1])} else {show(e[3])})"
    if k == "concat":
        return " ~ ".join(show(x) for x in e[1])
    if k in ("list", "tuple"):
        return "[" + ", ".join(show(x) for x in e[1]) + "]"
    return str(e)


def canon(e):
    """Canonical form of a template expression, so that equivalent spellings of an index computation compare equal:
       (a / b) | int                      ->  a // b                 (non-negative operands: loop counters, lengths)
       (X | map(..) | list) | length      ->  X | length             (map / list keep the number of items)
       (X | map(F, args) | list)[i]       ->  X[i] | F(args)         (the i-th mapped item is the mapped i-th item;
       (X | map(attribute="a") | list)[i] ->  X[i].a                  `| list` of a plain sequence is the sequence)
       loop.index - 1                     ->  loop.index0            (definition of the loop counters)
       X | count                          ->  X | length             (Jinja's built-in alias)
       a - (a // n) * n                   ->  a % n                  (definition of the remainder; factors in either order)
    Applied bottom-up; anything else is left as it is."""
    if not isinstance(e, tuple) or not e:
        return e
    e = tuple(canon(x) if isinstance(x, tuple) else x for x in e)
    k = e[0]
    if k == "filter" and e[1] == "count":
        e = ("filter", "length") + e[2:]
    if k == "bin" and e[1] == "-" and e[3] == ("const", 1) and e[2][0] == "attr" and e[2][2] == "index" and e[2][1][0] == "name" \
            and e[2][1][1].startswith("loop"):
        return ("attr", e[2][1], "index0")
    if k == "bin" and e[1] == "-" and e[3][0] == "bin" and e[3][1] == "*":
        for q, n in ((e[3][2], e[3][3]), (e[3][3], e[3][2])):
            if q == ("bin", "//", e[2], n):
                return ("bin", "%", e[2], n)
    if k == "filter" and e[1] == "int" and not e[3] and not e[4] and e[2][0] == "bin" and e[2][1] == "/":
        return ("bin", "//", e[2][2], e[2][3])
    if k == "filter" and e[1] == "length" and not e[3] and not e[4]:
        x = e[2]
        while x[0] == "filter" and x[1] in ("list", "map"):
            x = x[2]
        return ("filter", "length", x, (), ())
    if k == "item":
        base, idx = e[1], e[2]
        if base[0] == "filter" and base[1] == "list" and not base[3] and not base[4]:
            inner = base[2]
            if inner[0] == "filter" and inner[1] == "map":
                src = canon(("item", ("filter", "list", inner[2], (), ()), idx))
                if not inner[3] and len(inner[4]) == 1 and inner[4][0][0] == "attribute" and inner[4][0][1][0] == "const" and "." not in str(inner[4][0][1][1]):
                    return ("attr", src, inner[4][0][1][1])
                if inner[3] and inner[3][0][0] == "const" and isinstance(inner[3][0][1], str):
                    return ("filter", inner[3][0][1], src, tuple(inner[3][1:]), tuple(inner[4]))
                return e
            if inner[0] in ("attr", "name"):
                return ("item", inner, idx)
    return e


def canon_items(items):
    """the same items with every expression (outputs, loop iterables and tests, `if` tests, `set` values) in canonical form"""
    out = []
    for it in items:
        k = it[0]
        if k == "out":
            out.append(("out", canon(it[1])) + tuple(it[2:]))
        elif k == "for":
            out.append(("for", it[1], canon(it[2]), tuple(canon_items(it[3])), tuple(canon_items(it[4])), it[5], it[6], canon(it[7]) if it[7] is not None else None))
        elif k == "if":
            out.append(("if", canon(it[1]), tuple(canon_items(it[2])), tuple(canon_items(it[3]))) + tuple(it[4:]))
        elif k == "set":
            out.append(("set", it[1], canon(it[2])) + tuple(it[3:]))
        elif k == "setblock":
            out.append(("setblock", it[1], tuple(canon_items(it[2]))) + tuple(it[3:]))
        else:
            out.append(it)
    return out


def canon_test(test, positive: bool = True):
    """A template test with the negations folded into a polarity: -> (test in positive form, polarity).
    `not t`, `a != b`, `a is ne(b)` flip the polarity; `a is eq(b)` / `equalto` / `==` is the comparison `a == b`; a constant on
    the left of `==` moves to the right.  An `{% if t %}A{% else %}B{% endif %}` arm B is canon_test(t, False)."""
    t = canon(test)
    for _ in range(6):
        if t[0] == "not":
            t, positive = t[1], not positive
        elif t[0] == "test" and t[1] in ("ne", "!=") and len(t[3]) == 1:
            t, positive = ("cmp", t[2], (("eq", t[3][0]),)), not positive
        elif t[0] == "test" and t[1] in ("eq", "equalto", "==") and len(t[3]) == 1:
            t = ("cmp", t[2], (("eq", t[3][0]),))
        elif t[0] == "cmp" and len(t[2]) == 1 and t[2][0][0] == "ne":
            t, positive = ("cmp", t[1], (("eq", t[2][0][1]),)), not positive
        elif t[0] == "cmp" and len(t[2]) == 1 and t[2][0][0] == "eq" and t[1][0] == "const" and t[2][0][1][0] != "const":
            t = ("cmp", t[2][0][1], (("eq", t[1]),))
        else:
            break
    return t, positive


def unfilter(e, transparent=()):
    """Strip filters; -> (base expr, [(name, args, kwargs), ...] innermost first)."""
    fs = []
    while e is not None and e[0] == "filter":
        fs.append((e[1], e[3], e[4]))
        e = e[2]
    return e, list(reversed(fs))


def subst(e, env: dict):
    """The expression with every name bound in `env` ({% set name = value %}, macro parameters) replaced by its value
    (values are expected to be substituted already; a chain of sets is followed)."""
    if isinstance(e, tuple) and len(e) == 2 and e[0] == "name" and e[1] in env:
        v = env[e[1]]
        return v if v == e else subst(v, {k: x for k, x in env.items() if k != e[1]})
    if isinstance(e, tuple):
        return tuple(subst(x, env) if isinstance(x, tuple) else x for x in e)
    return e


def inline_macros(tree, rel: str, e, _depth=0):
    """`helper(args)` used as a VALUE (`{{ helper(x) | filter }}`, `{% set v = helper(x) %}`): when the macro `helper` of the same
    template consists of one `{{ expression }}` and nothing else, its value is that expression with the parameters bound.
    Macros with any other body (text, control flow) are left as calls -- the caller then sees an unknown function."""
    if not isinstance(e, tuple):
        return e
    e = tuple(inline_macros(tree, rel, x, _depth) if isinstance(x, tuple) else x for x in e)
    if e and e[0] == "call" and isinstance(e[1], tuple) and e[1][0] == "name" and _depth < 8:
        m = _macros_of(tree, rel).get(e[1][1])
        if m is not None:
            body = _items(tree, m.body, rel, {}, _depth + 1)
            if len(body) == 1 and body[0][0] == "out":
                params = [a.name for a in m.args]
                if len(e[2]) <= len(params) and all(k in params for k, _ in e[3]):
                    env = dict(zip(params[len(params) - len(m.defaults):], (jx(d) for d in m.defaults)))
                    env.update(zip(params, e[2]))
                    env.update(dict(e[3]))
                    if all(p_ in env for p_ in params):
                        return inline_macros(tree, rel, subst(body[0][1], env), _depth + 1)
    return e


# ----------------------------------------------------------------- text an expression prints

def str_pieces(e) -> list:
    """What `{{ e }}` prints, as a list of pieces ("lit", text) | ("fmt", format spec, expr) | ("val", expr), independent of how the
    text is assembled: `a ~ b`, `"..{}..".format(a)`, `x | prefix(p) | suffix(s)` (naunet's own filters: p + x, x + s) and string
    constants all become the same sequence; adjacent literals are merged."""
    import string
    out = []

    def lit(t):
        if t == "":
            return
        if out and out[-1][0] == "lit":
            out[-1] = ("lit", out[-1][1] + t)
        else:
            out.append(("lit", t))

    def rec(x):
        if x[0] == "const" and isinstance(x[1], str):
            lit(x[1])
        elif x[0] == "concat":
            for p_ in x[1]:
                rec(p_)
        elif x[0] == "filter" and x[1] in ("prefix", "suffix") and len(x[3]) == 1 and not x[4]:
            if x[1] == "prefix":
                rec(x[3][0]); rec(x[2])
            else:
                rec(x[2]); rec(x[3][0])
        elif x[0] == "call" and x[1][0] == "attr" and x[1][2] == "format" and x[1][1][0] == "const" and isinstance(x[1][1][1], str) and not x[3]:
            try:
                fields = list(string.Formatter().parse(x[1][1][1]))
            except ValueError:
                out.append(("val", x)); return
            auto = 0
            tmp = []
            for text, name, spec, conv in fields:
                tmp.append(("lit", text))
                if name is None:
                    continue
                if name == "":
                    i = auto; auto += 1
                elif name.isdigit():
                    i = int(name)
                else:
                    out.append(("val", x)); return
                if i >= len(x[2]) or conv:
                    out.append(("val", x)); return
                tmp.append(("arg", x[2][i], spec or ""))
            for t in tmp:
                if t[0] == "lit":
                    lit(t[1])
                elif t[2] == "":
                    rec(t[1])
                else:
                    out.append(("fmt", t[2], t[1]))
        elif x[0] == "filter" and x[1] == "format" and x[2][0] == "const" and isinstance(x[2][1], str) and not x[4]:
            # Jinja's `"..%s..%.1f.." | format(a, b)` is printf-style: literal text, `%s` the value as it prints, `%<spec>` the value
            # under that spec (the same mini-language as str.format's for the conversions used here), `%%` a percent sign
            tmp, i, pos, t = [], 0, 0, x[2][1]
            for mt in _re.finditer(r"%(?:(%)|([-+ #0]*\d*(?:\.\d+)?)([sdifeEgG]))", t):
                tmp.append(("lit", t[pos:mt.start()]))
                pos = mt.end()
                if mt.group(1):
                    tmp.append(("lit", "%"))
                    continue
                if i >= len(x[3]):
                    out.append(("val", x)); return
                tmp.append(("arg", x[3][i], "" if mt.group(3) == "s" and not mt.group(2) else mt.group(2) + ("d" if mt.group(3) == "i" else mt.group(3))))
                i += 1
            if i != len(x[3]) or "%" in _re.sub(r"%(?:%|[-+ #0]*\d*(?:\.\d+)?[sdifeEgG])", "", t):
                out.append(("val", x)); return
            tmp.append(("lit", t[pos:]))
            for t_ in tmp:
                if t_[0] == "lit":
                    lit(t_[1])
                elif t_[2] == "":
                    rec(t_[1])
                else:
                    out.append(("fmt", t_[2], t_[1]))
        else:
            out.append(("val", x))
    rec(e)
    return out


def elementwise(seq, elt):
    """A chain of `| map(..)` filters over a base sequence as (base, the expression computed for one element `elt` of the base):
    `S | map(attribute="a") | map("prefix", p)`  ->  (S, elt.a | prefix(p)).  A sequence without map filters is (seq, elt)."""
    if seq[0] == "filter" and seq[1] == "map":
        base, inner = elementwise(seq[2], elt)
        kw = dict(seq[4])
        if not seq[3] and set(kw) == {"attribute"} and kw["attribute"][0] == "const" and isinstance(kw["attribute"][1], str):
            x = inner
            for part in kw["attribute"][1].split("."):
                x = ("attr", x, part)
            return base, x
        if seq[3] and seq[3][0][0] == "const" and isinstance(seq[3][0][1], str) and not seq[4]:
            return base, ("filter", seq[3][0][1], inner, tuple(seq[3][1:]), ())
        return seq, elt
    if seq[0] == "filter" and seq[1] == "list" and not seq[3] and not seq[4]:
        # `.. | map(..) | list` materialises the same elements in the same order
        return elementwise(seq[2], elt)
    return seq, elt


def _join_as_loop(e, line, rel):
    """`{{ S | map("f", a) | map("g", b) | join }}` prints, for every item x of S in order, `x | f(a) | g(b)` -- the loop
    `{% for x in S %}{{ x | f(a) | g(b) }}{% endfor %}` written as a filter pipeline; it is returned as that `for` item, so that
    rules about how a sequence is pasted read both spellings alike.  Only for `join` without a separator or with a
    whitespace-only one (layout between the items; it is kept as a text item of the body).  None for anything else."""
    if not (e[0] == "filter" and e[1] == "join" and not e[4] and len(e[3]) <= 1):
        return None
    sep = e[3][0] if e[3] else ("const", "")
    if sep[0] != "const" or not isinstance(sep[1], str) or sep[1].strip():
        return None
    var = ("name", f"_joined{line}")
    base, elt = elementwise(e[2], var)
    if any(isinstance(x, tuple) and x == var for x in _subterms(base)):
        return None
    body = (("out", elt, line, rel),) + ((("text", sep[1], line, rel),) if sep[1] else ())
    return ("for", var, base, body, (), line, rel, None)


def _subterms(e):
    yield e
    if isinstance(e, tuple):
        for x in e:
            if isinstance(x, tuple):
                yield from _subterms(x)


def scan(tree, items, env, guards=()):
    """The items of one template scope in order, with the `{% set %}` bindings in force at each item (names substituted, value
    macros inlined) and the enclosing `{% if %}` tests; descends into if-arms (same scope), not into loops."""
    for it in items:
        if it[0] == "set" and it[1][0] == "name":
            env[it[1][1]] = subst(inline_macros(tree, it[-1], it[2]), env)
        elif it[0] == "if":
            yield from scan(tree, it[2], env, guards + (("if+", it[1], dict(env)),))
            yield from scan(tree, it[3], env, guards + (("if-", it[1], dict(env)),))
        else:
            yield it, env, guards


def expr_at(tree, it, e, env):
    return subst(inline_macros(tree, it[6] if it[0] == "for" else it[-1], e), env)


def squeeze(pieces):
    """pieces with whitespace runs of the literals collapsed and the ends stripped"""
    out = []
    for p in pieces:
        if p[0] == "lit":
            t = _re.sub(r"\s+", " ", p[1])
            if out and out[-1][0] == "lit":
                out[-1] = ("lit", _re.sub(r"\s+", " ", out[-1][1] + t))
            else:
                out.append(("lit", t))
        else:
            out.append(p)
    if out and out[0][0] == "lit":
        out[0] = ("lit", out[0][1].lstrip())
    if out and out[-1][0] == "lit":
        out[-1] = ("lit", out[-1][1].rstrip())
    return [p for p in out if p != ("lit", "")]


def printed(tree, items, env):
    """what a run of text / output items prints, as str_pieces (sets and value macros followed, if-arms concatenated); a loop or
    other control item appears as ("ctl", item, bindings in force, enclosing if-tests)"""
    out = []
    for it, env_, guards in scan(tree, items, env):
        if it[0] == "text":
            out.append(("lit", it[1]))
        elif it[0] == "out":
            out.extend(str_pieces(expr_at(tree, it, it[1], env_)))
        elif it[0] == "other" and isinstance(it[1], str) and it[1].startswith(("macro-begin:", "macro-end:")):
            continue                # the brackets of an expanded macro call print nothing and control nothing
        else:
            out.append(("ctl", it, dict(env_), guards))
    return out


# ----------------------------------------------------------------- config tests

def decide(e, config: dict):
    """Three-valued evaluation of an `{% if %}` test under a configuration
    {dotted path: value}; None = not determined by the configuration."""
    k = e[0]
    if k == "cmp" and len(e[2]) == 1:
        op, rhs = e[2][0]
        l, r = e[1], rhs
        lv = _val(l, config)
        rv = _val(r, config)
        if lv is _UNK or rv is _UNK:
            return None
        if op == "eq":
            return lv == rv
        if op == "ne":
            return lv != rv
        if op == "in":
            try:
                return lv in rv
            except TypeError:
                return None
        if op == "notin":
            try:
                return lv not in rv
            except TypeError:
                return None
        return None
    if k == "not":
        v = decide(e[1], config)
        return None if v is None else not v
    if k == "and":
        a, b = decide(e[1], config), decide(e[2], config)
        if a is False or b is False:
            return False
        if a is True and b is True:
            return True
        return None
    if k == "or":
        a, b = decide(e[1], config), decide(e[2], config)
        if a is True or b is True:
            return True
        if a is False and b is False:
            return False
        return None
    v = _val(e, config)
    if v is _UNK:
        return None
    return bool(v)


_UNK = object()


def _val(e, config):
    if e[0] == "const":
        return e[1]
    if e[0] in ("list", "tuple"):
        vs = [_val(x, config) for x in e[1]]
        return _UNK if any(v is _UNK for v in vs) else vs
    p = path(e)
    if p is not None and p in config:
        return config[p]
    # network.shielding.get("H2") style lookups
    if e[0] == "call" and e[1][0] == "attr" and e[1][2] == "get" and len(e[2]) >= 1 and e[2][0][0] == "const":
        p = path(e[1][1])
        if p is not None and f"{p}.{e[2][0][1]}" in config:
            return config[f"{p}.{e[2][0][1]}"]
    if e[0] == "item" and e[2][0] == "const":
        p = path(e[1])
        if p is not None and f"{p}.{e[2][1]}" in config:
            return config[f"{p}.{e[2][1]}"]
    return _UNK


def config_tests(tree: SourceTree, rel: str, seen=None) -> list:
    """All `{% if %}` tests of a template (with includes), for enumeration."""
    out = []
    for it in _walk_all(tree, rel):
        if it[0] == "if":
            out.append(it[1])
    return out


# ----------------------------------------------------------------- flattening

def flatten(tree: SourceTree, rel: str, config: dict | None = None, _depth=0) -> list:
    tmpl = load(tree, rel)
    # a private copy: `{% set name = <value decided by the configuration> %}` is recorded in it (see _bind) so that a later
    # `{% if name %}` is decided exactly like the test it abbreviates
    return _items(tree, tmpl.body, rel, dict(config or {}), _depth)


def _macros_of(tree, rel):
    """{name: Macro node} defined at the top level of a template"""
    cache = tree.__dict__.setdefault("_jmacros", {})
    if rel not in cache:
        cache[rel] = {m.name: m for m in load(tree, rel).find_all(nodes.Macro)}
    return cache[rel]


import itertools as _it
_expansion = _it.count(1)         # serial number of a macro expansion (pairs its begin / end markers)
_IMPORTS = "\x00imports"          # key of `config` holding {alias: (template path, macro name | None for a whole-template alias)}


def _macro_of(tree, rel, config, callee):
    """(Macro node, template it is defined in) for the callee of `{{ callee(..) }}`: a macro of this template, `ns.name` with `ns` an
    imported template, or a name imported with `from .. import ..`; None for anything else"""
    imp = config.get(_IMPORTS, {})
    if isinstance(callee, nodes.Name):
        m = _macros_of(tree, rel).get(callee.name)
        if m is not None:
            return m, rel
        if callee.name in imp and imp[callee.name][1] is not None and tree.exists(imp[callee.name][0]):
            m = _macros_of(tree, imp[callee.name][0]).get(imp[callee.name][1])
            return (m, imp[callee.name][0]) if m is not None else None
    elif isinstance(callee, nodes.Getattr) and isinstance(callee.node, nodes.Name) and callee.node.name in imp and imp[callee.node.name][1] is None \
            and tree.exists(imp[callee.node.name][0]):
        m = _macros_of(tree, imp[callee.node.name][0]).get(callee.attr)
        return (m, imp[callee.node.name][0]) if m is not None else None
    return None


_PARAMS = "\x00macro-params"      # key of `config` holding {macro parameter: constant argument} inside a macro expansion


def _bind(config, n):
    """`{% set name = value %}`: when the value is decided by the configuration (a constant, `general.method in [..]`,
    `a == b or ..`), later tests on `name` are decided too; any other assignment makes `name` undetermined again."""
    if not isinstance(n.target, nodes.Name):
        for x in n.target.find_all(nodes.Name):
            config.pop(x.name, None)
        return
    e = jx(n.node)
    v = _val(e, config)
    if v is _UNK and e[0] in ("cmp", "and", "or", "not"):
        d = decide(e, config)
        v = _UNK if d is None else d
    if v is _UNK:
        config.pop(n.target.name, None)
    else:
        config[n.target.name] = v
    if n.target.name in config.get(_PARAMS, {}):
        config[_PARAMS] = {k: w for k, w in config[_PARAMS].items() if k != n.target.name}


def _forget(config, sub):
    """names assigned inside a body that may or may not run (undecided `if`, loop): undetermined afterwards"""
    for b in sub:
        for a in ([b] if isinstance(b, nodes.Assign) else []) + list(b.find_all(nodes.Assign)):
            for x in ([a.target] if isinstance(a.target, nodes.Name) else a.target.find_all(nodes.Name)):
                config.pop(x.name, None)


def _items(tree, body, rel, config, depth) -> list:
    out = []
    macros = _macros_of(tree, rel)
    for n in body:
        t = type(n)
        if t is nodes.Output:
            for c in n.nodes:
                if isinstance(c, nodes.TemplateData):
                    out.append(("text", c.data, c.lineno, rel))
                elif isinstance(c, nodes.Name) and isinstance(config.get(_PARAMS, {}).get(c.name), str):
                    # `{{ param }}` of a macro called with a string literal renders that literal
                    out.append(("text", config[_PARAMS][c.name], c.lineno, rel))
                elif isinstance(c, nodes.Mul) and isinstance(c.left, nodes.Const) and isinstance(c.left.value, str) and not c.left.value.strip() \
                        and isinstance(c.right, (nodes.Const, nodes.Name)) and isinstance(c.right.value if isinstance(c.right, nodes.Const) else config.get(_PARAMS, {}).get(c.right.name), int):
                    # `{{ " " * indent }}` with a literal width: layout text
                    k_ = c.right.value if isinstance(c.right, nodes.Const) else config[_PARAMS][c.right.name]
                    out.append(("text", c.left.value * max(k_, 0), c.lineno, rel))
                elif isinstance(c, nodes.Call) and depth < 8 and not c.dyn_args and not c.dyn_kwargs and _macro_of(tree, rel, config, c.node) is not None:
                    # `{{ helper(args) }}`: the macro's body with its parameters bound -- extracted template code is still this code
                    # (`{{ ns.helper(args) }}` / an imported name: a macro of the template imported as `ns`, read in that template)
                    m, mrel = _macro_of(tree, rel, config, c.node)
                    params = [a.name for a in m.args]
                    given = dict(zip(params, c.args))
                    given.update({k.key: k.value for k in c.kwargs})
                    defaults = dict(zip(params[len(params) - len(m.defaults):], m.defaults))
                    inner = dict(config)
                    inner[_PARAMS] = {}
                    # the parameter bindings and the body are one scope: bracketed by markers, so that a reader resolving a name
                    # backwards from a later item does not take a parameter of a finished expansion for a template variable
                    mid = next(_expansion)
                    out.append(("other", f"macro-begin:{mid}", c.lineno, rel))
                    for p_ in params:
                        v_ = given.get(p_, defaults.get(p_))
                        inner.pop(p_, None)
                        if v_ is not None:
                            out.append(("set", ("name", p_), jx(v_), c.lineno, rel))
                            # a literal argument -- or the caller's own literal parameter handed on -- is known inside
                            cv = v_.value if isinstance(v_, nodes.Const) else config.get(_PARAMS, {}).get(v_.name, _UNK) if isinstance(v_, nodes.Name) else _UNK
                            if cv is not _UNK:
                                inner[_PARAMS][p_] = cv
                                inner[p_] = cv
                    out.extend(_items(tree, m.body, mrel, inner, depth + 1))
                    out.append(("other", f"macro-end:{mid}", c.lineno, rel))
                else:
                    e = jx(c)
                    lp = _join_as_loop(e, c.lineno, rel)
                    out.append(lp if lp is not None else ("out", e, c.lineno, rel))
        elif t is nodes.If:
            out.extend(_if(tree, n, rel, config, depth))
        elif t is nodes.For:
            inner = dict(config)
            _forget(inner, [n])
            for x in n.target.find_all(nodes.Name) if not isinstance(n.target, nodes.Name) else [n.target]:
                inner.pop(x.name, None)
            out.append(_unmap_loop(("for", jx(n.target), jx(n.iter), tuple(_items(tree, n.body, rel, dict(inner), depth)),
                                    tuple(_items(tree, n.else_, rel, dict(inner), depth)), n.lineno, rel, jx(n.test))))
        elif t is nodes.Assign:
            out.append(("set", jx(n.target), jx(n.node), n.lineno, rel))
            _bind(config, n)
        elif t is nodes.AssignBlock:
            out.append(("setblock", jx(n.target), tuple(_items(tree, n.body, rel, dict(config), depth)), n.lineno, rel))
            if isinstance(n.target, nodes.Name):
                config.pop(n.target.name, None)
        elif t is nodes.Include:
            tgt = jx(n.template)
            if tgt[0] == "const" and depth < 8:
                inc = f"{TEMPLATE_ROOT}/{tgt[1]}"
                if tree.exists(inc):
                    out.extend(flatten(tree, inc, {k: v for k, v in config.items() if k != _PARAMS}, depth + 1))
                elif not n.ignore_missing:
                    out.append(("other", f"include-missing:{tgt[1]}", n.lineno, rel))
            else:
                out.append(("other", "include-dynamic", n.lineno, rel))
        elif t in (nodes.Import, nodes.FromImport) and isinstance(n.template, nodes.Const) and isinstance(n.template.value, str):
            # `{% import "x.j2" as ns %}` / `{% from "x.j2" import helper [as h] %}`: remembered, so that calls of the imported macros
            # are expanded like those of the template's own macros
            imp = config.setdefault(_IMPORTS, {})
            tgt = f"{TEMPLATE_ROOT}/{n.template.value}"
            if t is nodes.Import:
                imp[n.target] = (tgt, None)
            else:
                for nm in n.names:
                    imp[nm[1] if isinstance(nm, tuple) else nm] = (tgt, nm[0] if isinstance(nm, tuple) else nm)
            out.append(("other", t.__name__, n.lineno, rel))
        elif t is nodes.Extends:
            out.append(("other", "extends", n.lineno, rel))
        elif t is nodes.Block:
            out.extend(_items(tree, n.body, rel, config, depth))
        elif t is nodes.Macro:
            continue        # expanded at its call sites
        elif t is nodes.With and all(isinstance(x, nodes.Name) for x in n.targets) and len(n.targets) == len(n.values):
            # `{% with a = E, b = F %} body {% endwith %}`: the body with a, b standing for E, F (evaluated in the enclosing scope); the
            # names do not exist outside the block, so nothing is bound for what follows
            inner = dict(config)
            for x in n.targets:
                inner.pop(x.name, None)
            body_items = _items(tree, n.body, rel, inner, depth)
            env = {x.name: jx(v_) for x, v_ in zip(n.targets, n.values)}
            used = set(env) | {nm for v_ in env.values() for nm in names_of(v_)}
            # (a value that reads `loop` means the enclosing loop: it cannot be carried into a loop nested in the body)
            if any(_binds(body_items, nm) for nm in used) or ("loop" in used and any(it[0] == "for" for it, _ in walk_items(body_items))):
                out.append(("other", t.__name__, n.lineno, rel))
                out.extend(body_items)
            else:
                out.extend(subst_items(body_items, env))
        elif t in (nodes.CallBlock, nodes.FilterBlock, nodes.With, nodes.Scope):
            out.append(("other", t.__name__, n.lineno, rel))
            body2 = getattr(n, "body", None)
            inner = config
            if t is nodes.With:
                # `{% with a = X %} .. {% endwith %}` binds like `{% set a = X %}` for its body (scoping is not modelled beyond
                # that: a read of the same name AFTER the block would see this binding too -- the rules resolve names backwards from
                # a use, and a use after `endwith` of a name bound only by the block is an undefined variable in Jinja anyway)
                inner = dict(config)
                for tg_, v_ in zip(n.targets, n.values):
                    out.append(("set", jx(tg_), jx(v_), n.lineno, rel))
                    for x in ([tg_] if isinstance(tg_, nodes.Name) else tg_.find_all(nodes.Name)):
                        inner.pop(x.name, None)
            if body2:
                out.extend(_items(tree, body2, rel, inner, depth))
        else:
            out.append(("other", t.__name__, getattr(n, "lineno", 0), rel))
    return out


def _binds(items, name) -> bool:
    """is `name` (re)bound anywhere inside the items (set / setblock / loop target)?"""
    for it, _ in walk_items(items):
        if it[0] in ("set", "setblock", "for") and name in _targets(it[1]):
            return True
    return False


def subst_items(items, env: dict):
    """the items with the names of `env` replaced by expressions in every expression position (names are not re-bound inside)"""
    out = []
    for it in items:
        k = it[0]
        if k == "out":
            out.append(("out", subst_names(it[1], env)) + tuple(it[2:]))
        elif k == "set":
            out.append(("set", it[1], subst_names(it[2], env)) + tuple(it[3:]))
        elif k == "setblock":
            out.append(("setblock", it[1], tuple(subst_items(it[2], env))) + tuple(it[3:]))
        elif k == "for":
            out.append(("for", it[1], subst_names(it[2], env), tuple(subst_items(it[3], env)), tuple(subst_items(it[4], env)), it[5], it[6],
                        subst_names(it[7], env) if it[7] is not None else None))
        elif k == "if":
            out.append(("if", subst_names(it[1], env), tuple(subst_items(it[2], env)), tuple(subst_items(it[3], env))) + tuple(it[4:]))
        else:
            out.append(it)
    return out


def _unmap_loop(lp):
    """`{% for x in S | map(attribute="a") %} .. x ..`  is  `{% for x in S %} .. x.a ..`  (and `| map("f", args)`: `x | f(args)`):
    map keeps number and order of the items, so `loop.*` is unchanged; the loop then iterates the base sequence, which is what the
    rules about iteration domains look at.  Left alone when the loop variable is re-bound inside the body."""
    tg, it = lp[1], lp[2]
    if tg is None or tg[0] != "name" or it is None or it[0] != "filter" or it[1] != "map":
        return lp
    base, elt = elementwise(it, tg)
    if base == it or _binds(lp[3] + lp[4], tg[1]):
        return lp
    env = {tg[1]: elt}
    return ("for", tg, base, tuple(subst_items(lp[3], env)), lp[4], lp[5], lp[6], subst_names(lp[7], env) if lp[7] is not None else None)


def _join_as_loop(e, line, rel):
    """`{{ S | map(..) | join }}` (no separator) prints what `{% for x in S %}{{ x | .. }}{% endfor %}` prints: presented as that
    loop, so that a statement list pasted by a filter chain is seen by the rules that look for the loop over it"""
    if e[0] == "filter" and e[1] == "join" and not e[4] and (not e[3] or e[3] == (("const", ""),)) and e[2][0] == "filter" and e[2][1] == "map":
        v = ("name", "_joined_item")
        base, elt = elementwise(e[2], v)
        if base != e[2] and not (base[0] == "filter" and base[1] == "map"):
            # literal text glued on by `| prefix(..)` / `| suffix(..)` / `~` is text of the loop body
            pieces = str_pieces(elt)
            if any(p_[0] == "fmt" for p_ in pieces):
                body = (("out", elt, line, rel),)
            else:
                body = tuple(("text", p_[1], line, rel) if p_[0] == "lit" else ("out", p_[1], line, rel) for p_ in pieces)
            return ("for", v, base, body, (), line, rel, None)
    return None


def _if(tree, n, rel, config, depth) -> list:
    test = jx(n.test)
    d = decide(test, config)
    if d is True:
        return _items(tree, n.body, rel, config, depth)
    # elif chain
    rest = []
    if n.elif_:
        first = n.elif_[0]
        chain = nodes.If(first.test, first.body, n.elif_[1:], n.else_, lineno=first.lineno)
        rest_nodes = [chain]
    else:
        rest_nodes = n.else_
    if d is False:
        return _items(tree, rest_nodes, rel, config, depth)
    res = [("if", test, tuple(_items(tree, n.body, rel, dict(config), depth)),
            tuple(_items(tree, rest_nodes, rel, dict(config), depth)), n.lineno, rel)]
    _forget(config, list(n.body) + list(rest_nodes))
    return res


def walk_items(items):
    """Yield every item, descending into for/if bodies, with the stack of
    enclosing for/if items."""
    def rec(its, stack):
        for it in its:
            yield it, stack
            if it[0] == "for":
                yield from rec(it[3], stack + (it,))
                yield from rec(it[4], stack + (it,))
            elif it[0] == "if":
                yield from rec(it[2], stack + (("if+", it[1], it),))
                yield from rec(it[3], stack + (("if-", it[1], it),))
            elif it[0] == "setblock":
                yield from rec(it[2], stack + (it,))
    yield from rec(items, ())


def subst_names(e, env):
    """expression with template variables replaced by the expressions bound to them"""
    if not isinstance(e, tuple) or not e:
        return e
    if e[0] == "name":
        return env.get(e[1], e)
    if e[0] == "const":
        return e
    return tuple(subst_names(x, env) if isinstance(x, tuple) else x for x in e)


def _targets(t):
    if t is None:
        return set()
    if t[0] == "name":
        return {t[1]}
    if t[0] in ("tuple", "list"):
        return set().union(*[_targets(x) for x in t[1]]) if t[1] else set()
    return set()


def inline_sets(items, env=None):
    """The same items with every `{% set name = expr %}` substituted into the expressions that follow it in its scope (the set
    items themselves are dropped; this is also how an expanded macro call binds its parameters), and an output `{{ "lit" ~ x }}`
    split into the text `lit` followed by the output `x`.  Loop targets shadow; a name set under an undecided `{% if %}` is
    unknown afterwards (left as a name)."""
    env = dict(env or {})
    out = []
    for it in items:
        k = it[0]
        if k == "set" and it[1][0] == "name":
            env[it[1][1]] = subst_names(it[2], env)
        elif k == "out":
            e = subst_names(it[1], env)
            for part in (e[1] if e[0] == "concat" else (e,)):
                if part[0] == "const" and isinstance(part[1], str):
                    out.append(("text", part[1], it[2], it[3]))
                else:
                    out.append(("out", part, it[2], it[3]))
        elif k == "for":
            inner = {n: v for n, v in env.items() if n not in _targets(it[1]) and n != "loop"}
            out.append(("for", it[1], subst_names(it[2], env), tuple(inline_sets(it[3], inner)), tuple(inline_sets(it[4], env)), it[5], it[6],
                        subst_names(it[7], inner)))
        elif k == "if":
            out.append(("if", subst_names(it[1], env), tuple(inline_sets(it[2], env)), tuple(inline_sets(it[3], env)), it[4], it[5]))
            for sub, _ in walk_items(it[2] + it[3]):
                if sub[0] == "set":
                    for n in _targets(sub[1]):
                        env.pop(n, None)
        else:
            out.append(it)
    return out


# ----------------------------------------------------------------- {% set %} propagation

def names_of(e) -> set:
    """free names of an expression"""
    out = set()

    def rec(x):
        if isinstance(x, tuple):
            if len(x) == 2 and x[0] == "name" and isinstance(x[1], str):
                out.add(x[1])
            else:
                for y in x:
                    rec(y)
    rec(e)
    return out


def subst_names(e, env: dict):
    """expression with every ("name", n) that has a value in `env` replaced by that value"""
    if not isinstance(e, tuple):
        return e
    if len(e) == 2 and e[0] == "name" and isinstance(e[1], str):
        return env.get(e[1], e)
    r = tuple(subst_names(x, env) if isinstance(x, tuple) else x for x in e)
    return _dict_keys(r) if len(r) == 5 and r[0] == "filter" and isinstance(r[2], tuple) and r[2] else r


def propagate_sets(items):
    """The same items with every use of a `{% set name = expr %}` variable replaced by the expression it stands for (use-def
    expansion in document order, Jinja scoping: a `for` body is its own scope, `if` opens none), so that a rule reads
    `{% set row = loop.index0 // n %} .. {{ row }}` exactly as `{{ loop.index0 // n }}`.  The `set` items stay in place (with their
    values expanded).  A name is NOT expanded where that would change its meaning: after an `{% if %}` only one arm of which
    assigned it, after a `{% set %}` block, and -- for values mentioning `loop` or a name the loop re-binds -- inside a nested loop.
    An output of a concatenation `{{ "lit" ~ x }}` is split into the text and the output it is equal to."""
    def targets(t):
        return names_of(t)

    def rec(its, env):
        out = []
        for it in its:
            k = it[0]
            if k == "out":
                e = subst_names(it[1], env)
                if e[0] == "concat":
                    for p_ in e[1]:
                        if p_[0] == "const" and isinstance(p_[1], str):
                            out.append(("text", p_[1], it[2], it[3]))
                        else:
                            out.append(("out", p_, it[2], it[3]))
                elif e[0] == "const" and isinstance(e[1], str) and e != it[1]:
                    # a variable bound to a string literal prints that literal: text
                    out.append(("text", e[1], it[2], it[3]))
                else:
                    out.append(("out", e) + tuple(it[2:]))
            elif k == "set":
                v = subst_names(it[2], env)
                out.append(("set", it[1], v) + tuple(it[3:]))
                if it[1][0] == "name":
                    env[it[1][1]] = v
                elif it[1][0] in ("tuple", "list") and v[0] in ("tuple", "list") and len(it[1][1]) == len(v[1]) and all(t[0] == "name" for t in it[1][1]):
                    # `{% set row, col = i // n, i % n %}`: each name stands for its own component
                    for t, x in zip(it[1][1], v[1]):
                        env[t[1]] = x
                else:
                    for n_ in targets(it[1]):
                        env.pop(n_, None)
            elif k == "setblock":
                for n_ in targets(it[1]):
                    env.pop(n_, None)
                out.append(it)
            elif k == "for":
                bound = targets(it[1]) | {"loop"}
                # a namespace object whose attribute the body assigns (`{% set ns.a = .. %}`) changes from one iteration to the
                # next: inside the loop `ns` is not the value it was bound to before the loop
                for sub, _ in walk_items(it[3]):
                    if sub[0] == "set" and sub[1][0] != "name":
                        bound = bound | targets(sub[1])
                inner = {n_: v for n_, v in env.items() if n_ not in bound and not (names_of(v) & bound)}
                body = tuple(rec(it[3], dict(inner)))
                els = tuple(rec(it[4], dict(env)))
                out.append(("for", it[1], subst_names(it[2], env), body, els, it[5], it[6], subst_names(it[7], inner) if it[7] is not None else None))
            elif k == "if":
                ea, eb = dict(env), dict(env)
                a = tuple(rec(it[2], ea))
                b = tuple(rec(it[3], eb))
                out.append(("if", subst_names(it[1], env), a, b) + tuple(it[4:]))
                for n_ in set(ea) | set(eb) | set(env):
                    if ea.get(n_) == eb.get(n_) and n_ in ea:
                        env[n_] = ea[n_]
                    else:
                        env.pop(n_, None)
            else:
                out.append(it)
        return out
    return rec(items, {})


def _subst_items(items, env):
    """the items with the names of `env` replaced in every expression, as far as the names keep their meaning (Jinja scoping: a
    `{% set %}` / loop target of the same name re-binds it for what follows / for the loop body)"""
    env = dict(env)
    out = []

    def drop(t):
        for n_ in names_of(t):
            env.pop(n_, None)
    for it in items:
        k = it[0]
        if not env:
            out.append(it)
        elif k == "out":
            out.append(("out", subst_names(it[1], env)) + tuple(it[2:]))
        elif k == "set":
            out.append(("set", it[1], subst_names(it[2], env)) + tuple(it[3:]))
            drop(it[1])
        elif k == "setblock":
            out.append(("setblock", it[1], tuple(_subst_items(it[2], env))) + tuple(it[3:]))
            drop(it[1])
        elif k == "for":
            inner = {n_: v for n_, v in env.items() if n_ not in names_of(it[1])}
            out.append(("for", it[1], subst_names(it[2], env), tuple(_subst_items(it[3], inner)), tuple(_subst_items(it[4], env)), it[5], it[6],
                        subst_names(it[7], inner) if it[7] is not None else None))
        elif k == "if":
            out.append(("if", subst_names(it[1], env), tuple(_subst_items(it[2], env)), tuple(_subst_items(it[3], env))) + tuple(it[4:]))
            for sub, _ in walk_items(tuple(it[2]) + tuple(it[3])):
                if sub[0] in ("set", "setblock"):
                    drop(sub[1])
        else:
            out.append(it)
    return out


def _map_exprs(items, f):
    """the items with f applied to every expression (no scoping: the caller has checked that no name is re-bound)"""
    out = []
    for it in items:
        k = it[0]
        if k == "out":
            out.append(("out", f(it[1])) + tuple(it[2:]))
        elif k == "set":
            out.append(("set", it[1], f(it[2])) + tuple(it[3:]))
        elif k == "setblock":
            out.append(("setblock", it[1], tuple(_map_exprs(it[2], f))) + tuple(it[3:]))
        elif k == "for":
            out.append(("for", it[1], f(it[2]), tuple(_map_exprs(it[3], f)), tuple(_map_exprs(it[4], f)), it[5], it[6], f(it[7]) if it[7] is not None else None))
        elif k == "if":
            out.append(("if", f(it[1]), tuple(_map_exprs(it[2], f)), tuple(_map_exprs(it[3], f))) + tuple(it[4:]))
        else:
            out.append(it)
    return out


def _position_loop(tg, seq, body):
    """`{% for i in range(S | length) %} .. S[i] .. {{ i }}` is `{% for x in S %} .. x .. {{ loop.index0 }}`: -> (element variable,
    S, rewritten body), or None when the loop is not of that form, `i` is re-bound, or `i` is used inside a nested loop (where
    `loop` is another loop)"""
    if not (tg[0] == "name" and seq[0] == "call" and seq[1] == ("name", "range") and not seq[3] and len(seq[2]) in (1, 2)):
        return None
    if len(seq[2]) == 2 and seq[2][0] != ("const", 0):
        return None
    n = canon(seq[2][-1])
    if not (n[0] == "filter" and n[1] == "length" and not n[3] and not n[4]):
        return None
    S, i = n[2], tg[1]
    used = set()
    for sub, st in walk_items(body):
        k = sub[0]
        if k in ("set", "setblock", "for") and i in names_of(sub[1]):
            return None
        nested = any(x[0] == "for" for x in st)
        exprs = [sub[1]] if k in ("out", "if") else [sub[2]] if k == "set" else [sub[2]] if k == "for" else []
        inner = [sub[7]] if k == "for" and sub[7] is not None else []         # evaluated per item of the nested loop
        for x in exprs + inner:
            used |= names_of(x)
        if any(i in names_of(x) for x in (exprs if nested else []) + inner):
            return None
    elem = ("name", i + "_item")
    if elem[1] in used:
        return None

    def f(e):
        if not isinstance(e, tuple):
            return e
        if e == ("item", S, tg):
            return elem
        if e == tg:
            return ("attr", ("name", "loop"), "index0")
        return tuple(f(x) if isinstance(x, tuple) else x for x in e)
    return elem, S, _map_exprs(body, f)


def unmap_loops(items):
    """`{% for a in S | map(attribute="alias") %} .. {{ a }}` is `{% for a in S %} .. {{ a.alias }}`: a loop over a chain of
    one-to-one `map` filters (see elementwise) visits the base sequence in order, its variable standing for the mapped element;
    positions (`loop.index0`, `loop.last`) and the number of iterations are those of the base.  The same items with such loops
    rewritten over their base sequence (recursively; the loop variable keeps its name).  Loops whose target is not a plain name or
    whose map chain is not understood are left as they are.  A loop over the positions of a sequence (`for i in range(S | length)`,
    see _position_loop) is rewritten as the loop over the sequence in the same way."""
    out = []
    for it in items:
        k = it[0]
        if k == "for":
            body, els = unmap_loops(it[3]), unmap_loops(it[4])
            tg, seq, test = it[1], it[2], it[7]
            pl = _position_loop(tg, seq, body) if test is None else None
            if pl is not None:
                tg, seq, body = pl
            if tg[0] == "name" and seq[0] == "filter" and seq[1] == "map":
                base, elt = elementwise(seq, tg)
                if base != seq and not (base[0] == "filter" and base[1] == "map"):
                    env = {tg[1]: elt}
                    body = _subst_items(body, env)
                    test = subst_names(test, env) if test is not None else None
                    seq = base
            out.append(("for", tg, seq, tuple(body), tuple(els), it[5], it[6], test))
        elif k == "if":
            out.append(("if", it[1], tuple(unmap_loops(it[2])), tuple(unmap_loops(it[3]))) + tuple(it[4:]))
        elif k == "setblock":
            out.append(("setblock", it[1], tuple(unmap_loops(it[2]))) + tuple(it[3:]))
        else:
            out.append(it)
    return out


def _walk_all(tree, rel):
    for it, _ in walk_items(flatten(tree, rel, {})):
        yield it


def text_of(items, hole=lambda it: "\x00") -> str:
    """Concatenate the text of items (holes for outputs); loop bodies once."""
    out = []
    for it in items:
        if it[0] == "text":
            out.append(it[1])
        elif it[0] == "out":
            out.append(hole(it))
        elif it[0] == "for":
            out.append(text_of(it[3], hole))
        elif it[0] == "if":
            out.append(text_of(it[2], hole))
            out.append(text_of(it[3], hole))
    return "".join(out)
