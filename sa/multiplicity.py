"""Multiplicity rule, shared by the properties whose statement counts reactants "with multiplicity" (C01, C02, C04, C05, C11, C13).

In the code that builds rate coefficients and ODE / Jacobian terms, the reactants (products, dependency species) of a reaction are
LISTS: a species occurring twice (H + H -> H2, GH + GH -> GH2) contributes twice.  A container that identifies equal elements --
a set, a frozenset, a dict keyed by the species or by an attribute of it, dict.fromkeys -- built from such a list and then used to
build terms silently turns "twice" into "once".  The rule finds every such container in the term-building functions; Counter
(which keeps the count) and containers keyed by something that is not the species (a grain group, a position) are not matched.

Scope (functions): every method of TemplateLoader, every method of the Grain classes, `rateexpr` and the private helpers of the
reaction classes, ThermalProcess, naunet/utilities.py.  Reaction.__hash__/__eq__/rpeq (identity, Counter-based) and the network's
species caches (sets by design) are outside."""
from __future__ import annotations

import ast

from .pymodel import package

SEQ_ATTRS = {"reactants", "products"}
SCOPE_FILES = ("naunet/templateloader.py", "naunet/thermalprocess.py", "naunet/utilities.py")
SKIP_METHODS = {"__hash__", "__eq__", "rpeq", "__contains__", "__init__", "_parse_string", "grain_group", "is_empty", "reaction_type", "__format__", "__str__", "__repr__"}


def _mentions_seq(e, derived) -> bool:
    for n in ast.walk(e):
        if isinstance(n, ast.Attribute) and n.attr in SEQ_ATTRS:
            return True
        if isinstance(n, ast.Name) and n.id in derived:
            return True
    return False


def _derived_names(fn, seed=()) -> set:
    """locals bound (directly, by unpacking, by comprehension or loop over) to values taken from a reactant / product list, or from
    the dependency lists of an ODE modifier (`expr["reactants"]`); `seed`: parameters that receive such a value at a call site"""
    derived = set(seed)
    changed = True

    def src(e):
        if _mentions_seq(e, derived):
            return True
        for n in ast.walk(e):
            if isinstance(n, ast.Subscript) and isinstance(n.slice, ast.Constant) and n.slice.value in SEQ_ATTRS:
                return True
        return False
    while changed:
        changed = False
        for n in ast.walk(fn):
            tg, val = [], None
            if isinstance(n, ast.Assign):
                tg, val = n.targets, n.value
            elif isinstance(n, ast.For):
                tg, val = [n.target], n.iter
            elif isinstance(n, ast.comprehension):
                tg, val = [n.target], n.iter
            if val is None or not src(val):
                continue
            for t in tg:
                for x in ast.walk(t):
                    if isinstance(x, ast.Name) and x.id not in derived:
                        derived.add(x.id)
                        changed = True
    return derived


def _is_elementish(key, var_names, derived) -> bool:
    """the key / element is the species itself or a function of it alone (`s`, `s.name`, `s.alias`, `y[i]` of a derived index)"""
    names = {n.id for n in ast.walk(key) if isinstance(n, ast.Name)}
    return bool(names & (var_names | derived))


def find(fn, file, seed=()):
    """-> [(lineno, kind, source text)] of multiplicity-losing containers in one function"""
    derived = _derived_names(fn, seed)
    out = []
    for n in ast.walk(fn):
        if isinstance(n, (ast.DictComp, ast.SetComp)):
            g = n.generators[0]
            if not _mentions_seq(g.iter, derived) and not any(isinstance(x, ast.Subscript) and isinstance(x.slice, ast.Constant) and x.slice.value in SEQ_ATTRS for x in ast.walk(g.iter)):
                continue
            tv = {x.id for x in ast.walk(g.target) if isinstance(x, ast.Name)}
            key = n.key if isinstance(n, ast.DictComp) else n.elt
            # enumerate()/zip with a position: a key that is the POSITION keeps every occurrence
            if isinstance(key, ast.Name) and isinstance(g.iter, ast.Call) and ast.unparse(g.iter.func) == "enumerate" and isinstance(g.target, ast.Tuple) \
                    and isinstance(g.target.elts[0], ast.Name) and g.target.elts[0].id == key.id:
                continue
            if _is_elementish(key, tv, set()):
                out.append((n.lineno, "dict keyed by the species" if isinstance(n, ast.DictComp) else "set of the species", ast.unparse(n)[:90]))
        elif isinstance(n, ast.Call):
            f = ast.unparse(n.func)
            if f in ("set", "frozenset") and len(n.args) == 1 and _mentions_seq(n.args[0], derived):
                # set(...) of a Counter's items keeps the counts
                if any(isinstance(x, ast.Call) and ast.unparse(x.func) in ("Counter", "collections.Counter") for x in ast.walk(n.args[0])):
                    continue
                out.append((n.lineno, f"{f}(..) of the species", ast.unparse(n)[:90]))
            elif f.endswith("fromkeys") and n.args and _mentions_seq(n.args[0], derived):
                out.append((n.lineno, "dict.fromkeys(..) of the species", ast.unparse(n)[:90]))
        elif isinstance(n, ast.Set) and n.elts and all(_mentions_seq(e, derived) for e in n.elts) and len(n.elts) > 1:
            out.append((n.lineno, "set display of the species", ast.unparse(n)[:90]))
        elif isinstance(n, ast.BinOp) and isinstance(n.op, (ast.BitAnd, ast.BitOr, ast.Sub)) and False:
            pass
    return out


def scoped_functions(pkg, which):
    """which: 'ode' (TemplateLoader, utilities, ThermalProcess), 'grain' (Grain classes), 'reaction' (rateexpr + private helpers of reaction classes)"""
    out = []
    if which == "ode":
        for ci in pkg.classes.values():
            if ci.file in SCOPE_FILES:
                out += [(ci.file, f"{ci.name}.{k}", fn) for k, fn in ci.methods.items() if k not in SKIP_METHODS or ci.file == "naunet/templateloader.py"]
        out += [(f, n, fn) for (f, n), fn in pkg.functions.items() if f in SCOPE_FILES]
    elif which == "grain":
        for ci in pkg.classes.values():
            if ci.file.startswith("naunet/grains/"):
                out += [(ci.file, f"{ci.name}.{k}", fn) for k, fn in ci.methods.items() if k not in SKIP_METHODS]
    elif which == "reaction":
        for ci in pkg.classes.values():
            if ci.file.startswith("naunet/reactions/") and ci.file != "naunet/reactions/converter.py":
                out += [(ci.file, f"{ci.name}.{k}", fn) for k, fn in ci.methods.items() if k not in SKIP_METHODS]
    return out


def rule(ctx, rule_id, which, what):
    pkg = package(ctx.tree)
    fns = []
    for w in which:
        fns += scoped_functions(pkg, w)
    # a private helper reached only from the methods that are outside the scope (identity, construction, the grain-group lookup ..) is
    # a part of those methods that was extracted: outside the scope as well (closure over the calls inside the class)
    for ci in pkg.classes.values():
        mine = {name.split(".")[-1]: fn for file, name, fn in fns if file == ci.file and name.startswith(ci.name + ".")}
        if not mine:
            continue
        callers = {}
        for mname, m in ci.methods.items():
            for c in ast.walk(m):
                if isinstance(c, ast.Call) and isinstance(c.func, ast.Attribute) and isinstance(c.func.value, ast.Name) and c.func.value.id in ("self", "cls"):
                    callers.setdefault(c.func.attr, set()).add(mname.split(".")[0])
        outside = {m.split(".")[0] for m in ci.methods if m.split(".")[0] in SKIP_METHODS and ci.file != "naunet/templateloader.py"}
        for _ in range(4):
            more = {h for h in mine if h.startswith("_") and not h.startswith("__") and h not in outside and callers.get(h) and callers[h] <= outside}
            if not more:
                break
            outside |= more
        fns = [(file, name, fn) for file, name, fn in fns if not (file == ci.file and name.startswith(ci.name + ".") and name.split(".")[-1] in outside and name.split(".")[-1] not in SKIP_METHODS)]
    # helpers that are HANDED a reactant / product list (`self._net(rspecidx, pspecidx)`, `_pairs(reac.reactants)`): the parameter
    # that receives it is such a list inside the helper -- propagated along the calls between the scanned functions (fixpoint)
    by_name = {}
    for file, name, fn in fns:
        by_name.setdefault(name.split(".")[-1], []).append((file, name, fn))
    seeds = {id(fn): set() for _, _, fn in fns}
    for _ in range(4):
        grew = False
        for file, name, fn in fns:
            derived = _derived_names(fn, seeds[id(fn)])
            for c in ast.walk(fn):
                if not isinstance(c, ast.Call):
                    continue
                cn = c.func.attr if isinstance(c.func, ast.Attribute) and isinstance(c.func.value, ast.Name) and c.func.value.id in ("self", "cls") else \
                    c.func.id if isinstance(c.func, ast.Name) else None
                for cfile, cname, callee in by_name.get(cn, []) if cn else []:
                    if cfile != file or callee is fn:
                        continue
                    params = [a.arg for a in callee.args.posonlyargs + callee.args.args]
                    decs = {ast.unparse(d) for d in callee.decorator_list}
                    if isinstance(c.func, ast.Attribute) and "staticmethod" not in decs and params:
                        params = params[1:]
                    hit = {p_ for p_, a in zip(params, c.args) if not isinstance(a, ast.Starred) and _mentions_seq(a, derived)}
                    hit |= {k.arg for k in c.keywords if k.arg in params and _mentions_seq(k.value, derived)}
                    if hit - seeds[id(callee)]:
                        seeds[id(callee)] |= hit
                        grew = True
        if not grew:
            break
    n = 0
    for file, name, fn in fns:
        n += 1
        for line, kind, src in find(fn, file, seeds[id(fn)]):
            ctx.bad(rule_id, f"{name}:multiplicity:{kind}", (file, line),
                    f"{kind} built from a reactant / product / dependency list (`{src}`): equal species are identified, so a species that occurs twice "
                    f"(H + H, GH + GH) contributes once to {what}",
                    expected="a list (one entry per occurrence), or a Counter", found=src)
    ctx.check(True, rule_id, "multiplicity:functions scanned", ("", 0), f"{n} term-building functions scanned for sets / dicts keyed by reactant species")
    ctx.floor(rule_id, "term-building functions scanned", n, {"ode": 8, "grain": 20, "reaction": 10}.get(which[0], 1) if len(which) == 1 else 30)
