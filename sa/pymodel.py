"""E1: model of the naunet Python package (parsed, never imported): modules,
classes with C3 MRO, method resolution, class-level literals, import aliases."""
from __future__ import annotations

import ast
from dataclasses import dataclass, field

from .core import AnalysisError, SourceTree, MISSING


@dataclass
class ClassInfo:
    name: str
    file: str
    node: ast.ClassDef
    bases: list
    methods: dict = field(default_factory=dict)     # name -> FunctionDef
    attrs: dict = field(default_factory=dict)       # name -> ast value node
    nested: dict = field(default_factory=dict)      # name -> ClassDef


class _Owner:
    """(package, class name) attached to a method's FunctionDef; copying a node shares it (never copies the package)"""
    __slots__ = ("pkg", "cls")

    def __init__(self, pkg, cls):
        self.pkg, self.cls = pkg, cls

    def __iter__(self):
        return iter((self.pkg, self.cls))

    def __deepcopy__(self, memo):
        return self

    __copy__ = lambda self: self


class Package:
    def __init__(self, tree: SourceTree):
        self.tree = tree
        self.files = [f for f in tree.files() if f.endswith(".py") and f.startswith("naunet/")]
        self.modules = {}
        self.classes: dict = {}        # name -> ClassInfo (class names are unique in naunet)
        self.functions: dict = {}      # (file, name) -> FunctionDef
        self.imports: dict = {}        # file -> {alias: (module, name)}
        for f in self.files:
            mod = tree.pyast(f)
            self.modules[f] = mod
            imps = {}
            for n in ast.walk(mod):
                if isinstance(n, ast.ImportFrom):
                    for a in n.names:
                        imps[a.asname or a.name] = (("." * n.level) + (n.module or ""), a.name)
                elif isinstance(n, ast.Import):
                    for a in n.names:
                        imps[a.asname or a.name.split(".")[0]] = (a.name, None)
            self.imports[f] = imps
            for n in mod.body:
                if isinstance(n, ast.ClassDef):
                    self._add_class(n, f)
                elif isinstance(n, (ast.FunctionDef, ast.AsyncFunctionDef)):
                    self.functions[(f, n.name)] = n

    def _add_class(self, n: ast.ClassDef, f: str, prefix=""):
        ci = ClassInfo(prefix + n.name, f, n, [ast.unparse(b) for b in n.bases])
        for s in n.body:
            if isinstance(s, (ast.FunctionDef, ast.AsyncFunctionDef)):
                # property setters share the name: keep getter under name, setter under name.setter
                key = s.name
                for d in s.decorator_list:
                    if isinstance(d, ast.Attribute) and d.attr in ("setter", "deleter"):
                        key = f"{s.name}.{d.attr}"
                ci.methods[key] = s
                s._sa_owner = _Owner(self, ci.name)       # lets an analysis handed only the FunctionDef find sibling methods (eqmodel)
            elif isinstance(s, ast.Assign):
                for t in s.targets:
                    if isinstance(t, ast.Name):
                        ci.attrs[t.id] = s.value
            elif isinstance(s, ast.AnnAssign) and isinstance(s.target, ast.Name) and s.value is not None:
                ci.attrs[s.target.id] = s.value
            elif isinstance(s, ast.ClassDef):
                ci.nested[s.name] = s
                self._add_class(s, f, prefix + n.name + ".")
        self.classes[ci.name] = ci

    # ---- lookups ---------------------------------------------------------
    def cls(self, name: str) -> ClassInfo:
        if name not in self.classes:
            raise AnalysisError(f"class {name} not found in the package", None, MISSING)
        return self.classes[name]

    def mro(self, name: str) -> list:
        seen = []

        def lin(c):
            if c not in self.classes:
                return [c]
            bases = [b.split(".")[-1] for b in self.classes[c].bases]
            seqs = [lin(b) for b in bases] + [bases]
            res = [c]
            while True:
                seqs = [s for s in seqs if s]
                if not seqs:
                    return res
                for s in seqs:
                    cand = s[0]
                    if not any(cand in t[1:] for t in seqs):
                        break
                else:
                    raise AnalysisError(f"inconsistent MRO for {name}")
                res.append(cand)
                for s in seqs:
                    if s and s[0] == cand:
                        del s[0]
        return lin(name)

    def resolve(self, cls: str, meth: str):
        """-> (defining class name, FunctionDef) following the MRO, or (None, None)."""
        for c in self.mro(cls):
            ci = self.classes.get(c)
            if ci and meth in ci.methods:
                return c, ci.methods[meth]
        return None, None

    def resolve_attr(self, cls: str, attr: str):
        for c in self.mro(cls):
            ci = self.classes.get(c)
            if ci and attr in ci.attrs:
                return c, ci.attrs[attr]
        return None, None

    def method(self, cls: str, meth: str) -> ast.FunctionDef:
        ci = self.cls(cls)
        if meth not in ci.methods:
            raise AnalysisError(f"method {cls}.{meth} vanished", (ci.file, ci.node.lineno), MISSING)
        return ci.methods[meth]

    def expanded(self, cls: str, meth: str, keep=()) -> ast.FunctionDef:
        """A copy of method `cls.meth` with the helpers it was split into put back (normalize.expand_helpers): calls through
        self/cls to methods of the class (MRO) and calls to functions of the same module.  `keep` names the callees a rule treats
        as primitives (they stay calls); helpers that use super() stay calls too.  Rules that read a function's statements by
        role see the same statements whether or not a block was extracted into a helper."""
        import copy
        from .normalize import expand_helpers
        cache = self.__dict__.setdefault("_expanded", {})
        key = (cls, meth, tuple(sorted(keep)))
        if key not in cache:
            fn = copy.deepcopy(self.method(cls, meth))
            file = self.cls(cls).file
            local_names = {n.id for n in ast.walk(fn) if isinstance(n, ast.Name) and isinstance(n.ctx, ast.Store)} | {a.arg for a in fn.args.args}

            def usable(callee, owner=None, recv=None):
                if callee is None:
                    return False
                sup = [n for n in ast.walk(callee) if isinstance(n, ast.Name) and n.id == "super"]
                if not sup or owner != cls or recv != "self":
                    return not sup
                # a zero-argument `super()` means the same in a plain helper method of the very class whose method is read (same
                # __class__ cell, same self) -- and only there
                zero = [n for n in ast.walk(callee) if isinstance(n, ast.Call) and isinstance(n.func, ast.Name) and n.func.id == "super" and not n.args and not n.keywords]
                return len(zero) == len(sup) and not callee.decorator_list and bool(callee.args.args) and callee.args.args[0].arg == "self"

            def resolve(call):
                r = resolve0(call)
                if r is not None and r[0].args.kwarg is not None:
                    return _without_passthrough_kwarg(self, r[0]), r[1]
                return r

            def resolve0(call):
                f = call.func
                if isinstance(f, ast.Attribute) and isinstance(f.value, ast.Name) and f.value.id in ("self", "cls") and f.attr not in keep:
                    owner, callee = self.resolve(cls, f.attr)
                    if usable(callee, owner, f.value.id) and not any(ast.unparse(d) == "property" for d in callee.decorator_list):
                        return callee, f.value
                if isinstance(f, ast.Name) and f.id not in keep and f.id not in local_names and (file, f.id) in self.functions:
                    callee = self.functions[(file, f.id)]
                    if usable(callee):
                        return callee, None
                # a method of a plain record class of the module, called on a value reached by name / attribute (`ode.jac.pattern()`)
                if isinstance(f, ast.Attribute) and f.attr not in keep and not (isinstance(f.value, ast.Name) and f.value.id in ("self", "cls")):
                    callee = self.record_method(file, f.attr)
                    if usable(callee):
                        return callee, f.value
                    # .. or a factory classmethod of such a record class called on the class itself (`self.Jacobian.from_dense(..)`)
                    callee = self.record_method(file, f.attr, classmethod_of=ast.unparse(f.value).split(".")[-1])
                    if usable(callee):
                        return callee, f.value
                return None
            # dispatch through a class-level table of the class's own functions (`self.T.get(key)(self, value)`) is the chain of
            # method calls it abbreviates: the helpers can then be put back
            try:
                from .normalize import function_table_dispatch
                for c in self.mro(cls):
                    if c in self.classes:
                        fn = function_table_dispatch(fn, self.classes[c].node)
            except RecursionError:
                pass
            fn = expand_helpers(fn, resolve)
            # a helper that loops over a table it is HANDED (`self._register_all(self._ROWS)`) is a static loop once it is back in
            # place: unroll again, with the module-level and class-level tables of the class (MRO) in view
            try:
                from .normalize import unroll_static_loops, const_getattr
                unroll_static_loops(fn, self.module_tables(file), self.class_tables(cls), cls.split(".")[-1])
                const_getattr(fn)
            except RecursionError:
                pass
            cache[key] = fn
        return cache[key]

    def record_method(self, file: str, name: str, classmethod_of: str | None = None):
        """The plain method `name` of a record class (@dataclass / NamedTuple) of module `file`, provided the call `<value>.name(..)`
        can mean nothing else in that module: exactly one class of the file defines a method of that name, and it is not the name
        of a method of the built-in str / list / dict / set / tuple / Path-like values.  None otherwise."""
        if name.startswith("__") or any(hasattr(t, name) for t in (str, list, dict, set, tuple, bytes, int, float)) or name in _PATHLIKE:
            return None
        owners = [ci for ci in self.classes.values() if ci.file == file and name in ci.methods]
        if len(owners) != 1:
            return None
        ci = owners[0]
        is_rec = any(b.split(".")[-1] == "NamedTuple" for b in ci.bases) or \
            any(ast.unparse(d).split("(")[0].split(".")[-1] == "dataclass" for d in ci.node.decorator_list)
        fn = ci.methods[name]
        if classmethod_of is not None:
            # the @classmethod `name` of the record class `classmethod_of` (the receiver names the class)
            if not is_rec or not isinstance(fn, ast.FunctionDef) or [ast.unparse(d) for d in fn.decorator_list] != ["classmethod"] or not fn.args.args \
                    or ci.node.name != classmethod_of:
                return None
            return fn
        if not is_rec or not isinstance(fn, ast.FunctionDef) or fn.decorator_list or not fn.args.args:
            return None
        if any(k in ci.methods for k in ("__getattr__", "__getattribute__")):
            return None
        return fn

    def module_tables(self, file: str) -> dict:
        from .normalize import module_tables
        cache = self.__dict__.setdefault("_mtables", {})
        if file not in cache:
            cache[file] = module_tables(self.modules[file]) if file in self.modules else {}
        return cache[file]

    def class_tables(self, cls: str) -> dict:
        """class-level literal tables visible through self/cls in the methods of `cls`: those of its MRO, a class nearer to `cls`
        re-binding the name (to a table or to anything else) hiding the inherited one"""
        from .normalize import class_tables
        cache = self.__dict__.setdefault("_ctables", {})
        if cls not in cache:
            out = {}
            for c in reversed(self.mro(cls)):
                ci = self.classes.get(c)
                if ci is None:
                    continue
                for nm in ci.attrs:
                    out.pop(nm, None)
                for nm in ci.methods:
                    out.pop(nm, None)
                out.update(class_tables(ci.node, self.modules.get(ci.file)))
            cache[cls] = out
        return cache[cls]

    # ---- class-level constants -------------------------------------------------
    def class_constants(self, cls: str) -> dict:
        """{attr: literal AST node} of the class-level names of `cls` (MRO) that are CONSTANTS: bound in the class body to a
        literal (str / number / bool / None, a tuple / list / set display of such, `re.compile(<constants>)`, `frozenset(<display>)`)
        and never re-bound or edited anywhere in the package -- no store or delete to `<x>.attr`, no `<x>.attr[..] = ..`, no mutator
        call `<x>.attr.append(..)`, no `setattr(<x>, "attr", ..)`.  `self.attr` / `cls.attr` / `Cls.attr` then IS that literal
        (`x in self._names` is `x in ("a", "b")`): a literal moved into a class-level constant is read like the literal."""
        cache = self.__dict__.setdefault("_class_consts", {})
        if cls in cache:
            return cache[cls]
        from .normalize import MUTATORS

        def lit(v, depth=0):
            if isinstance(v, ast.Constant):
                return True
            if isinstance(v, ast.UnaryOp) and isinstance(v.op, (ast.USub, ast.UAdd)) and isinstance(v.operand, ast.Constant):
                return True
            if isinstance(v, (ast.Tuple, ast.List, ast.Set)) and depth < 2:
                return all(lit(e, depth + 1) for e in v.elts)
            if isinstance(v, ast.Call) and ast.unparse(v.func) in ("re.compile", "frozenset", "tuple") and not v.keywords and depth < 1:
                return all(lit(a, depth + 1) for a in v.args)
            return False
        touched = self.__dict__.get("_touched_attrs")
        if touched is None:
            touched = set()
            for mod in self.modules.values():
                for n in ast.walk(mod):
                    if isinstance(n, ast.Attribute) and isinstance(n.ctx, (ast.Store, ast.Del)):
                        touched.add(n.attr)
                    elif isinstance(n, ast.Subscript) and isinstance(n.ctx, (ast.Store, ast.Del)) and isinstance(n.value, ast.Attribute):
                        touched.add(n.value.attr)
                    elif isinstance(n, ast.Call) and isinstance(n.func, ast.Attribute) and n.func.attr in MUTATORS and isinstance(n.func.value, ast.Attribute):
                        touched.add(n.func.value.attr)
                    elif isinstance(n, ast.Call) and isinstance(n.func, ast.Name) and n.func.id in ("setattr", "delattr") and len(n.args) >= 2:
                        touched.add(n.args[1].value if isinstance(n.args[1], ast.Constant) else "*")
                    elif isinstance(n, ast.AugAssign) and isinstance(n.target, ast.Attribute):
                        touched.add(n.target.attr)
            self.__dict__["_touched_attrs"] = touched
            # a MUTABLE display (list / set) stays constant only if its object never escapes: every read `<x>.attr` is consumed on
            # the spot (membership test, iteration, len / tuple / sorted / .., subscript read, unpacking) -- never bound to a
            # name, passed to a helper, returned or stored
            escaped = set()
            SAFE_CALLS = {"len", "tuple", "sorted", "set", "frozenset", "list", "any", "all", "enumerate", "zip", "min", "max", "sum", "reversed", "iter"}
            for mod in self.modules.values():
                parent = {}
                for n in ast.walk(mod):
                    for ch in ast.iter_child_nodes(n):
                        parent[id(ch)] = n
                for n in ast.walk(mod):
                    if not (isinstance(n, ast.Attribute) and isinstance(n.ctx, ast.Load)):
                        continue
                    p_ = parent.get(id(n))
                    ok = (isinstance(p_, ast.Compare) and n in p_.comparators and all(isinstance(o, (ast.In, ast.NotIn)) for o in p_.ops)) \
                        or (isinstance(p_, (ast.For, ast.comprehension)) and p_.iter is n) \
                        or (isinstance(p_, ast.Call) and isinstance(p_.func, ast.Name) and p_.func.id in SAFE_CALLS and n in p_.args) \
                        or (isinstance(p_, ast.Subscript) and p_.value is n and isinstance(p_.ctx, ast.Load)) \
                        or (isinstance(p_, ast.Attribute) and p_.value is n) \
                        or isinstance(p_, ast.Starred)
                    if not ok:
                        escaped.add(n.attr)
            self.__dict__["_escaped_attrs"] = escaped
        escaped = self.__dict__["_escaped_attrs"]

        def mutable(v):
            return isinstance(v, (ast.List, ast.Set)) or (isinstance(v, ast.Tuple) and any(mutable(e) for e in v.elts))
        out = {}
        if "*" not in touched:
            for c in reversed(self.mro(cls)):
                ci = self.classes.get(c)
                if not ci:
                    continue
                # a name bound twice in the class body, or that is also a method / nested class, is not a constant
                counts = {}
                for s in ci.node.body:
                    for t in (s.targets if isinstance(s, ast.Assign) else [s.target] if isinstance(s, (ast.AnnAssign, ast.AugAssign)) else []):
                        for x in ast.walk(t):
                            if isinstance(x, ast.Name):
                                counts[x.id] = counts.get(x.id, 0) + 1
                for k, v in ci.attrs.items():
                    out.pop(k, None)
                    if counts.get(k) == 1 and k not in touched and k not in ci.methods and k not in ci.nested and lit(v) and not (mutable(v) and k in escaped):
                        out[k] = v
                for k in list(ci.methods) + list(ci.nested):
                    out.pop(k.split(".")[0], None)
        cache[cls] = out
        return out

    def constants_folded(self, cls: str, fn: ast.FunctionDef) -> ast.FunctionDef:
        """a copy of `fn` (a method of `cls`) with every read of a class-level constant (class_constants) through the receiver
        (first parameter), `cls` or the class name replaced by the literal"""
        import copy
        consts = self.class_constants(cls)
        if not consts:
            return fn
        recv = {fn.args.args[0].arg} if fn.args.args else set()
        recv |= {cls.split(".")[-1], "cls", "self"}
        bound = {n.id for n in ast.walk(fn) if isinstance(n, ast.Name) and isinstance(n.ctx, ast.Store)} | {a.arg for a in fn.args.args[1:]}
        recv -= bound

        class R(ast.NodeTransformer):
            def visit_Attribute(self, n):
                self.generic_visit(n)
                if isinstance(n.ctx, ast.Load) and isinstance(n.value, ast.Name) and n.value.id in recv and n.attr in consts:
                    return ast.copy_location(copy.deepcopy(consts[n.attr]), n)
                return n
        return ast.fix_missing_locations(R().visit(copy.deepcopy(fn)))

    def records(self) -> dict:
        """{class name: (field, ...)} of the immutable record types of the package: `class X(NamedTuple)` with annotated fields,
        `X = namedtuple("X", "a b" | ["a", "b"])`.  `X(u, v).a` is `u` (valueflow.Flow(records=..))."""
        if "_records" not in self.__dict__:
            out = {}
            for ci in self.classes.values():
                if any(b.split(".")[-1] == "NamedTuple" for b in ci.bases) and "." not in ci.name:
                    fields = [s.target.id for s in ci.node.body if isinstance(s, ast.AnnAssign) and isinstance(s.target, ast.Name)]
                    if fields and "__new__" not in ci.methods:
                        out[ci.name] = tuple(fields)
            for mod in self.modules.values():
                for s in mod.body:
                    if isinstance(s, ast.Assign) and len(s.targets) == 1 and isinstance(s.targets[0], ast.Name) and isinstance(s.value, ast.Call) \
                            and ast.unparse(s.value.func) in ("namedtuple", "collections.namedtuple") and len(s.value.args) == 2 and not s.value.keywords:
                        f = s.value.args[1]
                        if isinstance(f, ast.Constant) and isinstance(f.value, str):
                            out[s.targets[0].id] = tuple(f.value.replace(",", " ").split())
                        elif isinstance(f, (ast.List, ast.Tuple)) and all(isinstance(e, ast.Constant) and isinstance(e.value, str) for e in f.elts):
                            out[s.targets[0].id] = tuple(e.value for e in f.elts)
            self.__dict__["_records"] = out
        return self.__dict__["_records"]

    # ---- class-level constants and the folded form of a method ---------------------------------------------------------
    @staticmethod
    def _literal_table(node):
        """the literal a class-level binding denotes when it is a (nested) tuple / list / set / dict of constants -- `tuple([..])`,
        `frozenset({..})` .. of such a literal included -- else None.  Tuples, sets and frozensets come back as tuples."""
        import copy
        if isinstance(node, ast.BinOp) and isinstance(node.op, (ast.Add, ast.Sub, ast.Mult)):
            # integer arithmetic on constants (`34 + 56` as a column bound) is the constant
            l, r = Package._literal_table(node.left), Package._literal_table(node.right)
            if isinstance(l, ast.Constant) and isinstance(r, ast.Constant) and type(l.value) is int and type(r.value) is int:
                v = l.value + r.value if isinstance(node.op, ast.Add) else l.value - r.value if isinstance(node.op, ast.Sub) else l.value * r.value
                return ast.copy_location(ast.Constant(value=v), node)
            return None
        if isinstance(node, ast.Call) and isinstance(node.func, ast.Name) and node.func.id == "slice" and 1 <= len(node.args) <= 3 and not node.keywords \
                and any(isinstance(a, ast.BinOp) for a in node.args):
            args = [Package._literal_table(a) for a in node.args]
            if all(isinstance(a, ast.Constant) and (a.value is None or type(a.value) is int) for a in args):
                return ast.copy_location(ast.Call(func=copy.deepcopy(node.func), args=args, keywords=[]), node)
            return None
        if isinstance(node, ast.Call) and isinstance(node.func, ast.Name) and node.func.id in ("tuple", "list", "frozenset", "set") and len(node.args) == 1 and not node.keywords:
            inner = Package._literal_table(node.args[0])
            if isinstance(inner, (ast.Tuple, ast.List)):
                return ast.List(elts=inner.elts, ctx=ast.Load()) if node.func.id == "list" else ast.Tuple(elts=inner.elts, ctx=ast.Load())
            return None
        if isinstance(node, ast.Constant):
            return copy.deepcopy(node)
        if isinstance(node, ast.Call) and isinstance(node.func, ast.Name) and node.func.id == "slice" and 1 <= len(node.args) <= 3 and not node.keywords \
                and all(isinstance(a, ast.Constant) and (a.value is None or type(a.value) is int) for a in node.args):
            return copy.deepcopy(node)          # an immutable value built from constants
        if isinstance(node, ast.UnaryOp) and isinstance(node.op, ast.USub) and isinstance(node.operand, ast.Constant):
            return copy.deepcopy(node)
        if isinstance(node, (ast.Tuple, ast.List, ast.Set)):
            elts = [Package._literal_table(e) for e in node.elts]
            if any(e is None for e in elts):
                return None
            return ast.List(elts=elts, ctx=ast.Load()) if isinstance(node, ast.List) else ast.Tuple(elts=elts, ctx=ast.Load())
        if isinstance(node, ast.Dict):
            if any(k is None for k in node.keys):
                return None
            ks, vs = [Package._literal_table(k) for k in node.keys], [Package._literal_table(v) for v in node.values]
            if any(x is None for x in ks + vs) or any(not isinstance(k, ast.Constant) for k in ks):
                return None
            return ast.Dict(keys=ks, values=vs)
        return None

    def touched_attributes(self) -> set:
        """names of attributes that are assigned, deleted or mutated in place (x.NAME = .., x.NAME[k] = .., x.NAME.append(..),
        setattr(x, "NAME", ..)) anywhere in the package; "*" when a setattr with a name that cannot be read off the source exists.
        The name of a setattr is read after static folding of the enclosing function (a loop over a literal table of names is
        unrolled first); `setattr(x, TABLE[key], v)` with TABLE a class-level dict of constants touches TABLE's values."""
        if "_touched" in self.__dict__:
            return self._touched
        import copy
        from .normalize import MUTATORS, fold_static
        touched = set()

        def scan(root):
            for n in ast.walk(root):
                if isinstance(n, ast.Attribute) and isinstance(n.ctx, (ast.Store, ast.Del)):
                    touched.add(n.attr)
                elif isinstance(n, ast.Subscript) and isinstance(n.ctx, (ast.Store, ast.Del)) and isinstance(n.value, ast.Attribute):
                    touched.add(n.value.attr)
                elif isinstance(n, ast.AugAssign) and isinstance(n.target, ast.Attribute):
                    touched.add(n.target.attr)
                elif isinstance(n, ast.Call) and isinstance(n.func, ast.Attribute) and isinstance(n.func.value, ast.Attribute) and n.func.attr in MUTATORS:
                    touched.add(n.func.value.attr)
                elif isinstance(n, ast.Call) and isinstance(n.func, ast.Name) and n.func.id == "setattr":
                    name = n.args[1] if len(n.args) >= 2 else None
                    if isinstance(name, ast.Constant) and isinstance(name.value, str):
                        touched.add(name.value)
                        continue
                    vals = None
                    if isinstance(name, ast.Subscript) and isinstance(name.value, ast.Attribute):
                        for ci in self.classes.values():
                            lit = self._literal_table(ci.attrs[name.value.attr]) if name.value.attr in ci.attrs else None
                            if isinstance(lit, ast.Dict) and all(isinstance(v, ast.Constant) and isinstance(v.value, str) for v in lit.values):
                                vals = (vals or set()) | {v.value for v in lit.values}
                    if vals is None:
                        touched.add("*")
                    else:
                        touched.update(vals)
        for mod in self.modules.values():
            for st in ast.walk(mod):
                if isinstance(st, (ast.FunctionDef, ast.AsyncFunctionDef)) and any(isinstance(c, ast.Call) and isinstance(c.func, ast.Name) and c.func.id == "setattr" for c in ast.walk(st)):
                    try:
                        scan(fold_static(copy.deepcopy(st)))
                    except Exception:
                        scan(st)            # (a setattr with a computed name then counts as "*")
            scan(ast.Module(body=[s for s in mod.body], type_ignores=[]) if not any(
                isinstance(c, ast.Call) and isinstance(c.func, ast.Name) and c.func.id == "setattr" for c in ast.walk(mod)) else _without_setattr(mod))
        self._touched = touched
        return touched

    def class_constant(self, cls: str, name: str):
        """literal of the class-level constant `name` of class `cls` (or a base): bound in the class body to a (nested) literal of
        constants and never assigned, deleted or mutated anywhere in the package (instances included); None otherwise"""
        t = self.touched_attributes()
        if name in t or "*" in t:
            return None
        _, node = self.resolve_attr(cls, name)
        return self._literal_table(node) if node is not None else None

    def with_class_constants(self, cls: str, fn):
        """`fn` (modified in place) with every read of a class-level constant through self / cls / a class name of the MRO replaced by its literal"""
        mro = self.mro(cls)
        pkg = self

        class P(ast.NodeTransformer):
            def visit_Attribute(self, n):
                self.generic_visit(n)
                if isinstance(n.ctx, ast.Load) and isinstance(n.value, ast.Name) and (n.value.id in ("self", "cls") or n.value.id in mro):
                    c = pkg.class_constant(cls, n.attr)
                    if c is not None:
                        return ast.copy_location(c, n)
                return n
        new = P().visit(fn)
        ast.fix_missing_locations(new)
        return new

    def with_module_constants(self, file: str, fn):
        """`fn` (modified in place) with every read of a module-level literal table of CONSTANTS of `file` (bound once at module level,
        never re-bound or mutated: normalize.module_tables; nested tuples / lists of constants only) replaced by the literal -- unless the
        function binds the name itself.  `x in _NO_LIMIT` is then `x in ["N", "NONE", ..]`, as it is for a class-level constant."""
        tabs = {k: v for k, v in self.module_tables(file).items() if self._literal_table(v) is not None and not isinstance(v, ast.Dict) and len(getattr(v, "elts", ())) <= 64}
        if not tabs:
            return fn
        bound = {n.id for n in ast.walk(fn) if isinstance(n, ast.Name) and isinstance(n.ctx, (ast.Store, ast.Del))} | {a.arg for a in ast.walk(fn) if isinstance(a, ast.arg)} \
            | {x for n in ast.walk(fn) if isinstance(n, (ast.Global, ast.Nonlocal)) for x in n.names}
        pkg = self

        class P(ast.NodeTransformer):
            def visit_Name(self, n):
                if isinstance(n.ctx, ast.Load) and n.id in tabs and n.id not in bound:
                    return ast.copy_location(pkg._literal_table(tabs[n.id]), n)
                return n
        new = P().visit(fn)
        ast.fix_missing_locations(new)
        return new

    def module_function(self, file: str, name: str):
        """module-level function `name` of `file` in the form value-based rules read it (None if there is none): reads of module-level
        constant tables written in place (with_module_constants) and static loops over them unrolled -- `x.upper() in _NO_LIMIT` /
        `for op in _OPERATORS: v = v.replace(op, "")` then read as they do with the tables written inside the function."""
        import copy
        f = self.functions.get((file, name))
        if f is None:
            return None
        cache = self.__dict__.setdefault("_modfn", {})
        if (file, name) not in cache:
            g = copy.deepcopy(f)
            try:
                from .normalize import unroll_static_loops
                g = self.with_module_constants(file, g)
                unroll_static_loops(g, self.module_tables(file))
            except RecursionError:
                g = f
            cache[(file, name)] = g
        return cache[(file, name)]

    def folded(self, cls: str, meth: str, keep=(), expand: bool = True) -> ast.FunctionDef:
        """A copy of method `cls.meth` in the form value-based rules read: extracted helpers put back (`expanded`, unless
        expand=False), class-level constants written in place, and the literal part evaluated (normalize.fold_static: static loops
        over zip / enumerate / accumulate / comprehensions of literal tables unrolled, table look-ups and setattr/getattr with
        constant names resolved, `if key in TABLE` dispatch spelled as the chain over the keys)."""
        import copy
        from .normalize import fold_static
        cache = self.__dict__.setdefault("_folded", {})
        key = (cls, meth, tuple(sorted(keep)), expand)
        if key not in cache:
            owner = self.resolve(cls, meth)[0] or cls          # an inherited method is read where it is defined
            fn = copy.deepcopy(self.expanded(owner, meth, keep) if expand else self.method(owner, meth))
            from .normalize import namedtuple_tables
            fn = self.with_module_constants(self.cls(owner).file, fn)
            cache[key] = fold_static(self.with_class_constants(cls, fn), namedtuple_tables(self.modules[self.cls(owner).file]))
        return cache[key]

    def subclasses(self, base: str) -> list:
        return [c for c in self.classes if base in self.mro(c)[1:]]

    def func(self, file: str, name: str) -> ast.FunctionDef:
        if (file, name) not in self.functions:
            raise AnalysisError(f"function {name} vanished from {file}", (file, 0), MISSING)
        return self.functions[(file, name)]


_PATHLIKE = {"open", "exists", "mkdir", "read_text", "write_text", "write", "read", "close", "render", "get_template", "list_templates", "resolve", "glob", "unlink"}


def _without_passthrough_kwarg(pkg, callee):
    """`def h(self, xs, **kwargs)` whose only use of `kwargs` is handing it on (`g(x, **kwargs)`) is, for a call that supplies no
    keyword h does not name, the same function without the parameter and without the `**kwargs` at the inner calls (an empty
    mapping adds nothing).  A call that DOES supply such a keyword does not bind against the copy (normalize._bind_args) and stays
    a call.  Any other use of the name leaves the callee as it is (never inlined: normalize._simple_callee)."""
    import copy
    cache = pkg.__dict__.setdefault("_dekwarg", {})
    if id(callee) not in cache:
        name = callee.args.kwarg.arg
        passed = {id(k.value) for n in ast.walk(callee) if isinstance(n, ast.Call) for k in n.keywords if k.arg is None and isinstance(k.value, ast.Name) and k.value.id == name}
        uses = [n for n in ast.walk(callee) if isinstance(n, ast.Name) and n.id == name]
        if uses and all(id(n) in passed and isinstance(n.ctx, ast.Load) for n in uses):
            new = copy.deepcopy(callee)
            new.args.kwarg = None
            for n in ast.walk(new):
                if isinstance(n, ast.Call):
                    n.keywords = [k for k in n.keywords if not (k.arg is None and isinstance(k.value, ast.Name) and k.value.id == name)]
            cache[id(callee)] = (callee, new)
        else:
            cache[id(callee)] = (callee, callee)
    return cache[id(callee)][1]


def constructions(pkg, node, clsname: str) -> list:
    """The calls inside `node` that construct `clsname`: `clsname(..)` / `<module>.clsname(..)` as written, and a call
    `clsname.<factory>(..)` of a classmethod whose body is one `return cls(..)` -- as the constructor call it abbreviates (parameters
    replaced by the arguments, at the call's position).  A rule that reads what reaches the fields sees the same call either way."""
    from .normalize import inline_expr, _simple_callee
    ci = pkg.classes.get(clsname)
    out = []
    for c in ast.walk(node):
        if not isinstance(c, ast.Call):
            continue
        if ast.unparse(c.func).split(".")[-1] == clsname:
            out.append(c)
        elif ci is not None and isinstance(c.func, ast.Attribute) and ast.unparse(c.func.value).split(".")[-1] == clsname and c.func.attr in ci.methods:
            callee = ci.methods[c.func.attr]
            if [ast.unparse(d) for d in callee.decorator_list] == ["classmethod"] and _simple_callee(callee) == "expr":
                e = inline_expr(callee, c, ast.Name(id=clsname, ctx=ast.Load()))
                if isinstance(e, ast.Call) and ast.unparse(e.func) == clsname:
                    for n in ast.walk(e):
                        ast.copy_location(n, c)
                    out.append(e)
    return out


def _without_setattr(mod):
    """the module minus the functions that call setattr (those are scanned in their folded form)"""
    class D(ast.NodeTransformer):
        def visit_FunctionDef(self, n):
            if any(isinstance(c, ast.Call) and isinstance(c.func, ast.Name) and c.func.id == "setattr" for c in ast.walk(n)):
                return None
            return self.generic_visit(n)
        visit_AsyncFunctionDef = visit_FunctionDef
    import copy
    return D().visit(copy.deepcopy(mod))


def species_count_method(pkg):
    """(name, FunctionDef) of the Species method that records element counts (writes self.element_count[..]) -- found by what it
    does, so that renaming a private helper is not an analysis failure"""
    ci = pkg.cls("Species")
    for name, fn in ci.methods.items():
        for n in ast.walk(fn):
            tg = []
            if isinstance(n, ast.Assign):
                tg = n.targets
            elif isinstance(n, ast.AugAssign):
                tg = [n.target]
            for t in tg:
                if isinstance(t, ast.Subscript) and ast.unparse(t.value) == "self.element_count":
                    return name, fn
            if isinstance(n, ast.Call) and isinstance(n.func, ast.Attribute) and n.func.attr in ("update", "setdefault") and ast.unparse(n.func.value) == "self.element_count":
                return name, fn
    raise AnalysisError("no method of Species records element counts (self.element_count[..] = ..)", (ci.file, 0), MISSING)


def species_parse_method(pkg):
    """the Species method that calls the count method while scanning the name"""
    cname, _ = species_count_method(pkg)
    ci = pkg.cls("Species")
    for name, fn in ci.methods.items():
        if name != cname and any(isinstance(c, ast.Call) and ast.unparse(c.func) == f"self.{cname}" for c in ast.walk(fn)):
            return name, fn
    raise AnalysisError("no method of Species calls the element-count method", (ci.file, 0), MISSING)


def package(tree: SourceTree) -> Package:
    if "_pkg" not in tree.__dict__:
        tree.__dict__["_pkg"] = Package(tree)
    return tree.__dict__["_pkg"]


def literal(node):
    """Python literal value of an AST node, or raise ValueError."""
    return ast.literal_eval(node)


def calls_in(node) -> list:
    return [n for n in ast.walk(node) if isinstance(n, ast.Call)]


def name_of_call(c: ast.Call) -> str:
    f = c.func
    if isinstance(f, ast.Name):
        return f.id
    if isinstance(f, ast.Attribute):
        return f.attr
    return ""
