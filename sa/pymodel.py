"""E1: model of the naunet Python package (parsed, never imported): modules,
classes with C3 MRO, method resolution, class-level literals, import aliases."""
from __future__ import annotations

import ast
from dataclasses import dataclass, field

from .core import AnalysisError, SourceTree, MISSING


@dataclass
class ClassInfo:
    name: str
    file: str
    node: ast.ClassDef
    bases: list
    methods: dict = field(default_factory=dict)     # name -> FunctionDef
    attrs: dict = field(default_factory=dict)       # name -> ast value node
    nested: dict = field(default_factory=dict)      # name -> ClassDef


class _Owner:
    """(package, class name) attached to a method's FunctionDef; copying a node shares it (never copies the package)"""
    __slots__ = ("pkg", "cls")

    def __init__(self, pkg, cls):
        self.pkg, self.cls = pkg, cls

    def __iter__(self):
        return iter((self.pkg, self.cls))

    def __deepcopy__(self, memo):
        return self

    __copy__ = lambda self: self


class Package:
    def __init__(self, tree: SourceTree):
        self.tree = tree
        self.files = [f for f in tree.files() if f.endswith(".py") and f.startswith("naunet/")]
        self.modules = {}
        self.classes: dict = {}        # name -> ClassInfo (class names are unique in naunet)
        self.functions: dict = {}      # (file, name) -> FunctionDef
        self.imports: dict = {}        # file -> {alias: (module, name)}
        for f in self.files:
            mod = tree.pyast(f)
            self.modules[f] = mod
            imps = {}
            for n in ast.walk(mod):
                if isinstance(n, ast.ImportFrom):
                    for a in n.names:
                        imps[a.asname or a.name] = (("." * n.level) + (n.module or ""), a.name)
                elif isinstance(n, ast.Import):
                    for a in n.names:
                        imps[a.asname or a.name.split(".")[0]] = (a.name, None)
            self.imports[f] = imps
            for n in mod.body:
                if isinstance(n, ast.ClassDef):
                    self._add_class(n, f)
                elif isinstance(n, (ast.FunctionDef, ast.AsyncFunctionDef)):
                    self.functions[(f, n.name)] = n

    def _add_class(self, n: ast.ClassDef, f: str, prefix=""):
        ci = ClassInfo(prefix + n.name, f, n, [ast.unparse(b) for b in n.bases])
        for s in n.body:
            if isinstance(s, (ast.FunctionDef, ast.AsyncFunctionDef)):
                # property setters share the name: keep getter under name, setter under name.setter
                key = s.name
                for d in s.decorator_list:
                    if isinstance(d, ast.Attribute) and d.attr in ("setter", "deleter"):
                        key = f"{s.name}.{d.attr}"
                ci.methods[key] = s
                s._sa_owner = _Owner(self, ci.name)       # lets an analysis handed only the FunctionDef find sibling methods (eqmodel)
            elif isinstance(s, ast.Assign):
                for t in s.targets:
                    if isinstance(t, ast.Name):
                        ci.attrs[t.id] = s.value
            elif isinstance(s, ast.AnnAssign) and isinstance(s.target, ast.Name) and s.value is not None:
                ci.attrs[s.target.id] = s.value
            elif isinstance(s, ast.ClassDef):
                ci.nested[s.name] = s
                self._add_class(s, f, prefix + n.name + ".")
        self.classes[ci.name] = ci

    # ---- lookups ---------------------------------------------------------
    def cls(self, name: str) -> ClassInfo:
        if name not in self.classes:
            raise AnalysisError(f"class {name} not found in the package", None, MISSING)
        return self.classes[name]

    def mro(self, name: str) -> list:
        seen = []

        def lin(c):
            if c not in self.classes:
                return [c]
            bases = [b.split(".")[-1] for b in self.classes[c].bases]
            seqs = [lin(b) for b in bases] + [bases]
            res = [c]
            while True:
                seqs = [s for s in seqs if s]
                if not seqs:
                    return res
                for s in seqs:
                    cand = s[0]
                    if not any(cand in t[1:] for t in seqs):
                        break
                else:
                    raise AnalysisError(f"inconsistent MRO for {name}")
                res.append(cand)
                for s in seqs:
                    if s and s[0] == cand:
                        del s[0]
        return lin(name)

    def resolve(self, cls: str, meth: str):
        """-> (defining class name, FunctionDef) following the MRO, or (None, None)."""
        for c in self.mro(cls):
            ci = self.classes.get(c)
            if ci and meth in ci.methods:
                return c, ci.methods[meth]
        return None, None

    def resolve_attr(self, cls: str, attr: str):
        for c in self.mro(cls):
            ci = self.classes.get(c)
            if ci and attr in ci.attrs:
                return c, ci.attrs[attr]
        return None, None

    def method(self, cls: str, meth: str) -> ast.FunctionDef:
        ci = self.cls(cls)
        if meth not in ci.methods:
            raise AnalysisError(f"method {cls}.{meth} vanished", (ci.file, ci.node.lineno), MISSING)
        return ci.methods[meth]

    def expanded(self, cls: str, meth: str, keep=()) -> ast.FunctionDef:
        """A copy of method `cls.meth` with the helpers it was split into put back (normalize.expand_helpers): calls through
        self/cls to methods of the class (MRO) and calls to functions of the same module.  `keep` names the callees a rule treats
        as primitives (they stay calls); helpers that use super() stay calls too.  Rules that read a function's statements by
        role see the same statements whether or not a block was extracted into a helper."""
        import copy
        from .normalize import expand_helpers
        cache = self.__dict__.setdefault("_expanded", {})
        key = (cls, meth, tuple(sorted(keep)))
        if key not in cache:
            fn = copy.deepcopy(self.method(cls, meth))
            file = self.cls(cls).file
            local_names = {n.id for n in ast.walk(fn) if isinstance(n, ast.Name) and isinstance(n.ctx, ast.Store)} | {a.arg for a in fn.args.args}

            def usable(callee):
                return callee is not None and not any(isinstance(n, ast.Name) and n.id == "super" for n in ast.walk(callee))

            def resolve(call):
                f = call.func
                if isinstance(f, ast.Attribute) and isinstance(f.value, ast.Name) and f.value.id in ("self", "cls") and f.attr not in keep:
                    _, callee = self.resolve(cls, f.attr)
                    if usable(callee) and not any(ast.unparse(d) == "property" for d in callee.decorator_list):
                        return callee, f.value
                if isinstance(f, ast.Name) and f.id not in keep and f.id not in local_names and (file, f.id) in self.functions:
                    callee = self.functions[(file, f.id)]
                    if usable(callee):
                        return callee, None
                return None
            cache[key] = expand_helpers(fn, resolve)
        return cache[key]

    def subclasses(self, base: str) -> list:
        return [c for c in self.classes if base in self.mro(c)[1:]]

    def func(self, file: str, name: str) -> ast.FunctionDef:
        if (file, name) not in self.functions:
            raise AnalysisError(f"function {name} vanished from {file}", (file, 0), MISSING)
        return self.functions[(file, name)]


def species_count_method(pkg):
    """(name, FunctionDef) of the Species method that records element counts (writes self.element_count[..]) -- found by what it
    does, so that renaming a private helper is not an analysis failure"""
    ci = pkg.cls("Species")
    for name, fn in ci.methods.items():
        for n in ast.walk(fn):
            tg = []
            if isinstance(n, ast.Assign):
                tg = n.targets
            elif isinstance(n, ast.AugAssign):
                tg = [n.target]
            for t in tg:
                if isinstance(t, ast.Subscript) and ast.unparse(t.value) == "self.element_count":
                    return name, fn
            if isinstance(n, ast.Call) and isinstance(n.func, ast.Attribute) and n.func.attr in ("update", "setdefault") and ast.unparse(n.func.value) == "self.element_count":
                return name, fn
    raise AnalysisError("no method of Species records element counts (self.element_count[..] = ..)", (ci.file, 0), MISSING)


def species_parse_method(pkg):
    """the Species method that calls the count method while scanning the name"""
    cname, _ = species_count_method(pkg)
    ci = pkg.cls("Species")
    for name, fn in ci.methods.items():
        if name != cname and any(isinstance(c, ast.Call) and ast.unparse(c.func) == f"self.{cname}" for c in ast.walk(fn)):
            return name, fn
    raise AnalysisError("no method of Species calls the element-count method", (ci.file, 0), MISSING)


def package(tree: SourceTree) -> Package:
    if "_pkg" not in tree.__dict__:
        tree.__dict__["_pkg"] = Package(tree)
    return tree.__dict__["_pkg"]


def literal(node):
    """Python literal value of an AST node, or raise ValueError."""
    return ast.literal_eval(node)


def calls_in(node) -> list:
    return [n for n in ast.walk(node) if isinstance(n, ast.Call)]


def name_of_call(c: ast.Call) -> str:
    f = c.func
    if isinstance(f, ast.Name):
        return f.id
    if isinstance(f, ast.Attribute):
        return f.attr
    return ""
