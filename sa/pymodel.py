"""E1: model of the naunet Python package (parsed, never imported): modules,
classes with C3 MRO, method resolution, class-level literals, import aliases."""
from __future__ import annotations

import ast
from dataclasses import dataclass, field

from .core import AnalysisError, SourceTree, MISSING


@dataclass
class ClassInfo:
    name: str
    file: str
    node: ast.ClassDef
    bases: list
    methods: dict = field(default_factory=dict)     # name -> FunctionDef
    attrs: dict = field(default_factory=dict)       # name -> ast value node
    nested: dict = field(default_factory=dict)      # name -> ClassDef


class Package:
    def __init__(self, tree: SourceTree):
        self.tree = tree
        self.files = [f for f in tree.files() if f.endswith(".py") and f.startswith("naunet/")]
        self.modules = {}
        self.classes: dict = {}        # name -> ClassInfo (class names are unique in naunet)
        self.functions: dict = {}      # (file, name) -> FunctionDef
        self.imports: dict = {}        # file -> {alias: (module, name)}
        for f in self.files:
            mod = tree.pyast(f)
            self.modules[f] = mod
            imps = {}
            for n in ast.walk(mod):
                if isinstance(n, ast.ImportFrom):
                    for a in n.names:
                        imps[a.asname or a.name] = (("." * n.level) + (n.module or ""), a.name)
                elif isinstance(n, ast.Import):
                    for a in n.names:
                        imps[a.asname or a.name.split(".")[0]] = (a.name, None)
            self.imports[f] = imps
            for n in mod.body:
                if isinstance(n, ast.ClassDef):
                    self._add_class(n, f)
                elif isinstance(n, (ast.FunctionDef, ast.AsyncFunctionDef)):
                    self.functions[(f, n.name)] = n

    def _add_class(self, n: ast.ClassDef, f: str, prefix=""):
        ci = ClassInfo(prefix + n.name, f, n, [ast.unparse(b) for b in n.bases])
        for s in n.body:
            if isinstance(s, (ast.FunctionDef, ast.AsyncFunctionDef)):
                # property setters share the name: keep getter under name, setter under name.setter
                key = s.name
                for d in s.decorator_list:
                    if isinstance(d, ast.Attribute) and d.attr in ("setter", "deleter"):
                        key = f"{s.name}.{d.attr}"
                ci.methods[key] = s
            elif isinstance(s, ast.Assign):
                for t in s.targets:
                    if isinstance(t, ast.Name):
                        ci.attrs[t.id] = s.value
            elif isinstance(s, ast.AnnAssign) and isinstance(s.target, ast.Name) and s.value is not None:
                ci.attrs[s.target.id] = s.value
            elif isinstance(s, ast.ClassDef):
                ci.nested[s.name] = s
                self._add_class(s, f, prefix + n.name + ".")
        self.classes[ci.name] = ci

    # ---- lookups ---------------------------------------------------------
    def cls(self, name: str) -> ClassInfo:
        if name not in self.classes:
            raise AnalysisError(f"class {name} not found in the package", None, MISSING)
        return self.classes[name]

    def mro(self, name: str) -> list:
        seen = []

        def lin(c):
            if c not in self.classes:
                return [c]
            bases = [b.split(".")[-1] for b in self.classes[c].bases]
            seqs = [lin(b) for b in bases] + [bases]
            res = [c]
            while True:
                seqs = [s for s in seqs if s]
                if not seqs:
                    return res
                for s in seqs:
                    cand = s[0]
                    if not any(cand in t[1:] for t in seqs):
                        break
                else:
                    raise AnalysisError(f"inconsistent MRO for {name}")
                res.append(cand)
                for s in seqs:
                    if s and s[0] == cand:
                        del s[0]
        return lin(name)

    def resolve(self, cls: str, meth: str):
        """-> (defining class name, FunctionDef) following the MRO, or (None, None)."""
        for c in self.mro(cls):
            ci = self.classes.get(c)
            if ci and meth in ci.methods:
                return c, ci.methods[meth]
        return None, None

    def resolve_attr(self, cls: str, attr: str):
        for c in self.mro(cls):
            ci = self.classes.get(c)
            if ci and attr in ci.attrs:
                return c, ci.attrs[attr]
        return None, None

    def method(self, cls: str, meth: str) -> ast.FunctionDef:
        ci = self.cls(cls)
        if meth not in ci.methods:
            raise AnalysisError(f"method {cls}.{meth} vanished", (ci.file, ci.node.lineno), MISSING)
        return ci.methods[meth]

    def expanded(self, cls: str, meth: str, keep=()) -> ast.FunctionDef:
        """A copy of method `cls.meth` with the helpers it was split into put back (normalize.expand_helpers): calls through
        self/cls to methods of the class (MRO) and calls to functions of the same module.  `keep` names the callees a rule treats
        as primitives (they stay calls); helpers that use super() stay calls too.  Rules that read a function's statements by
        role see the same statements whether or not a block was extracted into a helper."""
        import copy
        from .normalize import expand_helpers
        cache = self.__dict__.setdefault("_expanded", {})
        key = (cls, meth, tuple(sorted(keep)))
        if key not in cache:
            fn = copy.deepcopy(self.method(cls, meth))
            file = self.cls(cls).file
            local_names = {n.id for n in ast.walk(fn) if isinstance(n, ast.Name) and isinstance(n.ctx, ast.Store)} | {a.arg for a in fn.args.args}

            def usable(callee):
                return callee is not None and not any(isinstance(n, ast.Name) and n.id == "super" for n in ast.walk(callee))

            def resolve(call):
                f = call.func
                if isinstance(f, ast.Attribute) and isinstance(f.value, ast.Name) and f.value.id in ("self", "cls") and f.attr not in keep:
                    _, callee = self.resolve(cls, f.attr)
                    if usable(callee) and not any(ast.unparse(d) == "property" for d in callee.decorator_list):
                        return callee, f.value
                if isinstance(f, ast.Name) and f.id not in keep and f.id not in local_names and (file, f.id) in self.functions:
                    callee = self.functions[(file, f.id)]
                    if usable(callee):
                        return callee, None
                return None
            cache[key] = expand_helpers(fn, resolve)
        return cache[key]

    # ---- class-level constants and the folded form of a method ---------------------------------------------------------
    @staticmethod
    def _literal_table(node):
        """the literal a class-level binding denotes when it is a (nested) tuple / list / set / dict of constants -- `tuple([..])`,
        `frozenset({..})` .. of such a literal included -- else None.  Tuples, sets and frozensets come back as tuples."""
        import copy
        if isinstance(node, ast.Call) and isinstance(node.func, ast.Name) and node.func.id in ("tuple", "list", "frozenset", "set") and len(node.args) == 1 and not node.keywords:
            inner = Package._literal_table(node.args[0])
            if isinstance(inner, (ast.Tuple, ast.List)):
                return ast.List(elts=inner.elts, ctx=ast.Load()) if node.func.id == "list" else ast.Tuple(elts=inner.elts, ctx=ast.Load())
            return None
        if isinstance(node, ast.Constant):
            return copy.deepcopy(node)
        if isinstance(node, ast.Call) and isinstance(node.func, ast.Name) and node.func.id == "slice" and 1 <= len(node.args) <= 3 and not node.keywords \
                and all(isinstance(a, ast.Constant) and (a.value is None or type(a.value) is int) for a in node.args):
            return copy.deepcopy(node)          # an immutable value built from constants
        if isinstance(node, ast.UnaryOp) and isinstance(node.op, ast.USub) and isinstance(node.operand, ast.Constant):
            return copy.deepcopy(node)
        if isinstance(node, (ast.Tuple, ast.List, ast.Set)):
            elts = [Package._literal_table(e) for e in node.elts]
            if any(e is None for e in elts):
                return None
            return ast.List(elts=elts, ctx=ast.Load()) if isinstance(node, ast.List) else ast.Tuple(elts=elts, ctx=ast.Load())
        if isinstance(node, ast.Dict):
            if any(k is None for k in node.keys):
                return None
            ks, vs = [Package._literal_table(k) for k in node.keys], [Package._literal_table(v) for v in node.values]
            if any(x is None for x in ks + vs) or any(not isinstance(k, ast.Constant) for k in ks):
                return None
            return ast.Dict(keys=ks, values=vs)
        return None

    def touched_attributes(self) -> set:
        """names of attributes that are assigned, deleted or mutated in place (x.NAME = .., x.NAME[k] = .., x.NAME.append(..),
        setattr(x, "NAME", ..)) anywhere in the package; "*" when a setattr with a name that cannot be read off the source exists.
        The name of a setattr is read after static folding of the enclosing function (a loop over a literal table of names is
        unrolled first); `setattr(x, TABLE[key], v)` with TABLE a class-level dict of constants touches TABLE's values."""
        if "_touched" in self.__dict__:
            return self._touched
        import copy
        from .normalize import MUTATORS, fold_static
        touched = set()

        def scan(root):
            for n in ast.walk(root):
                if isinstance(n, ast.Attribute) and isinstance(n.ctx, (ast.Store, ast.Del)):
                    touched.add(n.attr)
                elif isinstance(n, ast.Subscript) and isinstance(n.ctx, (ast.Store, ast.Del)) and isinstance(n.value, ast.Attribute):
                    touched.add(n.value.attr)
                elif isinstance(n, ast.AugAssign) and isinstance(n.target, ast.Attribute):
                    touched.add(n.target.attr)
                elif isinstance(n, ast.Call) and isinstance(n.func, ast.Attribute) and isinstance(n.func.value, ast.Attribute) and n.func.attr in MUTATORS:
                    touched.add(n.func.value.attr)
                elif isinstance(n, ast.Call) and isinstance(n.func, ast.Name) and n.func.id == "setattr":
                    name = n.args[1] if len(n.args) >= 2 else None
                    if isinstance(name, ast.Constant) and isinstance(name.value, str):
                        touched.add(name.value)
                        continue
                    vals = None
                    if isinstance(name, ast.Subscript) and isinstance(name.value, ast.Attribute):
                        for ci in self.classes.values():
                            lit = self._literal_table(ci.attrs[name.value.attr]) if name.value.attr in ci.attrs else None
                            if isinstance(lit, ast.Dict) and all(isinstance(v, ast.Constant) and isinstance(v.value, str) for v in lit.values):
                                vals = (vals or set()) | {v.value for v in lit.values}
                    if vals is None:
                        touched.add("*")
                    else:
                        touched.update(vals)
        for mod in self.modules.values():
            for st in ast.walk(mod):
                if isinstance(st, (ast.FunctionDef, ast.AsyncFunctionDef)) and any(isinstance(c, ast.Call) and isinstance(c.func, ast.Name) and c.func.id == "setattr" for c in ast.walk(st)):
                    try:
                        scan(fold_static(copy.deepcopy(st)))
                    except Exception:
                        scan(st)            # (a setattr with a computed name then counts as "*")
            scan(ast.Module(body=[s for s in mod.body], type_ignores=[]) if not any(
                isinstance(c, ast.Call) and isinstance(c.func, ast.Name) and c.func.id == "setattr" for c in ast.walk(mod)) else _without_setattr(mod))
        self._touched = touched
        return touched

    def class_constant(self, cls: str, name: str):
        """literal of the class-level constant `name` of class `cls` (or a base): bound in the class body to a (nested) literal of
        constants and never assigned, deleted or mutated anywhere in the package (instances included); None otherwise"""
        t = self.touched_attributes()
        if name in t or "*" in t:
            return None
        _, node = self.resolve_attr(cls, name)
        return self._literal_table(node) if node is not None else None

    def with_class_constants(self, cls: str, fn):
        """`fn` (modified in place) with every read of a class-level constant through self / cls / a class name of the MRO replaced by its literal"""
        mro = self.mro(cls)
        pkg = self

        class P(ast.NodeTransformer):
            def visit_Attribute(self, n):
                self.generic_visit(n)
                if isinstance(n.ctx, ast.Load) and isinstance(n.value, ast.Name) and (n.value.id in ("self", "cls") or n.value.id in mro):
                    c = pkg.class_constant(cls, n.attr)
                    if c is not None:
                        return ast.copy_location(c, n)
                return n
        new = P().visit(fn)
        ast.fix_missing_locations(new)
        return new

    def folded(self, cls: str, meth: str, keep=(), expand: bool = True) -> ast.FunctionDef:
        """A copy of method `cls.meth` in the form value-based rules read: extracted helpers put back (`expanded`, unless
        expand=False), class-level constants written in place, and the literal part evaluated (normalize.fold_static: static loops
        over zip / enumerate / accumulate / comprehensions of literal tables unrolled, table look-ups and setattr/getattr with
        constant names resolved, `if key in TABLE` dispatch spelled as the chain over the keys)."""
        import copy
        from .normalize import fold_static
        cache = self.__dict__.setdefault("_folded", {})
        key = (cls, meth, tuple(sorted(keep)), expand)
        if key not in cache:
            owner = self.resolve(cls, meth)[0] or cls          # an inherited method is read where it is defined
            fn = copy.deepcopy(self.expanded(owner, meth, keep) if expand else self.method(owner, meth))
            from .normalize import namedtuple_tables
            cache[key] = fold_static(self.with_class_constants(cls, fn), namedtuple_tables(self.modules[self.cls(owner).file]))
        return cache[key]

    def subclasses(self, base: str) -> list:
        return [c for c in self.classes if base in self.mro(c)[1:]]

    def func(self, file: str, name: str) -> ast.FunctionDef:
        if (file, name) not in self.functions:
            raise AnalysisError(f"function {name} vanished from {file}", (file, 0), MISSING)
        return self.functions[(file, name)]


def _without_setattr(mod):
    """the module minus the functions that call setattr (those are scanned in their folded form)"""
    class D(ast.NodeTransformer):
        def visit_FunctionDef(self, n):
            if any(isinstance(c, ast.Call) and isinstance(c.func, ast.Name) and c.func.id == "setattr" for c in ast.walk(n)):
                return None
            return self.generic_visit(n)
        visit_AsyncFunctionDef = visit_FunctionDef
    import copy
    return D().visit(copy.deepcopy(mod))


def species_count_method(pkg):
    """(name, FunctionDef) of the Species method that records element counts (writes self.element_count[..]) -- found by what it
    does, so that renaming a private helper is not an analysis failure"""
    ci = pkg.cls("Species")
    for name, fn in ci.methods.items():
        for n in ast.walk(fn):
            tg = []
            if isinstance(n, ast.Assign):
                tg = n.targets
            elif isinstance(n, ast.AugAssign):
                tg = [n.target]
            for t in tg:
                if isinstance(t, ast.Subscript) and ast.unparse(t.value) == "self.element_count":
                    return name, fn
            if isinstance(n, ast.Call) and isinstance(n.func, ast.Attribute) and n.func.attr in ("update", "setdefault") and ast.unparse(n.func.value) == "self.element_count":
                return name, fn
    raise AnalysisError("no method of Species records element counts (self.element_count[..] = ..)", (ci.file, 0), MISSING)


def species_parse_method(pkg):
    """the Species method that calls the count method while scanning the name"""
    cname, _ = species_count_method(pkg)
    ci = pkg.cls("Species")
    for name, fn in ci.methods.items():
        if name != cname and any(isinstance(c, ast.Call) and ast.unparse(c.func) == f"self.{cname}" for c in ast.walk(fn)):
            return name, fn
    raise AnalysisError("no method of Species calls the element-count method", (ci.file, 0), MISSING)


def package(tree: SourceTree) -> Package:
    if "_pkg" not in tree.__dict__:
        tree.__dict__["_pkg"] = Package(tree)
    return tree.__dict__["_pkg"]


def literal(node):
    """Python literal value of an AST node, or raise ValueError."""
    return ast.literal_eval(node)


def calls_in(node) -> list:
    return [n for n in ast.walk(node) if isinstance(n, ast.Call)]


def name_of_call(c: ast.Call) -> str:
    f = c.func
    if isinstance(f, ast.Name):
        return f.id
    if isinstance(f, ast.Attribute):
        return f.attr
    return ""
