"""C03 -- CSR / dense / Odeint layouts agree, are well-formed and in bounds."""
from __future__ import annotations

import ast
import re

from .. import jmodel as J
from ..cskel import Skel, strip_comments
from ..odemodel import model, FILE
from ..pymodel import package
from ..valueflow import walk as walk_
from ..valueflow import subst as subst_
from ..valueflow import Flow, lower, match, V, show, simp

EXPLANATION = (
    "R1 CSR construction in _prepare_ode_content: counter starts at 0, row loop range(n_eqns) appends the counter before "
    "the ascending column loop range(n_eqns), (cols.append(col), vals.append(entry), counter += 1) happen together under the "
    "single guard entry != sentinel, one final rows.append(counter) after the loops, nothing else touches the three lists; "
    "R2 one sentinel literal '0.0' at all sites (init, CSR filter, thermal wrap, dense/odeint template filters, pattern writer); "
    "R3 every layout iterates fields of the one Jacobian object (dense/odeint: ode.jac.rhs; sparse/cusparse: ode.jac.rows/cols/vals) "
    "unfiltered with loop.index0 as the subscript; R4 every array declaration, matrix/vector constructor and kernel offset in the "
    "templates uses the size macro of its family, and the macros are defined from the same sequences the generator enumerates "
    "(NEQUATIONS = max(NSPECIES+THERMAL,1) as in Python); R5 the pattern file is cut row-major from ode.jac.rhs / nrow with the same sentinel.")
ASSUMPTIONS = [
    "SUNDIALS/Boost honour the sizes they are given (run-time memory safety of the compiled code is not decided)",
    "values of the entries are C02's business",
]
ENGINES = ["pymodel", "valueflow", "jmodel", "cskel", "odemodel"]

JAC = "naunet/templates/cvode/src/naunet_jac.cpp.j2"
ODEINT = "naunet/templates/odeint/src/naunet_ode.cpp.j2"
MACROS = "naunet/templates/base/cpp/include/naunet_macros.h.j2"
CVODE_MAIN = "naunet/templates/cvode/src/naunet.cpp.j2"

FAMILY = {
    "k": "NREACTIONS", "kh": "NHEATPROCS", "kc": "NCOOLPROCS",
    "rowptrs": "NEQUATIONS+1", "colvals": "NNZ",
    "y": "NEQUATIONS", "ab_init_": "NEQUATIONS", "ab_tmp_": "NEQUATIONS", "ab_ref_": "NELEMENTS",
}


def check(ctx):
    m = model(ctx.tree)
    ctx.saw(FILE, "TemplateLoader._prepare_ode_content")
    _r1(ctx, m)
    # dense / odeint decode of the flattened index (same (row, col) as the CSR arrays): shared with C02.R4; the sentinel literal the
    # templates compare with is collected for R2
    from .c02 import _r4_templates
    tsent = {}
    _r4_templates(ctx, rule_decode="R3", rule_omit="R2", sent=tsent)
    _r2_r5(ctx, m, tsent)
    _r3(ctx)
    _r4(ctx)
    # who stores into the matrix, and at which index expression (per-system offset of the batched CSR block): shared with C02.R7
    from .c02 import jac_writers
    jac_writers(ctx, "R6")
    # each rendering is computed from the network of that call: the renderer keeps no memo between two renderings (shared with C17.R7)
    from .c17 import stateless_renderer
    stateless_renderer(ctx, package(ctx.tree), "R7")


# ------------------------------------------------------------------ R1

def _len_of_acc(v):
    """len(<accumulated list>) -> its name, else None"""
    if v[0] == "call" and v[1] == ("global", "len") and len(v[2]) == 1 and not v[3] and v[2][0][0] == "acc":
        return v[2][0][1]
    return None


def csr_roles(m):
    """(counter, roles, measured): the CSR lists by what is appended to them.  The running number of stored entries is either a
    counter local (incremented next to the appends; `counter` is its name) or the length of one of the lists being filled
    (`measured` is that list's name, counter is None)."""
    fl = m.flow
    counter = None
    measured = None
    appended_names = set()
    for f in fl.facts:
        if f.kind == "append":
            v = simp(f.value)
            for x in walk_(v):
                if isinstance(x, tuple) and x and x[0] == "carried":
                    appended_names.add(x[1])
    for f in fl.facts:
        if f.kind == "augassign" and f.op == "Add" and f.loops and f.target in appended_names:
            counter = f.target
    roles = {}
    inc_loops = None
    if counter is not None:
        for f in fl.facts:
            if f.kind == "append" and contains_carried(simp(f.value), counter):
                roles.setdefault("rows", []).append(f)
        for f in fl.facts:
            if f.kind == "augassign" and f.target == counter:
                inc_loops = tuple(l.id for l in f.loops)
    else:
        # no counter: the row pointers are `len(<list>)` of a list that is appended to inside the loops
        lens = {}
        for f in fl.facts:
            if f.kind == "append":
                nm = _len_of_acc(simp(f.value))
                if nm is not None and nm != f.target:
                    lens.setdefault(nm, []).append(f)
        cands = [nm for nm in lens if any(_grows(g) and g.target == nm and g.loops for g in fl.facts)]
        if len(cands) == 1:
            measured = cands[0]
            roles["rows"] = lens[measured]
            sites = {tuple(l.id for l in g.loops) for g in fl.facts if _grows(g) and g.target == measured}
            if len(sites) == 1:
                inc_loops = next(iter(sites))
    rows_names = {f.target for f in roles.get("rows", [])}

    def is_position(v):
        if v[0] == "elem" and v[1][0] == "sub" and v[1][1] == m.JAC and v[1][2][0] == "slice":
            return False        # an element of a slice of the Jacobian table is an entry, not a position
        return v[0] in ("elem", "item", "idx") or (v[0] == "call" and v[1] == ("global", "int"))
    for f in fl.facts:
        if f.kind == "append" and f.target not in rows_names and f.loops and inc_loops is not None and tuple(l.id for l in f.loops) == inc_loops:
            v = simp(f.value)
            roles.setdefault("cols" if is_position(v) else "vals", []).append(f)
        elif _grows(f) and f.kind == "mutate" and f.target not in rows_names and f.loops and inc_loops is not None and tuple(l.id for l in f.loops) == inc_loops:
            # a whole row's selection added at once: `cols.extend(pos for pos, e in enumerate(row) if ..)` / `vals.extend(e for ..)`
            mm = _as_selection(f.value)
            if mm is not None:
                roles.setdefault("cols" if mm[1] == ("item", mm[0], 0) else "vals", []).append(f)
    return counter, roles, measured


def _grows(f) -> bool:
    return f.kind == "append" or (f.kind == "mutate" and f.op == "extend" and f.value is not None)


def _as_selection(v):
    """`[g(t) for t in enumerate(S) if c(t)]` (nested comprehensions composed) -> (bv, body, S, ifs), else None"""
    from ..valueflow import as_map
    v = simp(v)
    mm = as_map(v) if v[0] == "comp" else None
    if mm is None:
        return None
    bv, body, base, ifs = mm
    base = simp(base)
    if not (base[0] == "call" and base[1] == ("global", "enumerate") and len(base[2]) == 1 and not base[3]):
        return None
    return bv, simp(body), simp(base[2][0]), tuple(simp(c) for c in ifs)


def contains_carried(v, name):
    from ..valueflow import walk
    return any(isinstance(x, tuple) and x and x[0] == "carried" and x[1] == name for x in walk(v))


_NEQ = ("n_eqns",)


def _npoly(m, v):
    """integer polynomial normal form (odemodel.poly) with every spelling of n_eqns as one atom"""
    from ..odemodel import poly
    out = {}
    for k, c in poly(v).items():
        k2 = tuple(sorted((_NEQ if (a == _NEQ or m.is_n_eqns(a)) else a for a in k), key=repr))
        out[k2] = out.get(k2, 0) + c
    return {k: c for k, c in out.items() if c}


def _row_origin(m, lp):
    """The row loop of the CSR scan by what it enumerates: -> (flat position of the row's first entry, every row visited once in
    ascending order?, description) or None when the loop is not understood.
       for row in range(N)                     first entry row * N          complete iff N is n_eqns
       for start in range(0, N * N, N)         first entry start            complete iff N is n_eqns
       for x in [g(row) for row in range(N)]   as the first form (the loop variable is g(row): a row slice cut by a helper, ..)"""
    from ..valueflow import as_map
    it = simp(lp.iter)
    desc = show(it)
    while it[0] == "call" and it[1] in (("global", "enumerate"), ("global", "list"), ("global", "tuple")) and len(it[2]) == 1 and not it[3]:
        it = it[2][0]           # `for r, rowdata in enumerate(rows)`: the same rows, numbered
    if it[0] == "comp":
        mm = as_map(it)
        if mm is None:
            return None
        if mm[3]:
            return (("const", 0), False, "a filtered sequence of rows: " + desc)
        it = simp(mm[2])
    if not (it[0] == "call" and it[1] == ("global", "range") and not it[3]):
        return None
    var = ("elem", it, lp.id)
    a = it[2]
    if len(a) == 1:
        return (("binop", "Mult", var, a[0]), m.is_n_eqns(a[0]), desc)
    if len(a) == 3:
        ok = a[0] == ("const", 0) and m.is_n_eqns(a[2]) and _npoly(m, a[1]) == {(_NEQ, _NEQ): 1}
        return (var, ok, desc)
    if len(a) == 2:
        return (("binop", "Mult", var, a[1]), a[0] == ("const", 0) and m.is_n_eqns(a[1]), desc)
    return None


def _per_row_position_sets(ctx, m, W) -> bool:
    """The CSR columns are read from per-row position sets (`cols = [set() for _ in range(n)]`, `cols[row].add(col)` recorded during
    assembly, `for col in sorted(cols[row])` in the builder) instead of scanning the table.  Then the sparse matrix holds an entry
    exactly where a position was recorded: every store into the Jacobian table needs a sibling `cols[<same row>].add(<same col>)` in
    the same loops under the same guards.  -> True when this construction was recognised (obligations emitted)."""
    fl = m.flow
    recs = {}
    for f in fl.facts:
        if f.kind == "call" and f.target == "add" and f.value is not None:
            v = simp(f.value)
            if v[0] == "meth" and v[2] == "add" and len(v[3]) == 1 and not v[4] and v[1][0] == "sub":
                recs.setdefault(v[1][1], []).append((simp(v[1][2]), simp(v[3][0]), f))
    # the table the builder reads: sub(T, <row>) inside the iterable of a loop that encloses appends
    used = []
    for T in recs:
        is_sets = T[0] == "comp" and T[2] in (("call", ("global", "set"), (), ()), ("set", ())) or T[0] == "acc"
        reads = any(any(isinstance(x, tuple) and len(x) == 3 and x[0] == "sub" and x[1] == T for x in walk_(simp(lp.iter)))
                    for f in fl.facts if f.kind == "append" for lp in f.loops)
        if is_sets and reads:
            used.append(T)
    if len(used) != 1:
        return _per_row_column_updates(ctx, m, W)
    T = used[0]
    tname = show(T)[:40]
    nsite = 0
    for site in m.sites:
        if site.array != "jacrhs" or site.kind not in ("loss", "gain", "mod", "heat", "cool"):
            continue
        d = m.decode_flat(simp(site.fact.index))
        if d is None:
            continue
        nsite += 1
        row, col = simp(d[0]), simp(d[1])
        sib = [f for r, c, f in recs[T] if r == row and c == col and tuple(l.id for l in f.loops) == tuple(l.id for l in site.fact.loops)
               and [(simp(g), p) for g, p in f.guards] == [(simp(g), p) for g, p in site.fact.guards]]
        ctx.check(bool(sib), "R1", f"position record:{site.kind}@{site.fact.line}", (FILE, site.fact.line),
                  f"the {site.kind} term's (row, column) is recorded in the per-row position sets" if sib else
                  f"the {site.kind} site stores a term into the Jacobian table but does not record its column in the per-row position sets ({tname}..) from which the CSR "
                  "arrays and NNZ are built: an entry that only this site contributes is assigned by the dense / odeint Jacobian and marked in the pattern file, but is "
                  "not stored in the sparse matrix",
                  expected="<sets>[row].add(col) next to the store", found="no matching record")
    if not nsite:
        return False
    if not ctx.by("VIOLATION"):
        ctx.unrec("R1", "csr-construction:from recorded positions", W, "the CSR arrays are built from recorded per-row position sets; beyond the pairing above the construction is not decided")
    return True


def _per_row_column_updates(ctx, m, W) -> bool:
    """As _per_row_position_sets, for the coarser spelling `cols[row].update(<columns>)` / `.add(col)` with the builder walking
    `enumerate(cols)` / `cols[row]`: a (row, column) pairing per site is not attempted, only the one thing that is decidable whatever the
    spelling -- a block that stores terms into the Jacobian table (the reaction loop, the ODE-modifier loop, a thermal loop) and records
    NOTHING in the per-row sets contributes entries the sparse arrays never hold.  -> True when this construction was recognised."""
    fl = m.flow
    recs = {}
    for f in fl.facts:
        if f.kind == "call" and f.target in ("add", "update") and f.value is not None:
            v = simp(f.value)
            if v[0] == "meth" and v[2] in ("add", "update") and len(v[3]) == 1 and not v[4] and v[1][0] == "sub":
                recs.setdefault(v[1][1], []).append(f)
    used = []
    for T in recs:
        is_sets = (T[0] == "comp" and T[2] in (("call", ("global", "set"), (), ()), ("set", ()))) or T[0] == "acc"
        reads = any(any(x == T for x in walk_(simp(lp.iter))) for f in fl.facts if f.kind == "append" for lp in f.loops)
        if is_sets and reads:
            used.append(T)
    if len(used) != 1:
        return False
    T = used[0]
    tname = show(T)[:40]
    rec_loops = {f.loops[0].id for f in recs[T] if f.loops}
    nsite = 0
    for site in m.sites:
        if site.array != "jacrhs" or site.kind not in ("loss", "gain", "mod", "heat", "cool") or not site.fact.loops:
            continue
        nsite += 1
        ok = site.fact.loops[0].id in rec_loops
        ctx.check(ok, "R1", f"position record:{site.kind}@{site.fact.line}", (FILE, site.fact.line),
                  f"the block of the {site.kind} term records columns in the per-row sets" if ok else
                  f"the {site.kind} site stores a term into the Jacobian table inside a loop that records nothing in the per-row column sets ({tname}..) from which the CSR "
                  "arrays and NNZ are built: an entry that only this site contributes is assigned by the dense / odeint Jacobian and marked in the pattern file, but is "
                  "not stored in the sparse matrix",
                  expected="<sets>[row].add(col) / .update(cols) next to the store", found="no record in the enclosing loop")
    if not nsite:
        return False
    if not ctx.by("VIOLATION"):
        ctx.unrec("R1", "csr-construction:from recorded positions", W, "the CSR arrays are built from recorded per-row column sets; beyond the presence of a record per writer block the construction is not decided")
    return True


def _column_set_scan(ctx, m, W, colloop) -> bool:
    """The column loop of the CSR scan walks a recorded SET of columns (`for col in sorted(S)`, S filled with `S.update(<columns>)` /
    `S.add(col)` during assembly) instead of range(n_eqns).  Every column some writer of the Jacobian table stores into must then be a
    column the scan visits: each accumulation site needs a record of its column(s) in the loops that enclose it.  A writer without one
    (the ODE-modifier block, a thermal loop) leaves entries in the dense table that the sparse arrays never store.
    -> True when this construction was recognised (obligations emitted)."""
    from ..valueflow import as_map
    fl = m.flow
    it = simp(colloop.iter)
    if it[0] == "call" and it[1] == ("global", "sorted") and len(it[2]) == 1 and not it[3]:
        it = it[2][0]
    if it[0] != "acc":
        return False
    S = it[1]
    inits = [f for f in fl.facts if f.kind == "init" and f.target == S]
    if len(inits) != 1 or simp(inits[0].value) not in (("call", ("global", "set"), (), ()), ("set", ())):
        return False
    recs = [f for f in fl.facts if f.target == S and f.kind in ("mutate", "append") and f.value is not None]
    other = [f for f in fl.facts if f.target == S and f.kind not in ("init",) and f not in recs]
    nsite = 0
    for site in m.sites:
        if site.array != "jacrhs" or site.kind not in ("loss", "gain", "mod", "heat", "cool"):
            continue
        d = m.decode_flat(simp(site.fact.index), tuple((simp(g), p) for g, p in site.fact.guards))
        if d is None:
            continue
        nsite += 1
        col = simp(d[1])
        ids = [l.id for l in site.fact.loops]
        covered = False
        for r in recs:
            rids = [l.id for l in r.loops]
            if rids != ids[:len(rids)] or any((simp(g), p) not in [(simp(g2), p2) for g2, p2 in site.fact.guards] for g, p in r.guards):
                continue
            v = simp(r.value)
            if r.op in ("add", "append") or r.kind == "append":
                covered = covered or v == col
            elif r.op == "update":
                mm = as_map(v) if v[0] in ("comp",) else None
                if mm is not None and not mm[3]:
                    bv, body, base, _ = mm
                    covered = covered or any(simp(subst_(body, {bv: ("elem", simp(base), lid)})) == col for lid in ids)
                elif v[0] in ("list", "tuple", "set"):
                    covered = covered or col in [simp(x) for x in v[1]]
        ctx.check(covered, "R1", f"column record:{site.kind}@{site.fact.line}", (FILE, site.fact.line),
                  f"the column of the {site.kind} term is recorded in `{S}`, the set of columns the CSR scan visits" if covered else
                  f"the CSR scan only visits the columns recorded in `{S}`, and the {site.kind} site stores a term into the Jacobian table without recording its column there: an "
                  "entry in a column that no other writer records is assigned by the dense / odeint Jacobian and marked in the pattern file, but is missing from the sparse "
                  "(CSR) arrays and from NNZ",
                  expected=f"{S}.add(<column>) / {S}.update(<columns>) in the loops of every writer of the table", found="no record of this site's column")
    if not nsite:
        return False
    if not ctx.by("VIOLATION"):
        ctx.unrec("R1", "csr-construction:from recorded columns", W, f"the CSR scan visits the recorded columns `{S}` only; beyond the pairing of writers and records the construction is not decided"
                  + (f" ({len(other)} other uses of the set)" if other else ""))
    return True


def _r1(ctx, m):
    fl = m.flow
    W = (FILE, m.func.lineno)
    counter, roles, measured = csr_roles(m)
    if (counter is None and measured is None) or not all(k in roles for k in ("rows", "cols", "vals")):
        # Not the scan `for row: for col: if entry != sentinel`.  One other construction is decidable: the stored positions are
        # taken from a SET filled during assembly.  Then the pattern is right only if every store into the Jacobian table has a
        # sibling `<set>.add(<same index>)` in the same loops, under the same guards.
        sets = {f.target for f in fl.facts if f.kind == "init" and simp(f.value) in (("call", ("global", "set"), (), ()), ("set", ()))}
        used = {t for t in sets if any(("acc", t) in list(walk_(simp(f.value))) for f in fl.facts if f.kind == "append" and f.value)}
        if len(used) == 1:
            S = next(iter(used))
            recs = [f for f in fl.facts if f.kind == "append" and f.target == S]
            nsite = 0
            for site in m.sites:
                if site.array != "jacrhs" or site.kind not in ("loss", "gain", "mod", "heat", "cool"):
                    continue
                nsite += 1
                idx = simp(site.fact.index)
                sib = [r for r in recs if simp(r.value) == idx and tuple(l.id for l in r.loops) == tuple(l.id for l in site.fact.loops)
                       and [(simp(g), p) for g, p in r.guards] == [(simp(g), p) for g, p in site.fact.guards]]
                ctx.check(bool(sib), "R1", f"position record:{site.kind}@{site.fact.line}", (FILE, site.fact.line),
                          f"the {site.kind} term's position is recorded in `{S}`" if sib else
                          f"the {site.kind} site stores a term into the Jacobian table but does not record its position in `{S}`, from which the CSR arrays and NNZ are built: an "
                          "entry that only this site contributes is assigned by the dense / odeint Jacobian and marked in the pattern file, but is not stored in the sparse matrix",
                          expected=f"{S}.add(<the index written>) next to the store", found="no matching record")
            if nsite:
                ctx.unrec("R1", "csr-construction:from recorded positions", W, "the CSR arrays are built from a recorded position set; beyond the pairing above the construction is not decided") \
                    if not ctx.by("VIOLATION") else None
                return
        if _per_row_position_sets(ctx, m, W):
            return
        ctx.unrec("R1", "csr-construction", W, f"CSR construction not recognised (counter={counter}, lists={sorted(roles)})")
        return
    rows, cols, vals = roles["rows"], roles["cols"], roles["vals"]
    names = {k: sorted({f.target for f in v}) for k, v in roles.items()}
    # (a) the running count of stored entries: a counter that starts at 0 and is incremented by 1 next to the appends, or the length
    #     of the value / column list itself
    incs = [f for f in fl.facts if f.kind == "augassign" and f.target == counter] if counter is not None else []
    if counter is not None:
        ini = fl.assigns.get(counter, [])
        if len(ini) == 1 and simp(ini[0][0])[0] != "const":
            ctx.unrec("R1", "nnz-init", (FILE, ini[0][3]), f"the initial value of `{counter}` is not a literal: {show(simp(ini[0][0]))[:80]}")
        else:
            ctx.check(len(ini) == 1 and simp(ini[0][0]) == ("const", 0) and not ini[0][1] and not ini[0][2], "R1", "nnz-init", (FILE, ini[0][3] if ini else m.func.lineno),
                      f"`{counter}` is initialised once to 0 before the loops", expected=f"{counter} = 0", found="; ".join(show(x[0]) for x in ini))
        if len(incs) == 1 and (simp(incs[0].value)[0] == "const" or incs[0].op != "Add"):
            ctx.check(incs[0].op == "Add" and simp(incs[0].value) == ("const", 1), "R1", "nnz-increment", (FILE, incs[0].line),
                      f"`{counter}` is only ever incremented by 1, at one site", found="; ".join(f"{f.op} {show(f.value)} @{f.line}" for f in incs))
        else:
            # several increment sites (arms, stages) or a step computed elsewhere (`nnz += len(found)`): another spelling of the count
            ctx.unrec("R1", "nnz-increment", (FILE, incs[0].line if incs else m.func.lineno),
                      f"`{counter}` is advanced in a way that is not one `+= 1` next to the appends: " + "; ".join(f"{f.op} {show(f.value)[:40]} @{f.line}" for f in incs))
    else:
        own = measured in names.get("vals", []) + names.get("cols", [])
        ctx.check(own, "R1", "nnz-by-length", W, f"the number of stored entries is read as len({measured}), the list that receives one element per stored entry",
                  found=f"len({measured}); value list {names.get('vals')}, column list {names.get('cols')}")
    inc = incs[0] if incs else None
    # (b) loops
    if (counter is not None and inc is None) or len(cols) != 1 or len(vals) != 1:
        # several append sites (arms of a condition, stages): a spelling of the scan that is not understood
        ctx.unrec("R1", "csr-sites", W, f"expected one cols.append, one vals.append and one increment; found {len(cols)}, {len(vals)}, {len(incs)}")
        return
    c, v = cols[0], vals[0]
    if c.kind == "mutate" and v.kind == "mutate" and counter is None:
        return _r1_rowwise(ctx, m, rows, c, v, names, measured)
    if c.kind == "mutate" or v.kind == "mutate":
        ctx.unrec("R1", "csr-construction", W, "one CSR list grows by append and another by extend: the construction is not understood")
        return
    together = [c, v] + ([inc] if inc is not None else [])
    scan = v.loops
    # the scan: `for row in range(n): for col in range(n): entry = table[row*n + col]`  or
    #           `for row in range(n): for col, entry in enumerate(table[row*n : (row+1)*n])`
    form = None
    origin = None
    if len(scan) == 2:
        origin = _row_origin(m, scan[0])
        it1 = simp(scan[1].iter)
        if origin is not None:
            if it1[0] == "call" and it1[1] == ("global", "range"):
                form = "range"
            elif it1[0] == "call" and it1[1] == ("global", "enumerate") and len(it1[2]) == 1 and not it1[3] and it1[2][0][0] == "sub" \
                    and it1[2][0][1] == m.JAC and it1[2][0][2][0] == "slice":
                form = "rowslice"
    if form is None and _per_row_position_sets(ctx, m, W):
        return
    if form is None and len(scan) == 2 and _column_set_scan(ctx, m, W, scan[1]):
        return
    if form is None:
        # restructured builder: the one obligation that is independent of the loop shape --
        # a row pointer must be emitted for every row, whatever the row contains
        hit = False
        for f in rows:
            if f.loops and f.guards:
                hit = True
                ctx.bad("R1", "rowptr-conditional", (FILE, f.line),
                        "the row-pointer append is conditional (" + "; ".join(("" if p else "not ") + show(simp(g))[:70] for g, p in f.guards)
                        + "): a row without stored entries gets no pointer, so the pointers no longer have n_eqns+1 entries",
                        expected="one rows.append(nnz) per row, unconditionally, before its columns")
        # ... and the loop that emits the pointers must visit EVERY row: a loop over the non-zero entries (a filtered sequence, or groups
        # of one) has no iteration for an all-zero row
        for f in rows:
            if f.loops and not hit:
                it = simp(f.loops[-1].iter)
                filt = [x for x in walk_(it) if isinstance(x, tuple) and x and ((x[0] == "comp" and any(g[2] for g in x[3])) or x[0] == "filtered")]
                grp = [x for x in walk_(it) if isinstance(x, tuple) and len(x) >= 3 and x[0] == "call" and x[1] in (("global", "groupby"), ("attr", ("global", "itertools"), "groupby"))]
                if filt and (grp or it[0] in ("comp", "filtered")):
                    hit = True
                    ctx.bad("R1", "rowptr-per-nonempty-row", (FILE, f.line),
                            "the row pointers are appended in a loop over the NON-ZERO entries (" + show(it)[:90] + "): an all-zero row (a species in no reaction, the empty "
                            "network's single row) has no iteration there, so the pointers have fewer than n_eqns+1 entries and every later row is shifted",
                            expected="for row in range(n_eqns): rows.append(nnz) ...", found=show(it)[:120])
        if not hit:
            ctx.unrec("R1", "csr-construction", W, "CSR builder is not the row loop x column loop form; cannot decide well-formedness")
        return
    rowloop, colloop = scan
    rowstart, complete, found_rows = origin
    def bounds_known(lp_):
        """the loop's range(..) bounds are arithmetic over n_spec / n_eqns / integers: a bound that is NOT n_eqns is then a wrong bound"""
        r_ = [x for x in walk_(simp(lp_.iter)) if isinstance(x, tuple) and len(x) == 4 and x[0] == "call" and x[1] == ("global", "range")]
        return bool(r_) and all(m._known_arith(a_) for x in r_ for a_ in x[2]) and not any(isinstance(x, tuple) and x and x[0] == "comp" and any(g_[2] for g_ in x[3]) for x in walk_(simp(lp_.iter)))
    if complete or bounds_known(rowloop) or "filtered" in found_rows[:12]:
        ctx.check(complete, "R1", "row-loop", (FILE, rowloop.line), f"the row loop `for {rowloop.target} in ..` visits every row 0 .. n_eqns-1 once, ascending",
                  expected="range(n_eqns)  /  range(0, n_eqns*n_eqns, n_eqns)  /  one item per element of range(n_eqns)", found=found_rows[:100])
    else:
        ctx.unrec("R1", "row-loop", (FILE, rowloop.line), f"the bounds of the row loop are not understood: {found_rows[:100]}")
    it = simp(colloop.iter)
    if form == "range":
        ok = len(it[2]) == 1 and not it[3] and m.is_n_eqns(it[2][0])
        if ok or bounds_known(colloop):
            ctx.check(ok, "R1", "col-loop", (FILE, colloop.line), f"col loop is `for {colloop.target} in range(n_eqns)` (ascending, complete)",
                      expected="range(n_eqns)", found=show(it)[:100])
        else:
            ctx.unrec("R1", "col-loop", (FILE, colloop.line), f"the bounds of the column loop are not understood: {show(it)[:100]}")
        colvar = ("elem", it, colloop.id)
        entry = None            # from the guard, below
    else:
        seq = it[2][0]
        sl = seq[2]
        lo = {} if sl[1] == ("const", None) else _npoly(m, sl[1])
        ok = sl[3] == ("const", None) and sl[2] != ("const", None) and lo == _npoly(m, rowstart) and _npoly(m, sl[2]) == _npoly(m, ("binop", "Add", rowstart, _NEQ))
        if ok or all(b_ == ("const", None) or m._known_arith(b_) for b_ in sl[1:4]):
            ctx.check(bool(ok), "R1", "col-loop", (FILE, colloop.line),
                      f"col loop enumerates the row's slice jacrhs[row*n_eqns : (row+1)*n_eqns] (ascending, complete; position in the slice = column)",
                      expected="enumerate(jacrhs[row*n_eqns : (row+1)*n_eqns])", found=show(it)[:120])
        else:
            ctx.unrec("R1", "col-loop", (FILE, colloop.line), f"the bounds of the row's slice are not arithmetic over the row variable and n_eqns: {show(seq)[:120]}")
        colvar = ("idx", seq, colloop.id)
        entry = ("elem", seq, colloop.id)
    # (c) row pointer appended before the column loop, unguarded, once per row
    inrow = [f for f in rows if tuple(l.id for l in f.loops) == (rowloop.id,)]
    tail = [f for f in rows if not f.loops]
    others = [f for f in rows if f not in inrow and f not in tail]
    first_col_fact = min(f.seq for f in fl.facts if colloop in f.loops)
    last_loop_fact = max(f.seq for f in fl.facts if rowloop in f.loops)
    # the same pointers written the other way round: the list starts as [0] and every row appends the running count AFTER its columns
    # (no separate final append) -- [0, c1, .., nnz] either way
    last_col_fact = max(f.seq for f in fl.facts if colloop in f.loops)
    rows_init = [simp(f.value) for f in fl.facts if f.kind == "init" and f.target in names["rows"]]
    trailing = rows_init == [("list", (("const", 0),))] and len(inrow) == 1 and not tail and not others and not inrow[0].guards and inrow[0].seq > last_col_fact
    ok = trailing or (len(inrow) == 1 and not inrow[0].guards and inrow[0].seq < first_col_fact and not others)
    rows_other = [f for f in fl.facts if f.target in names["rows"] and f.kind not in ("init", "append")]
    rows_odd_init = [x for x in rows_init if x not in (("list", ()), ("list", (("const", 0),)))]
    if (rows_other or rows_odd_init or len(rows_init) != 1) and not (ok and (trailing or (len(tail) == 1 and not tail[0].guards and tail[0].seq > last_loop_fact))):
        ctx.unrec("R1", "rowptr", (FILE, rowloop.line), "the row-pointer list is also filled by other statements than one append per row and a final one ("
                  + "; ".join(f"{f.kind}{':' + f.op if getattr(f, 'op', None) else ''}@{f.line}" for f in rows_other) + f"; initial value {[show(x)[:40] for x in rows_init]}): not understood")
        return
    ctx.check(ok, "R1", "rowptr-before-columns", (FILE, inrow[0].line if inrow else rowloop.line),
              "each row appends the running count to the row pointers before its columns are visited, unconditionally",
              expected="rows.append(nnz) as first statement of the row loop",
              found=f"{len(inrow)} in-row appends" + (f" (guards: {[show(g) for g, _ in inrow[0].guards]}, after column loop: {inrow[0].seq > first_col_fact})" if inrow else "")
              + (f", {len(others)} appends elsewhere (lines {[f.line for f in others]})" if others else ""))
    ok = trailing or (len(tail) == 1 and not tail[0].guards and tail[0].seq > last_loop_fact)
    if ok and counter is None and not trailing:
        # len(<list>) is the final count only if it is evaluated after the loops
        ok = _evaluated_after(fl, simp(tail[0].value), tail[0].seq, last_loop_fact)
    ctx.check(ok, "R1", "rowptr-final", (FILE, tail[0].line if tail else rowloop.line),
              "one final rows.append(nnz) after the loops (row pointers end at the non-zero count)",
              found=f"{len(tail)} appends after the loops")
    # (d) single guard entry != sentinel shared by cols / vals / increment
    same_loops = all(tuple(l.id for l in f.loops) == (rowloop.id, colloop.id) for f in together)
    g = [tuple((simp(x), p) for x, p in f.guards) for f in together]
    slot_idx = None
    guard_ok = False
    if all(x == g[0] for x in g) and len(g[0]) == 1:
        gx, pol = g[0][0]
        b = match(("cmp", (V("op"),), (V("e"), V("lit"))), gx)
        if b and ((b["op"] == "NotEq" and pol) or (b["op"] == "Eq" and not pol)) and b["lit"][0] == "const":
            if form == "range" and b["e"][0] == "sub" and b["e"][1] == m.JAC:
                slot_idx = b["e"][2]
                entry = b["e"]
                guard_ok = True
            elif form == "rowslice" and b["e"] == entry:
                guard_ok = True
            if guard_ok:
                ctx.stats["csr_sentinel"] = b["lit"][1]
    # positive evidence of a wrong filter: the appends do not sit together, are unguarded, or test the entry against something else
    # than a constant; a test on a value that is not traced to the Jacobian table is "cannot decide"
    traced = True
    if same_loops and not guard_ok and all(x == g[0] for x in g) and len(g[0]) == 1:
        b_ = match(("cmp", (V("op"),), (V("e"), V("lit"))), g[0][0][0])
        if b_ and b_["lit"][0] == "const" and not any(x == m.JAC for x in walk_(b_["e"])):
            traced = False
    simple = all(x == g[0] for x in g) and (not g[0] or (len(g[0]) == 1 and bool(match(("cmp", (V("op"),), (V("e"), V("lit"))), g[0][0][0]))
                                                       and match(("cmp", (V("op"),), (V("e"), V("lit"))), g[0][0][0])["lit"][0] == "const"))
    if not traced:
        ctx.unrec("R1", "single-guard", (FILE, c.line), f"the stored entries are filtered by a test on `{show(g[0][0][0])[:100]}`, which is not traced to the Jacobian table {m.JACNAME}")
    elif same_loops and not guard_ok and all(x == g[0] for x in g) and not simple:
        # one shared filter, but not a single comparison with a literal (several conditions, a helper predicate): not understood
        ctx.unrec("R1", "single-guard", (FILE, c.line), "the condition under which an entry is stored is not a single comparison of the entry with a literal: "
                  + " & ".join(("" if p else "not ") + show(x)[:60] for x, p in g[0]))
    else:
        ctx.check(same_loops and guard_ok, "R1", "single-guard", (FILE, c.line),
                  "cols.append, vals.append and the increment sit together under the single guard `entry != sentinel`",
                  expected="if elem != '0.0': cols.append(col); vals.append(elem); nnz += 1",
                  found="; ".join("&".join(("" if p else "not ") + show(x)[:60] for x, p in gg) or "<unguarded>" for gg in g))
    if guard_ok:
        if form == "range":
            ok = _npoly(m, slot_idx) == _npoly(m, ("binop", "Add", rowstart, colvar))
            rowvar0 = ("elem", simp(rowloop.iter), rowloop.id)
            idx_known = all(x in (colvar, rowvar0) or x[0] in ("binop", "const", "unop") or m.is_n_eqns(x) or m._known_arith(x) for x in _atoms(simp(slot_idx), (colvar, rowvar0), m))
            if ok or idx_known:
                ctx.check(ok, "R1", "entry-index", (FILE, c.line), "the tested entry is jacrhs[row*n_eqns + col] of the two loop variables",
                          found=show(slot_idx)[:120])
            else:
                ctx.unrec("R1", "entry-index", (FILE, c.line), f"the subscript of the tested entry is not arithmetic over the two loop variables and n_eqns: {show(slot_idx)[:120]}")
        else:
            ctx.ok("R1", "entry-index", (FILE, c.line), "the tested entry is the element the column loop enumerates: jacrhs[row*n_eqns + col]")
        cv = simp(c.value)
        rowvar_ = ("elem", simp(rowloop.iter), rowloop.id)
        # wrong: another position built from the two loop variables; a value computed elsewhere is not understood
        pos_known = all(x in (colvar, rowvar_) or x[0] in ("binop", "const", "unop") or m.is_n_eqns(x) for x in _atoms(cv, (colvar, rowvar_), m))
        if cv == colvar or pos_known:
            ctx.check(cv == colvar, "R1", "cols-value", (FILE, c.line), "the column list receives the column loop variable", found=show(cv)[:80])
        else:
            ctx.unrec("R1", "cols-value", (FILE, c.line), f"the value appended to the column list is not traced to the loop variables: {show(cv)[:80]}")
        lw = lower(v.value)
        hv = list(lw.holes.values())
        ok = len(hv) == 1 and hv[0] in (entry, ("fmt", entry, None, -1)) and lw.text.strip() == next(iter(lw.holes))
        if ok or (len(hv) == 1 and hv[0] in (entry, ("fmt", entry, None, -1)) and not lw.seqs) or not hv:
            # wrong: the entry with text around it, or a constant
            ctx.check(ok, "R1", "vals-value", (FILE, v.line), "the value list receives that same entry, unchanged", found=lw.text)
        else:
            ctx.unrec("R1", "vals-value", (FILE, v.line), f"the value appended to the value list is not traced to the tested entry: {lw.text[:80]}")
    # (f) nothing else touches the lists
    allnames = set(sum(names.values(), []))
    extra = [f for f in fl.facts if f.target in allnames and f.kind not in ("init", "append")]
    grow = [f for f in extra if f.kind == "mutate" and f.op in ("extend", "__iadd__", "iadd")]
    edits = [f for f in extra if f.kind in ("store", "augstore", "remove") or (f.kind == "mutate" and f.op in ("sort", "reverse", "remove", "pop", "insert", "clear"))]
    if extra and not edits:
        # further elements added in bulk / the list re-bound: another spelling of filling the lists, not understood here
        ctx.unrec("R1", "no-other-writer", (FILE, extra[0].line), "the CSR lists are also touched by " + "; ".join(f"{f.kind}{':' + str(f.op) if getattr(f, 'op', None) else ''}@{f.line}" for f in extra) + ": not understood")
    else:
        ctx.check(not extra, "R1", "no-other-writer", (FILE, extra[0].line if extra else m.func.lineno),
                  "the CSR lists are only initialised empty and appended to", found="; ".join(f"{f.kind}@{f.line}" for f in extra))
    for nm in sorted(allnames):
        ini = [f for f in fl.facts if f.kind == "init" and f.target == nm]
        empty = ("list", (("const", 0),)) if (trailing and nm in names["rows"]) else ("list", ())
        good = len(ini) == 1 and simp(ini[0].value) == empty and not ini[0].loops
        # wrong: initialised more than once / inside a loop, or to a display with other content; another kind of value is not understood
        if good or len(ini) != 1 or ini[0].loops or simp(ini[0].value)[0] == "list":
            ctx.check(good, "R1", f"init:{nm}", (FILE, ini[0].line if ini else m.func.lineno),
                      f"`{nm}` starts as the empty list, once" if empty == ("list", ()) else f"`{nm}` starts as [0], once", found="; ".join(show(f.value) for f in ini))
        else:
            ctx.unrec("R1", f"init:{nm}", (FILE, ini[0].line), f"the initial value of `{nm}` is not read as a list display: {show(simp(ini[0].value))[:80]}")


def _atoms(v, leaves, m):
    """the sub-terms of an index expression down to the given leaves / n_eqns spellings (which are not entered)"""
    if v in leaves or m.is_n_eqns(v) or not isinstance(v, tuple):
        yield v
        return
    if v[0] in ("binop", "unop"):
        yield v
        for x in v[2:]:
            if isinstance(x, tuple):
                yield from _atoms(x, leaves, m)
        return
    yield v


def _r1_rowwise(ctx, m, rows, c, v, names, measured):
    """R1 for the row-wise spelling of the scan

        for row in range(n):  [rows.append(len(vals))]
            cols.extend(pos for pos, e in enumerate(T[row*n:(row+1)*n]) if e != sentinel)
            vals.extend(e   for pos, e in enumerate(T[row*n:(row+1)*n]) if e != sentinel)
            [rows.append(len(vals))]

    -- the same obligations as the element-wise scan: every row once in ascending order, the columns of a row in ascending order and
    complete (the positions of its slice), both lists selected by the one test `entry != sentinel`, the row pointer before the row
    (plus a final one) or after it (the list starting as [0])."""
    fl = m.flow
    W = (FILE, m.func.lineno)
    own = measured in names.get("vals", []) + names.get("cols", [])
    ctx.check(own, "R1", "nnz-by-length", W, f"the number of stored entries is read as len({measured}), the list that receives one element per stored entry",
              found=f"len({measured}); value list {names.get('vals')}, column list {names.get('cols')}")
    if len(v.loops) != 1:
        ctx.unrec("R1", "csr-construction", W, "the row-wise CSR builder is not one loop over the rows; cannot decide well-formedness")
        return
    rowloop = v.loops[0]
    origin = _row_origin(m, rowloop)
    sc, sv = _as_selection(c.value), _as_selection(v.value)
    if origin is None or sc is None or sv is None:
        ctx.unrec("R1", "csr-construction", W, "the row-wise CSR builder's row loop / selections are not understood")
        return
    rowstart, complete, found_rows = origin
    ctx.check(complete, "R1", "row-loop", (FILE, rowloop.line), f"the row loop `for {rowloop.target} in ..` visits every row 0 .. n_eqns-1 once, ascending",
              expected="range(n_eqns)", found=found_rows[:100]) if (complete or all(m._known_arith(a_) for x in walk_(simp(rowloop.iter)) if isinstance(x, tuple) and len(x) == 4 and x[0] == "call"
                                                                 and x[1] == ("global", "range") for a_ in x[2])) else \
        ctx.unrec("R1", "row-loop", (FILE, rowloop.line), f"the bounds of the row loop are not understood: {found_rows[:100]}")
    # the slice both selections enumerate
    ok_slice = True
    for nm_, sel in (("cols", sc), ("vals", sv)):
        seq = sel[2]
        good = seq[0] == "sub" and seq[1] == m.JAC and seq[2][0] == "slice"
        if good:
            sl = seq[2]
            lo = {} if sl[1] == ("const", None) else _npoly(m, sl[1])
            good = sl[3] == ("const", None) and sl[2] != ("const", None) and lo == _npoly(m, rowstart) and _npoly(m, sl[2]) == _npoly(m, ("binop", "Add", rowstart, _NEQ))
            ctx.check(bool(good), "R1", f"col-loop:{nm_}", (FILE, c.line if nm_ == "cols" else v.line),
                      "the selection enumerates the row's slice jacrhs[row*n_eqns : (row+1)*n_eqns] (ascending, complete; position in the slice = column)",
                      expected="enumerate(jacrhs[row*n_eqns : (row+1)*n_eqns])", found=show(seq)[:120])
        else:
            ok_slice = False
            ctx.unrec("R1", f"col-loop:{nm_}", (FILE, c.line), f"the sequence the selection enumerates is not a slice of the Jacobian table: {show(seq)[:100]}")
    # one test, entry != sentinel, for both
    z = ("bv", "_", 0)
    tests = [tuple(subst_(t, {sel[0]: z}) for t in sel[3]) for sel in (sc, sv)]
    guard_ok = False
    if tests[0] == tests[1] and len(tests[0]) == 1:
        b = match(("cmp", (V("op"),), (V("e"), V("lit"))), tests[0][0])
        if b and b["op"] == "NotEq" and b["lit"][0] == "const" and b["e"] == ("item", z, 1):
            guard_ok = True
            ctx.stats["csr_sentinel"] = b["lit"][1]
    understood = all(len(t) <= 1 and all(match(("cmp", (V("op"),), (("item", z, 1), V("lit"))), x) for x in t) for t in tests)
    if guard_ok or understood:
        ctx.check(guard_ok, "R1", "single-guard", (FILE, c.line), "columns and values are selected by the one test `entry != sentinel`",
                  expected="... for pos, e in enumerate(row) if e != '0.0'", found="; ".join(" & ".join(show(x)[:60] for x in t) or "<unfiltered>" for t in tests))
    else:
        ctx.unrec("R1", "single-guard", (FILE, c.line), "the tests selecting columns / values are not understood: " + "; ".join(" & ".join(show(x)[:60] for x in t) for t in tests))
    if guard_ok and ok_slice:
        ctx.ok("R1", "entry-index", (FILE, c.line), "the tested entry is the element the selection enumerates: jacrhs[row*n_eqns + col]")
        ctx.check(sc[1] == ("item", sc[0], 0), "R1", "cols-value", (FILE, c.line), "the column list receives the position in the row's slice", found=show(sc[1])[:80])
        body = sv[1]
        if body[0] == "fstr" and len(body[1]) == 1 and body[1][0][0] == "fmt" and body[1][0][2] is None:
            body = body[1][0][1]
        ctx.check(body == ("item", sv[0], 1), "R1", "vals-value", (FILE, v.line), "the value list receives that same entry, unchanged", found=show(sv[1])[:80])
    # row pointers
    inrow = [f for f in rows if tuple(l.id for l in f.loops) == (rowloop.id,)]
    tail = [f for f in rows if not f.loops]
    others = [f for f in rows if f not in inrow and f not in tail]
    first_sel, last_sel = min(c.seq, v.seq), max(c.seq, v.seq)
    last_loop_fact = max(f.seq for f in fl.facts if rowloop in f.loops)
    rows_init = [simp(f.value) for f in fl.facts if f.kind == "init" and f.target in names["rows"]]
    trailing = rows_init == [("list", (("const", 0),))] and len(inrow) == 1 and not tail and not others and not inrow[0].guards and inrow[0].seq > last_sel
    ok = trailing or (len(inrow) == 1 and not inrow[0].guards and inrow[0].seq < first_sel and not others)
    ctx.check(ok, "R1", "rowptr-before-columns", (FILE, inrow[0].line if inrow else rowloop.line),
              "each row appends the running count to the row pointers before its columns are added (or after them, the list starting as [0]), unconditionally",
              found=f"{len(inrow)} in-row appends, {len(others)} elsewhere, initial value {[show(x) for x in rows_init]}")
    ok = trailing or (len(tail) == 1 and not tail[0].guards and tail[0].seq > last_loop_fact and _evaluated_after(fl, simp(tail[0].value), tail[0].seq, last_loop_fact))
    ctx.check(ok, "R1", "rowptr-final", (FILE, tail[0].line if tail else rowloop.line),
              "the row pointers end at the non-zero count (a final append after the loop, or the last row's own append)", found=f"{len(tail)} appends after the loop")
    allnames = set(sum(names.values(), []))
    extra = [f for f in fl.facts if f.target in allnames and f.kind not in ("init", "append") and f is not c and f is not v]
    ctx.check(not extra, "R1", "no-other-writer", (FILE, extra[0].line if extra else m.func.lineno),
              "the CSR lists are only initialised and grown by the statements above", found="; ".join(f"{f.kind}@{f.line}" for f in extra))
    for nm in sorted(allnames):
        ini = [f for f in fl.facts if f.kind == "init" and f.target == nm]
        empty = ("list", (("const", 0),)) if (trailing and nm in names["rows"]) else ("list", ())
        good = len(ini) == 1 and simp(ini[0].value) == empty and not ini[0].loops
        if good or len(ini) != 1 or ini[0].loops or simp(ini[0].value)[0] == "list":
            ctx.check(good, "R1", f"init:{nm}", (FILE, ini[0].line if ini else m.func.lineno),
                      f"`{nm}` starts as the empty list, once" if empty == ("list", ()) else f"`{nm}` starts as [0], once", found="; ".join(show(f.value) for f in ini))
        else:
            ctx.unrec("R1", f"init:{nm}", (FILE, ini[0].line), f"the initial value of `{nm}` is not read as a list display: {show(simp(ini[0].value))[:80]}")


def _evaluated_after(fl, v, use_seq, after_seq):
    """`v` (a len(<list>) expression, read by the fact numbered use_seq) was evaluated after the fact numbered after_seq: either it
    is written at the point of use, or it was bound to a local by an assignment that itself comes after."""
    binds = [seq for nm, lst in fl.assigns.items() for val, loops, guards, line, seq in lst if simp(val) == v]
    if not binds:
        return use_seq > after_seq
    return all(sq > after_seq for sq in binds) and use_seq > after_seq


# ------------------------------------------------------------------ R2 + R5

def _r2_r5(ctx, m, tsent=()):
    pkg = package(ctx.tree)
    sent = {}
    notread = []        # sentinel sites that exist but whose literal could not be read
    fl = m.flow
    for s in m.sites:
        if s.array == "jacrhs" and s.kind == "init":
            v = simp(s.fact.value)
            # the cell the table is filled with, read by value ([c] * n * n, [c for ..], repeat(c, n) ..)
            from .c02 import const_table
            t = const_table(v)
            if t is not None and t[0][0] == "const":
                sent[("jacrhs init", FILE, s.line)] = t[0][1]
            else:
                notread.append(("jacrhs init", s.line, show(v)[:100]))
        if s.array == "jacrhs" and s.kind == "wrap":
            v = s.value
            if v[0] in ("ifexp", "phi") and len(v) == 4 and v[1][0] == "cmp" and len(v[1][2]) == 2:
                lit_ = v[1][2][1][1] if v[1][2][1][0] == "const" else None
                sent[("thermal wrap test", FILE, s.line)] = lit_
                slot_ = ("sub", m.JAC, simp(s.fact.index))
                # the value kept for a sentinel entry: a literal, or the untouched entry itself (then it is the tested literal)
                sent[("thermal wrap kept value", FILE, s.line)] = v[2][1] if v[2][0] == "const" else (v[3][1] if v[3][0] == "const" else (lit_ if slot_ in (v[2], v[3]) else None))
            else:
                # the wrap as a conditional store `if entry != sentinel: entry = wrap(entry)`: the test is in the guard, the kept
                # value is the untouched entry itself
                for gc, gp in s.fact.guards:
                    gc = simp(gc)
                    if gc[0] == "cmp" and gc[1] == ("Eq",) and gp is False and gc[2][1][0] == "const" and gc[2][0][0] == "sub":
                        sent[("thermal wrap test", FILE, s.line)] = gc[2][1][1]
                        sent[("thermal wrap kept value", FILE, s.line)] = gc[2][1][1]
    if "csr_sentinel" in ctx.stats:
        sent[("CSR filter", FILE, m.func.lineno)] = ctx.stats["csr_sentinel"]
    sent.update(tsent)       # the literal the dense / odeint templates compare an entry with (c02.dense_layout, any spelling of the test)
    # pattern writer
    pkg.method("TemplateLoader", "render")
    ctx.saw(FILE, "TemplateLoader.render")
    # the writer extracted into a helper method / a method of the Jacobian record (`self._write_pattern(ode.jac, path)`,
    # `ode.jac.pattern_text()`) is still these statements: the helpers are put back first
    from .c02 import RENDER_KEEP
    fn = pkg.expanded("TemplateLoader", "render", keep=RENDER_KEEP)
    # a helper method that returns the text / the rows / the marks is read as the value it returns
    from ..odemodel import pure_helper_resolver, inline_constants
    import copy as _copy
    fn = inline_constants(_copy.deepcopy(fn), pkg, "TemplateLoader")     # a sentinel kept in a named module / class constant is that literal
    rf = Flow(fn, FILE, resolver=pure_helper_resolver(pkg, "TemplateLoader"))
    _pattern_writer(ctx, rf, fn, sent)
    # R2 verdict
    W = (FILE, m.func.lineno)
    for label, line, what in notread:
        ctx.unrec("R2", f"sentinel:{label}", (FILE, line), f"the literal the {label} uses as sentinel could not be read: {what}")
    ctx.floor("R2", "sentinel sites", len(sent) + len(notread), 6 if "csr_sentinel" not in ctx.stats else 7, W)
    for (label, rel, line), lit in sorted(sent.items()):
        if lit is None:
            # the site exists but does not compare with / keep a literal: not understood (a DIFFERENT literal is the violation)
            ctx.unrec("R2", f"sentinel:{label}", (rel, line), f"the literal the {label} uses as sentinel could not be read")
            continue
        ctx.check(lit == "0.0", "R2", f"sentinel:{label}", (rel, line), f"{label} uses the sentinel '0.0'", expected="'0.0'", found=repr(lit))


def _pattern_writer(ctx, rf, fn, sent):
    """R5.  The text written to jac_pattern.dat, read as a value:
         "\\n".join( ROW(r) for r in range(nrow) ),   ROW(r) = " ".join( MARK(e) for e in ode.jac.rhs[r*nrow : (r+1)*nrow] ),
         MARK(e) = 0 if e == sentinel else 1   (as int through str(), or as the strings "0" / "1")
    whichever way it is spelled: rows appended in a loop or built by a comprehension, the marks computed first for the whole table
    and sliced afterwards or computed on the slice, row starts pre-computed, intermediate locals or none."""
    from ..odemodel import poly
    from ..valueflow import as_map
    W = (FILE, fn.lineno)
    writes = [f for f in rf.facts if f.kind == "call" and f.target in ("write", "write_text") and f.value and "jac_pattern.dat" in show(f.value[1]) and f.value[3]]
    if len(writes) != 1 or not any("jac_pattern" in show(g) for g, _ in writes[0].guards):
        ctx.missing("R5", "pattern-writer", W, "jac_pattern branch of TemplateLoader.render (one write to jac_pattern.dat under `if jac_pattern`) not found")
        return
    w = writes[0]
    wg = [(simp(g), p) for g, p in w.guards]
    text = simp(w.value[3][0])
    if not (text[0] == "join" and text[1] == ("const", "\n")):
        ctx.unrec("R5", "pattern-rows", (FILE, w.line), f"the text written to jac_pattern.dat is not a newline-join of rows: {show(text)[:100]}")
        return
    rows = text[2]
    chain = set()           # locals the rows are accumulated in
    if rows[0] == "acc":
        chain.add(rows[1])
        inits = [f for f in rf.facts if f.kind == "init" and f.target == rows[1]]
        apps = [f for f in rf.facts if f.kind == "append" and f.target == rows[1]]
        if len(inits) != 1 or simp(inits[0].value) != ("list", ()) or len(apps) != 1 or len(apps[0].loops) != 1 \
                or [(simp(g), p) for g, p in apps[0].guards] != wg:
            ctx.unrec("R5", "pattern-rows", (FILE, w.line), f"the rows are accumulated in `{rows[1]}` in a way that is not one unconditional append per iteration of one loop")
            return
        lp = apps[0].loops[0]
        rdom = simp(lp.iter)
        rvar = ("elem", rdom, lp.id)
        rowv = simp(apps[0].value)
        rline = apps[0].line
    else:
        mm = as_map(rows) if rows[0] == "comp" else None
        if mm is None or mm[3]:
            ctx.unrec("R5", "pattern-rows", (FILE, w.line), f"the rows are not one row per element of a sequence: {show(rows)[:100]}")
            return
        bv, body, rdom, _ = mm
        rdom = simp(rdom)
        rvar = ("elem", rdom, None)
        rowv = simp(subst_(body, {bv: rvar}))
        rline = w.line
    # one row per r in range(nrow)
    dom_ok = rdom[0] == "call" and rdom[1] == ("global", "range") and len(rdom[2]) == 1 and not rdom[3]
    if not dom_ok:
        ctx.unrec("R5", "pattern-rows", (FILE, rline), f"rows range over {show(rdom)[:80]}, not over range(<n>)")
        return
    n = rdom[2][0]
    if not (rowv[0] == "join" and rowv[1] == ("const", " ")):
        ctx.unrec("R5", "pattern-rows", (FILE, rline), f"a row is not a blank-join of marks: {show(rowv)[:100]}")
        return
    cm = as_map(rowv[2])
    if cm is None or cm[3]:
        ctx.unrec("R5", "pattern-rows", (FILE, rline), f"the marks of a row are not one per element of a sequence: {show(rowv[2])[:100]}")
        return
    cbv, cbody, cbase, _ = cm
    cbase = simp(cbase)

    def edited(name):
        # the row / the marks were edited in place after they were derived from the entries
        muts = [f for f in rf.facts if f.target == name and f.kind in ("store", "augstore", "mutate", "remove")]
        if not muts:
            return ctx.unrec("R5", "pattern-rows", (FILE, rline), f"`{name}` is filled piecemeal; the pattern is not reconstructible as a value")
        ctx.bad("R5", "pattern-unedited", (FILE, muts[0].line if muts else rline),
                f"the pattern is edited after it was derived from the entries (`{muts[0].kind if muts else 'edit'}` on `{name}`" + (f" at line {muts[0].line}" if muts else "")
                + "): jac_pattern.dat marks entries the generated Jacobian never stores (or hides stored ones)")
    if cbase[0] == "acc":
        return edited(cbase[1])
    if not (cbase[0] == "sub" and cbase[2][0] == "slice"):
        ctx.unrec("R5", "pattern-rows", (FILE, rline), f"a row is not cut from a sequence by a slice: {show(cbase)[:100]}")
        return
    src, sl = cbase[1], cbase[2]
    # marks computed for the whole table first and sliced afterwards: [f(x) for x in T][a:b] = [f(x) for x in T[a:b]]
    if src[0] == "comp":
        im = as_map(src)
        if im is None:
            ctx.unrec("R5", "pattern-marks", (FILE, rline), f"mark list not understood: {show(src)[:100]}")
            return
        if im[3]:
            ctx.bad("R5", "pattern-marks", (FILE, rline), "the marks are computed from a FILTERED view of the Jacobian entries: positions in the pattern no longer "
                    "correspond to positions in the table", found=show(src)[:140])
            return
        cbody = simp(subst_(cbody, {cbv: im[1]}))
        cbv, src = im[0], simp(im[2])
    if src[0] == "acc":
        return edited(src[1])
    src_ok = show(src).endswith(".jac.rhs")
    # the mark of one entry
    mark = cbody
    if mark[0] == "call" and mark[1] == ("global", "str") and len(mark[2]) == 1 and not mark[3]:
        mark = mark[2][0]
    lit = None
    form = None
    if mark[0] == "ifexp" and mark[1][0] == "cmp" and len(mark[1][1]) == 1 and mark[1][1][0] in ("Eq", "NotEq") and mark[1][2][0] == cbv and mark[1][2][1][0] == "const" \
            and mark[2][0] == "const" and mark[3][0] == "const":
        lit = mark[1][2][1][1]
        a_, b_ = (mark[2][1], mark[3][1]) if mark[1][1][0] == "Eq" else (mark[3][1], mark[2][1])       # (value for a sentinel entry, value otherwise)
        if (a_, b_) in ((0, 1), ("0", "1")) and type(a_) is type(b_) and not isinstance(a_, bool):
            form = True
        elif (a_, b_) in ((1, 0), ("1", "0")):
            form = False
    elif mark[0] == "call" and mark[1] == ("global", "int") and len(mark[2]) == 1 and not mark[3] and mark[2][0][0] == "cmp" and len(mark[2][0][1]) == 1 \
            and mark[2][0][1][0] in ("Eq", "NotEq") and mark[2][0][2][0] == cbv and mark[2][0][2][1][0] == "const":
        # the truth value of the test as the mark: int(entry != sentinel) is 0 for a sentinel entry and 1 otherwise
        lit = mark[2][0][2][1][1]
        form = mark[2][0][1][0] == "NotEq"
    sent[("pattern writer", FILE, rline)] = lit
    if form is None or not src_ok:
        ctx.unrec("R5", "pattern-marks", (FILE, rline), f"mark of an entry not understood: {show(cbody)[:100]} over {show(src)[:60]}")
        return
    ctx.check(form, "R5", "pattern-marks", (FILE, rline),
              "mark = 0 if entry == sentinel else 1, for every entry of ode.jac.rhs -- marks exactly the stored entries",
              expected="0 if entry == '0.0' else 1", found=show(cbody)[:140])
    # the slice of row r
    lo = poly(sl[1]) if sl[1] != ("const", None) else {}
    hi = poly(sl[2]) if sl[2] != ("const", None) else None
    want_lo = poly(("binop", "Mult", rvar, n))
    want_hi = poly(("binop", "Add", ("binop", "Mult", rvar, n), n))
    ok = sl[3] == ("const", None) and lo == want_lo and hi == want_hi and show(n).endswith(".jac.nrow")
    n_known = n[0] == "attr" and ".jac." in show(n)[-12:]
    atoms_known = all(a_ in (rvar, n) for k_ in list(lo) + list(hi or {}) for a_ in k_)
    if ok or (n_known and atoms_known and sl[3] == ("const", None)):
        ctx.check(ok, "R5", "pattern-rows", (FILE, rline),
                  "row r of the file is pattern[r*nrow:(r+1)*nrow] for r in range(nrow), nrow = ode.jac.nrow", found=show(cbase)[:140])
    else:
        ctx.unrec("R5", "pattern-rows", (FILE, rline), f"the slice a row is cut by is not arithmetic over the row number and ode.jac.nrow: {show(cbase)[:140]} for rows in range({show(n)[:60]})")
    # nothing edits the pattern after it was derived from the entries: no in-place edit of a local of this branch
    local = {nm for nm, lst in rf.assigns.items() for val, loops, guards, line, seq in lst if [(simp(g), p) for g, p in guards][:len(wg)] == wg and wg}
    muts = [f for f in rf.facts if f.target in (local | chain) and f.kind in ("store", "augstore", "mutate", "remove") ]
    ctx.check(not muts, "R5", "pattern-unedited", (FILE, muts[0].line if muts else rline),
              "the pattern rows are written exactly as derived from the Jacobian entries" if not muts else
              f"the pattern is edited after it was derived from the entries (`{muts[0].kind}` on `{muts[0].target}` at line {muts[0].line}): jac_pattern.dat marks entries the generated "
              "Jacobian never stores (or hides stored ones)")


# ------------------------------------------------------------------ R3

def _walk_j(e):
    if isinstance(e, tuple):
        yield e
        for y in e:
            yield from _walk_j(y)


def _loop_sites(ctx, label, rel, cfg, fname, field, lhs_pat):
    """In function `fname`: exactly one loop writes `lhs[ <index> ] = {{ entry }}`; it must iterate ode.jac.<field>."""
    # `{% set %}` variables read as the expressions they stand for, index arithmetic in canonical form (`loop.index - 1` = `loop.index0`)
    items = J.canon_items(J.propagate_sets(J.flatten(ctx.tree, rel, cfg)))
    sk = Skel(items)
    key = f"{label}:{fname}:ode.jac.{field}"
    hits = []
    for it, off in sk.items_in(fname):
        if it[0] != "for":
            continue
        flat = [x for x, st in J.walk_items(it[3]) if x[0] in ("text", "out")]
        txt = "".join(x[1] if x[0] == "text" else f"\x00{i}\x00" for i, x in enumerate(flat))
        mm = re.search(r"(?<![\w])" + lhs_pat + r"\s*=\s*\x00(\d+)\x00", txt)
        if mm:
            hits.append((it, flat, mm))
    if len(hits) != 1:
        (ctx.unrec if hits else ctx.missing)("R3", key, (rel, 0), f"{fname} has {len(hits)} loops writing {lhs_pat.split('[')[0].strip(chr(92))}[..], expected one")
        return
    it, flat, mm = hits[0]
    FIELD = ("attr", ("attr", ("name", "ode"), "jac"), field)
    if it[2] == ("call", ("name", "range"), (("filter", "length", FIELD, (), ()),), ()) and it[7] is None and it[1][0] == "name":
        # index loop `for i in range(ode.jac.<field> | length)`: position i receives ode.jac.<field>[i]
        idx = flat[int(mm.group(1))][1]
        base, fs = J.unfilter(flat[int(mm.group(2))][1])
        ok = idx == it[1] and base == ("item", FIELD, it[1]) and all(f[0] in ("stmwrap",) or (f[0] == "replace" and field == "vals") for f in fs)
        ctx.check(ok, "R3", key, (rel, it[5]), f"entry n of ode.jac.{field} is written to position n (index loop over its length), unfiltered",
                  expected=f"[i] = ode.jac.{field}[i]", found=f"[{J.show(idx)}] = {J.show(flat[int(mm.group(2))][1])}")
        return
    var = it[1]
    if it[2][0] == "call" and it[2][1] == ("name", "zip") and not it[2][3] and FIELD in it[2][2] and it[7] is None and it[1][0] == "tuple" \
            and len(it[1][1]) == len(it[2][2]) and all(a_[0] == "attr" for a_ in it[2][2]):
        # `for col, val in zip(ode.jac.cols, ode.jac.vals)`: one loop filling several arrays; each target walks its own sequence in step
        var = it[1][1][it[2][2].index(FIELD)]
    elif J.path(J.unfilter(it[2])[0]) != f"ode.jac.{field}" or it[2][0] != "attr" or it[7] is not None:
        root = it[2]
        while root[0] in ("filter", "item"):
            root = root[2] if root[0] == "filter" else root[1]
        # positive evidence: the array is filled from ANOTHER field of the Jacobian, or from a filtered / sliced view of its own
        (ctx.bad if (J.path(root) or "").startswith("ode.jac.") else ctx.unrec)(
            "R3", key, (rel, it[5]), f"the loop filling this array iterates {J.show(it[2])}, not ode.jac.{field} itself",
            **({"expected": f"for x in ode.jac.{field}", "found": J.show(it[2])} if (J.path(root) or "").startswith("ode.jac.") else {}))
        return
    idx = flat[int(mm.group(1))][1]
    val = flat[int(mm.group(2))][1]
    base, fs = J.unfilter(val)
    ok_idx = idx == ("attr", ("name", "loop"), "index0")
    ok_val = base == var and all(f[0] in ("stmwrap",) or (f[0] == "replace" and field == "vals") for f in fs)
    from .c02 import _paths_in
    # wrong: a subscript that is other arithmetic over the loop position, a value that is another field of the Jacobian / another
    # loop variable; anything else (a helper macro, a further filter) is not understood
    idx_known = _paths_in(idx) <= {"loop", "loop.index0", "loop.index"} and not any(isinstance(x, tuple) and x and x[0] in ("call", "filter", "item") for x in _walk_j(idx))
    val_known = (base == var and not fs) or (base != var and (base[0] == "name" or (J.path(base) or "").startswith("ode.jac.")))
    if (ok_idx and ok_val) or ((ok_idx or idx_known) and (ok_val or val_known)):
        ctx.check(ok_idx and ok_val, "R3", key, (rel, it[5]),
                  f"entry n of ode.jac.{field} is written to position n (loop.index0), unfiltered",
                  expected="[loop.index0] = entry", found=f"[{J.show(idx)}] = {J.show(val)}")
    else:
        ctx.unrec("R3", key, (rel, it[5]), f"the statement filling this array is not understood: [{J.show(idx)[:60]}] = {J.show(val)[:80]}")


def _r3(ctx):
    # dense / sparse agree only if the CSR arrays are cut from the final jacrhs
    m = model(ctx.tree)
    from ..odemodel import write_read_order
    last, first = write_read_order(m, "jacrhs")
    from .c02 import _csr_consumer
    if last is not None and first is not None and last.seq >= first[0] and not _csr_consumer(m, first):
        ctx.unrec("R3", "csr built from the final jacrhs", (FILE, last.line), f"jacrhs is read at line {first[1]} ({first[2]}) before its last store at line {last.line}; that reader is "
                  "not recognised as the CSR builder / the Jacobian object")
    elif last is not None and first is not None:
        ctx.check(last.seq < first[0], "R3", "csr built from the final jacrhs", (FILE, last.line),
                  "the CSR arrays are built after the last store into jacrhs" if last.seq < first[0] else
                  f"jacrhs is modified at line {last.line} after the CSR arrays were built (line {first[1]}): sparse and dense layouts hold different values",
                  found=f"last store line {last.line}, first consumer line {first[1]}")
    ctx.saw(JAC)
    ctx.saw(ODEINT)
    sp = {"general.method": "sparse"}
    cu = {"general.method": "cusparse"}
    _loop_sites(ctx, "cvode/sparse", JAC, sp, "Jac", "rows", r"rowptrs\s*\[\s*\x00(\d+)\x00\s*\]")
    _loop_sites(ctx, "cvode/sparse", JAC, sp, "Jac", "cols", r"colvals\s*\[\s*\x00(\d+)\x00\s*\]")
    _loop_sites(ctx, "cvode/sparse", JAC, sp, "Jac", "vals", r"data\s*\[\s*\x00(\d+)\x00\s*\]")
    _loop_sites(ctx, "cvode/cusparse", JAC, cu, "JacKernel", "vals", r"data\s*\[\s*jistart\s*\+\s*\x00(\d+)\x00\s*\]")
    # cusparse InitJac: the initialiser list of each array is the whole rows / cols sequence -- looked up by ROLE: what stands between the
    # braces of `int rowptrs[..] = { .. };` / `int colvals[..] = { .. };`, as one `| join(", ")` output or as a loop printing every
    # element with a separator between two of them
    from ..cskel import match_brace
    items = J.canon_items(J.propagate_sets(J.flatten(ctx.tree, JAC, cu)))
    sk = Skel(items)
    fs_ = sk.func("InitJac")
    if not fs_:
        ctx.missing("R3", "cvode/cusparse:InitJac", (JAC, 0), "function InitJac not found in the cusparse slice")
        return
    fn_ = fs_[0]
    placed = [(it, off) for it, off in sk.items_in("InitJac") if it[0] in ("out", "for", "if")]
    nested = {id(x) for it, _ in placed if it[0] in ("for", "if") for x, _ in J.walk_items(it[3] if it[0] == "for" else it[2] + it[3])}
    idx0 = ("attr", ("name", "loop"), "index0")
    for p, arr in (("ode.jac.rows", "rowptrs"), ("ode.jac.cols", "colvals")):
        key = f"cvode/cusparse:InitJac:{p}"
        FIELD = ("attr", ("attr", ("name", "ode"), "jac"), p.split(".")[-1])
        md = re.search(r"\bint\s+" + arr + r"\s*\[[^\]]*\]\s*=\s*\{", sk.clean[fn_.start:fn_.end])
        if not md:
            ctx.missing("R3", key, (JAC, 0), f"InitJac does not declare `int {arr}[..] = {{ .. }}`")
            continue
        lo = fn_.start + md.end() - 1
        hi = match_brace(sk.clean, lo)
        inside = [it for it, off in placed if lo <= off < hi and id(it) not in nested]
        if len(inside) != 1:
            (ctx.unrec if inside else ctx.missing)("R3", key, (JAC, 0), f"the initialiser of {arr} holds {len(inside)} template items, expected one output or one loop")
            continue
        it = inside[0]
        if it[0] == "out":
            base, fs = J.unfilter(it[1])
            names = [f[0] for f in fs]
            # `join` applies str() to every element itself: a preceding map('string') is optional
            if fs and fs[0][0] == "map" and fs[0][1] == (("const", "string"),) and not fs[0][2]:
                names = names[1:]
            if base != FIELD and J.path(base) in ("ode.jac.rows", "ode.jac.cols", "ode.jac.vals", "ode.jac.rhs"):
                ctx.bad("R3", "cvode/cusparse:InitJac:binding", (JAC, it[2]), f"{arr} is initialised from {J.show(base)}, not from {p}", expected=p, found=J.show(base))
                continue
            good = base == FIELD and names[:1] == ["join"] and all(n == "stmwrap" for n in names[1:])
            cut = any(n in ("select", "reject", "selectattr", "rejectattr", "slice", "batch", "unique", "sort", "reverse", "first", "last") for n in names) or base != FIELD and base[0] == "item"
            # wrong: a filtered / sliced / re-ordered view of the field; other filters are not understood
            root = base[1] if base[0] == "item" else base
            if good or (cut and J.path(root) == p):
                ctx.check(good, "R3", key, (JAC, it[2]), f"{arr} initialiser is the complete {p} sequence joined by ', '", found=J.show(it[1]))
            else:
                ctx.unrec("R3", key, (JAC, it[2]), f"the initialiser of {arr} is not understood: {J.show(it[1])[:100]}")
        elif it[0] == "for":
            root = it[2]
            while root[0] in ("filter", "item"):
                root = root[2] if root[0] == "filter" else root[1]
            if (it[2] != FIELD or it[7] is not None) and J.path(root) in ("ode.jac.rows", "ode.jac.cols", "ode.jac.vals", "ode.jac.rhs"):
                (ctx.bad)("R3", "cvode/cusparse:InitJac:binding" if J.path(root) != p else key, (JAC, it[5]),
                          f"{arr} is initialised by a loop over {J.show(it[2])}, not over the complete {p}", expected=p, found=J.show(it[2]))
                continue
            body = list(J.walk_items(it[3]))
            outs = [(x, st) for x, st in body if x[0] == "out"]
            elem_ok = it[2] == FIELD and it[7] is None and outs and not outs[0][1] and J.unfilter(outs[0][0][1])[0] == it[1] \
                and all(f[0] in ("string", "int", "stmwrap") for f in J.unfilter(outs[0][0][1])[1])
            # the separator: printed between two elements, i.e. for every element but the last (or but the first)
            last = ("attr", ("name", "loop"), "last")
            first = ("attr", ("name", "loop"), "first")
            sep_ok = False
            rest = outs[1:]
            seps = [x for x, st in body if x[0] == "text" and "," in x[1]]
            if len(rest) == 1 and not seps and rest[0][0][1][0] == "cond":
                c, a_, b_ = rest[0][0][1][1:4]
                t, pol = J.canon_test(c)
                b_ = b_ if b_ is not None else ("const", "")
                with_sep, without = (a_, b_) if not pol else (b_, a_)       # value when `t` is false / true
                sep_ok = t == last and with_sep[0] == "const" and "," in str(with_sep[1]) and without[0] == "const" and "," not in str(without[1])
            elif not rest and len(seps) == 1:
                st = next(st_ for x, st_ in body if x is seps[0])
                gs = [J.canon_test(g[1], g[0] == "if+") for g in st if g[0] in ("if+", "if-")]
                sep_ok = len(gs) == 1 and gs[0] in ((last, False), (first, False))
            if elem_ok and sep_ok:
                ctx.ok("R3", key, (JAC, it[5]), f"{arr} initialiser prints every element of {p}, separated by ', '")
            else:
                ctx.unrec("R3", key, (JAC, it[5]), f"the loop that prints the initialiser of {arr} is not understood (element / separator)")
        else:
            ctx.unrec("R3", key, (JAC, it[4]), f"the initialiser of {arr} is conditional")


# ------------------------------------------------------------------ R4

def _norm(s):
    return re.sub(r"\s+", "", s)


def _r4_reactions(ctx):
    """k[i] <-> NREACTIONS: the list whose positions index k[] is the list whose length the header declares."""
    m = model(ctx.tree)
    fl = m.flow
    pkg = package(ctx.tree)
    W = (FILE, m.func.lineno)
    # (a) the enumerated list is the NetworkInfo field itself
    ctx.check(m.REAC == m.REAC_FIELD, "R4", "k index list is netinfo.reactions", W,
              "reactions are enumerated over netinfo.reactions -- the sequence the templates measure with `network.reactions | length`" if m.REAC == m.REAC_FIELD else
              "the generator enumerates a different list than the one NREACTIONS measures (a fill-in element is added locally): for the empty network the header declares "
              "NREACTIONS 0 while k[0] is written",
              expected="reactions = netinfo.reactions", found=show(m.REAC)[:100])
    inits = [f for f in fl.facts if f.kind == "init" and f.value and f.value[0] == "meth" and f.value[2] == "_assign_rates"]
    inits += [type("F", (), {"value": v, "line": line}) for nm, lst in fl.assigns.items() for v, loops, g, line, seq in lst if v[0] == "meth" and v[2] == "_assign_rates"]
    k = [f for f in inits if f.value[3] and f.value[3][0] == ("const", "k")]
    ok = bool(k) and all(len(f.value[3]) > 1 and simp(f.value[3][1]) == m.REAC_FIELD for f in k)
    # wrong: the rates are assigned over the locally extended view of the list (or over another list of the network)
    k_known = bool(k) and all(len(f.value[3]) > 1 and (simp(f.value[3][1]) in (m.REAC, m.HEAT, m.COOL) or (simp(f.value[3][1])[0] == "attr" and simp(f.value[3][1])[1] == m.NI)) for f in k)
    if ok or k_known:
        ctx.check(ok, "R4", "k assignments enumerate netinfo.reactions", (FILE, k[0].line if k else m.func.lineno),
                  "_assign_rates('k', ..) receives netinfo.reactions", found=show(simp(k[0].value[3][1]))[:80] if k else "missing")
    else:
        ctx.unrec("R4", "k assignments enumerate netinfo.reactions", (FILE, k[0].line if k else m.func.lineno),
                  "the call _assign_rates('k', <list>, ..) was not found / its list is not traced to a field of netinfo")
    # (b) the field receives network.reactions (the property that supplies the dummy reaction of an empty network)
    import ast as _ast
    from .c02 import render_functions
    for file, cls, meth, fn in render_functions(pkg):
        for c in _ast.walk(fn):
            if isinstance(c, _ast.Call) and _ast.unparse(c.func) == "NetworkInfo" and not any(isinstance(a_, _ast.Starred) for a_ in c.args):
                from .c02 import dataclass_fields
                bound = dict(zip(dataclass_fields(pkg, "NetworkInfo"), c.args))
                bound.update({k_.arg: k_.value for k_ in c.keywords if k_.arg})
                arg = bound.get("reactions")
                if arg is None:
                    continue
                # a local bound once stands for the expression it was bound to (also inside the `or` fall-back)
                once = {}
                for st in _ast.walk(fn):
                    if isinstance(st, _ast.Assign) and len(st.targets) == 1 and isinstance(st.targets[0], _ast.Name):
                        once.setdefault(st.targets[0].id, []).append(st.value)

                def deref(e, depth=0):
                    while isinstance(e, _ast.Name) and len(once.get(e.id, [])) == 1 and depth < 4:
                        e, depth = once[e.id][0], depth + 1
                    return e
                arg = deref(arg)
                src = " ".join(_ast.unparse(arg).split())
                good = src == "network.reactions"
                wrong = False
                if isinstance(arg, _ast.BoolOp) and isinstance(arg.op, _ast.Or) and len(arg.values) == 2 and _ast.unparse(arg.values[0]) == "network.reactions":
                    # `network.reactions or [<one reaction>]`: the (never used) fall-back for an empty list still counts one reaction
                    fb = deref(arg.values[1])
                    good = isinstance(fb, (_ast.List, _ast.Tuple)) and len(fb.elts) == 1 and not isinstance(fb.elts[0], _ast.Starred)
                elif isinstance(arg, _ast.Attribute) and isinstance(arg.value, _ast.Name) and arg.value.id == "network" and arg.attr != "reactions":
                    wrong = True        # another list of the network (reaction_list: without the dummy reaction of the empty network)
                if not good and not wrong:
                    # not an attribute of the network: which list this is cannot be told from here
                    ctx.unrec("R4", f"{cls}.{meth}:NetworkInfo.reactions", (file, c.lineno), f"NetworkInfo.reactions receives `{src[:80]}`: not read as an attribute of the network")
                    continue
                ctx.check(good, "R4", f"{cls}.{meth}:NetworkInfo.reactions", (file, c.lineno),
                          "the reactions the templates count are network.reactions (dummy reaction included for the empty network)" if good else
                          "NetworkInfo.reactions is not network.reactions: NREACTIONS no longer counts the dummy reaction whose rate k[0] is still written",
                          expected="network.reactions", found=src[:80])


def _r4(ctx):
    _r4_reactions(ctx)
    tree = ctx.tree
    # --- macro definitions
    ctx.saw(MACROS)
    # a size first bound to a `{% set %}` variable is still that expression; `| count` is `| length`
    items = J.canon_items(J.propagate_sets(J.flatten(tree, MACROS, {})))
    defs = {}
    prev = ""
    for it in items:
        if it[0] == "text":
            prev = it[1]
        elif it[0] == "out":
            mm = re.search(r"#define\s+(\w+)\s+$", prev)
            if mm:
                defs[mm.group(1)] = (it[1], it[2])
            prev = ""
    want = {"NELEMENTS": ("filter", "length", ("attr", ("name", "network"), "elements"), (), ()),
            "NSPECIES": ("filter", "length", ("attr", ("name", "network"), "species"), (), ()),
            "NHEATPROCS": ("filter", "length", ("attr", ("name", "network"), "heating"), (), ()),
            "NCOOLPROCS": ("filter", "length", ("attr", ("name", "network"), "cooling"), (), ()),
            "NREACTIONS": ("filter", "length", ("attr", ("name", "network"), "reactions"), (), ()),
            "NNZ": ("attr", ("attr", ("name", "ode"), "jac"), "nnz")}
    from .c02 import _paths_in
    for name, w in want.items():
        got = defs.get(name)
        # wrong: undefined, or another expression over the network's lists / the Jacobian's fields (another list, a length off by one);
        # a value computed some other way (macro, helper filter) is not understood
        known = got is not None and all(p_.split(".")[0] in ("network", "ode") for p_ in _paths_in(got[0])) and \
            not any(isinstance(x, tuple) and x and (x[0] in ("call", "test") or (x[0] == "filter" and x[1] not in ("length", "int"))) for x in _walk_j(got[0]))
        same = got is not None and (got[0] == w or (name == "NNZ" and got[0] in _NNZ_BY_LENGTH))
        if got is None or same or known:
            ctx.check(same, "R4", f"macro:{name}", (MACROS, got[1] if got else 0),
                      f"{name} is defined as {J.show(w)} -- the length of the sequence the generator enumerates",
                      expected=J.show(w), found=J.show(got[0]) if got else "undefined")
        else:
            ctx.unrec("R4", f"macro:{name}", (MACROS, got[1]), f"{name} is defined as `{J.show(got[0])[:100]}`: not read as a length / field of the rendered objects")
    raw = strip_comments(tree.read(MACROS))
    txt = _norm(raw)

    def cpp_defs(name):
        """the replacement texts of `#define <name> ..` and whether all of them are arithmetic over the size macros only"""
        reps = [_norm(x) for x in re.findall(r"^[ \t]*#[ \t]*define[ \t]+" + name + r"\b(.*)$", raw, flags=re.M)]
        plain = bool(reps) and all(re.fullmatch(r"[\w()+\-*|&<>?:!=]*", r_) and set(re.findall(r"[A-Za-z_]\w*", r_)) <= {"NSPECIES", "THERMAL", "NHEATPROCS", "NCOOLPROCS", "NEQUATIONS"}
                                   for r_ in reps)
        return reps, plain
    ok = "#defineTHERMAL(NHEATPROCS||NCOOLPROCS)" in txt
    reps, plain = cpp_defs("THERMAL")
    if ok or not reps or plain:
        ctx.check(ok, "R4", "macro:THERMAL", (MACROS, 0), "THERMAL = (NHEATPROCS || NCOOLPROCS), as has_thermal in Python", found="; ".join(reps) or "undefined")
    else:
        ctx.unrec("R4", "macro:THERMAL", (MACROS, 0), f"the definition of THERMAL is not understood: {'; '.join(reps)[:100]}")
    ok = "#if(NSPECIES+THERMAL)#defineNEQUATIONS(NSPECIES+THERMAL)#else#defineNEQUATIONS1#endif" in txt
    reps, plain = cpp_defs("NEQUATIONS")
    if ok or not reps or plain:
        ctx.check(ok, "R4", "macro:NEQUATIONS", (MACROS, 0), "NEQUATIONS = max(NSPECIES + THERMAL, 1), the same function as Python's n_eqns",
                  expected="#if (NSPECIES + THERMAL) / #define NEQUATIONS (NSPECIES + THERMAL) / #else / #define NEQUATIONS 1", found="; ".join(reps) or "undefined")
    else:
        ctx.unrec("R4", "macro:NEQUATIONS", (MACROS, 0), f"the definition of NEQUATIONS is not understood: {'; '.join(reps)[:100]}")
    # --- declarations, constructors, offsets in every back-end template and configuration
    targets = []
    for rel in sorted(tree.glob("naunet/templates/cvode/src/*.j2") + tree.glob("naunet/templates/cvode/include/*.j2")):
        for mth in ("dense", "sparse", "cusparse"):
            targets.append((rel, {"general.method": mth}, f"cvode/{mth}"))
    for rel in sorted(tree.glob("naunet/templates/odeint/src/*.j2") + tree.glob("naunet/templates/odeint/include/*.j2")):
        targets.append((rel, {"general.method": "rosenbrock4"}, "odeint"))
    ndecl = nctor = noff = 0
    seen = set()
    for rel, cfg, label in targets:
        ctx.saw(rel)
        # (a `{% set %}` variable bound to a string literal prints that text: `{% set shape = "NEQUATIONS, NEQUATIONS" %}`)
        sk = Skel(J.propagate_sets(J.flatten(tree, rel, cfg)))
        code = sk.plain(sk.clean)
        for mm in re.finditer(r"\b(?:realtype|double|int|sunindextype|float)\s+(\w+)\s*\[([^\]]*)\]", code):
            name, size = mm.group(1), _norm(mm.group(2))
            if name not in FAMILY or not size:
                continue
            if size != FAMILY[name] and not _size_known(size):
                f0 = sk.func_of_offset(mm.start())
                size = _strip_casts(_subst_consts(size, _cpp_consts(code[(f0.start if f0 else _block_start(code, mm.start())):mm.start()])))
            ndecl += 1
            key = f"{label}:{rel.split('/')[-1]}:decl {name}[{size}]"
            if key in seen:
                continue
            seen.add(key)
            if size == FAMILY[name] or _size_known(size):
                ctx.check(size == FAMILY[name], "R4", key, (rel, code.count("\n", 0, mm.start()) + 1),
                          f"array `{name}` is declared with the size macro of its family", expected=f"{name}[{FAMILY[name]}]", found=f"{name}[{size}]")
            else:
                ctx.unrec("R4", key, (rel, code.count("\n", 0, mm.start()) + 1), f"array `{name}` is declared with a size that is not arithmetic over the size macros: {size[:60]}")
        for fn, want_args in (("SUNDenseMatrix", None), ("SUNSparseMatrix", ["NEQUATIONS", "NEQUATIONS", "NNZ", "CSR_MAT"]),
                              ("SUNMatrix_cuSparse_NewBlockCSR", [None, "NEQUATIONS", "NEQUATIONS", "NNZ"]),
                              ("N_VNewEmpty_Serial", ["(sunindextype)NEQUATIONS"]), ("N_VNew_Cuda", ["NEQUATIONS*n_system_per_stream"]),
                              ("zero_matrix<double>", ["NEQUATIONS", "NEQUATIONS"])):
            for mm in re.finditer(re.escape(fn) + r"\s*\(", code):
                args = _split_args(code, mm.end())
                f = sk.func_of_offset(mm.start())
                fname = f.name if f else "?"
                w = want_args
                if fn == "SUNDenseMatrix":
                    w = ["NELEMENTS", "NELEMENTS"] if fname.endswith("Renorm") else ["NEQUATIONS", "NEQUATIONS"]
                nctor += 1
                # a size first bound to a constant local of the function (`const sunindextype neq = NEQUATIONS;`) is that size; casts
                # do not change it
                consts = _cpp_consts(code[(f.start if f else _block_start(code, mm.start())):mm.start()])
                got = [_strip_casts(_subst_consts(_norm(a), consts)) for a in args[:len(w)]]
                w = [x if x is None else _strip_casts(x) for x in w]
                good = all(x is None or x == g for x, g in zip(w, got)) and len(got) == len(w)
                key = f"{label}:{fname}:{fn}"
                if good or all(_size_known(g_.replace("n_system_per_stream", "1")) or g_ in ("CSR_MAT", "CSC_MAT") for x_, g_ in zip(w, got) if x_ is not None):
                    ctx.check(good, "R4", key, (rel, code.count("\n", 0, mm.start()) + 1),
                              f"{fn} in {fname} is sized by the macros of its family", expected=str(w), found=str(got))
                else:
                    ctx.unrec("R4", key, (rel, code.count("\n", 0, mm.start()) + 1), f"{fn} in {fname}: arguments {got} are not arithmetic over the size macros")
        for var, mac in (("yistart", "NEQUATIONS"), ("jistart", "NNZ")):
            for mm in re.finditer(r"\b" + var + r"\s*=\s*([^;]+);", code):
                noff += 1
                f = sk.func_of_offset(mm.start())
                off = _norm(mm.group(1))
                if off in (f"cur*{mac}", f"{mac}*cur") or _size_known(off.replace("cur", "1")):
                    ctx.check(off in (f"cur*{mac}", f"{mac}*cur"), "R4", f"{label}:{f.name if f else '?'}:{var}",
                              (rel, code.count("\n", 0, mm.start()) + 1), f"kernel offset {var} = cur * {mac}", expected=f"cur * {mac}", found=mm.group(1).strip())
                else:
                    ctx.unrec("R4", f"{label}:{f.name if f else '?'}:{var}", (rel, code.count("\n", 0, mm.start()) + 1), f"kernel offset {var} = {mm.group(1).strip()[:60]}: not understood")
    ctx.floor("R4", "array declarations", ndecl, 36)
    ctx.floor("R4", "matrix/vector constructors", nctor, 12)
    ctx.floor("R4", "kernel offsets", noff, 3)


# the number of stored entries read as the length of the value / column list (one element per stored entry: R1)
_NNZ_BY_LENGTH = tuple(("filter", "length", ("attr", ("attr", ("name", "ode"), "jac"), f_), (), ()) for f_ in ("vals", "cols"))
_SIZE_MACROS = {"NREACTIONS", "NHEATPROCS", "NCOOLPROCS", "NEQUATIONS", "NNZ", "NSPECIES", "NELEMENTS", "THERMAL"}


def _size_known(size: str) -> bool:
    """the (whitespace-free) size expression is integer arithmetic over the size macros: a value that differs from the family's macro
    is then a different size, not an unknown one"""
    return bool(re.fullmatch(r"[\w()+\-*/]+", size)) and set(re.findall(r"[A-Za-z_]\w*", size)) <= _SIZE_MACROS


def _cpp_consts(code: str) -> dict:
    """{name: whitespace-free initialiser} of the `const` / `constexpr` locals declared in `code` whose initialiser is arithmetic over the
    size macros (and earlier such constants)"""
    out = {}
    for mm in re.finditer(r"\b(?:static\s+)?(?:const|constexpr)\s+[\w:<>\s]+?[\s*&]\s*(\w+)\s*(?:=\s*([^;{}]+)|\{([^;{}]+)\})\s*;", code):
        val = _strip_casts(_subst_consts(_norm(mm.group(2) or mm.group(3)), out))
        if _size_known(val):
            out[mm.group(1)] = val
    return out


def _block_start(code: str, off: int) -> int:
    """offset of the `{` that opens the innermost block around `off` (0 when there is none)"""
    depth = 0
    for i in range(off - 1, -1, -1):
        if code[i] == "}":
            depth += 1
        elif code[i] == "{":
            if depth == 0:
                return i
            depth -= 1
    return 0


def _subst_consts(expr: str, consts: dict) -> str:
    if not consts:
        return expr
    return re.sub(r"[A-Za-z_]\w*", lambda m_: (consts[m_.group(0)] if re.fullmatch(r"\w+", consts[m_.group(0)]) else "(" + consts[m_.group(0)] + ")")
                  if m_.group(0) in consts else m_.group(0), expr)


def _strip_casts(expr: str) -> str:
    """the (whitespace-free) expression without C / C++ casts to an integer type"""
    expr = re.sub(r"\((?:sunindextype|int|long|size_t|std::size_t|unsigned|unsignedint|unsignedlong)\)", "", expr)
    prev = None
    while prev != expr:
        prev = expr
        expr = re.sub(r"static_cast<[\w:\s]+>\(([^()]*)\)", r"\1", expr)
    return expr


def _split_args(code, i):
    depth = 0
    args, cur = [], []
    while i < len(code):
        c = code[i]
        if c in "([{":
            depth += 1
        elif c in ")]}":
            if depth == 0:
                args.append("".join(cur))
                return args
            depth -= 1
        if c == "," and depth == 0:
            args.append("".join(cur))
            cur = []
        else:
            cur.append(c)
        i += 1
    return args


T = FILE
MUTANTS = [
    {'name': 'pattern-method-of-the-jacobian-record-marks-inverted', 'edits': [{'file': 'naunet/templateloader.py', 'old': '        vals: list[str]\n        rhs: list[str]\n\n', 'new': '        vals: list[str]\n        rhs: list[str]\n\n        def pattern_text(self) -> str:\n            n = self.nrow\n            marks = ["1" if e == "0.0" else "0" for e in self.rhs]\n            return "\\n".join(" ".join(marks[r * n : (r + 1) * n]) for r in range(n))\n\n', 'count': 1}, {'file': 'naunet/templateloader.py', 'old': '        if jac_pattern:\n            jacrhs = ode.jac.rhs\n            n_eqns = ode.jac.nrow\n\n            pattern = [0 if j == "0.0" else 1 for j in jacrhs]\n\n            rowpattern = []\n            for row in range(n_eqns):\n                rowdata = pattern[row * n_eqns : (row + 1) * n_eqns]\n                rowpattern.append(" ".join(str(e) for e in rowdata))\n\n            pattern = "\\n".join(rowpattern)\n\n            with open(path / "jac_pattern.dat", "w") as outf:\n                outf.write(pattern)\n', 'new': '        if not jac_pattern:\n            return\n        with open(path / "jac_pattern.dat", "w") as outf:\n            outf.write(ode.jac.pattern_text())\n'}], 'rules': ['R5']},
    {'name': 'netinfo-built-in-a-module-function-from-reaction-list', 'edits': [{'file': 'naunet/templateloader.py', 'old': '\nclass TemplateLoader:\n', 'new': '\ndef _network_info(net):\n    dummy = [Reaction(reaction_type=ReactionType.DUMMY)]\n    return NetworkInfo(net.elements, net.species, net.reaction_list, net.heating, net.cooling, net.grains, net.shielding)\n\n\nclass TemplateLoader:\n'}, {'file': 'naunet/templateloader.py', 'old': '        info = NetworkInfo(\n            network.elements,\n            network.species,\n            network.reactions or [Reaction(reaction_type=ReactionType.DUMMY)],\n            network.heating,\n            network.cooling,\n            network.grains,\n            network.shielding,\n        )\n', 'new': '        info = _network_info(network)\n'}], 'rules': ['R4']},
    {"name": "rowwise-extend-slice-one-column-short", "file": T, "old": '        nnz = 0\n\n        for row in range(n_eqns):\n            spjacrptr.append(nnz)\n            for col in range(n_eqns):\n                elem = jacrhs[row * n_eqns + col]\n                if elem != "0.0":\n                    spjaccval.append(col)\n                    spjacdata.append(f"{elem}")\n                    nnz += 1\n        spjacrptr.append(nnz)\n',
     "new": '        for row in range(n_eqns):\n            spjacrptr.append(len(spjacdata))\n            rowelems = jacrhs[row * n_eqns : (row + 1) * n_eqns - 1]\n            spjaccval.extend(col for col, elem in enumerate(rowelems) if elem != "0.0")\n            spjacdata.extend(elem for _, elem in enumerate(rowelems) if elem != "0.0")\n        nnz = len(spjacdata)\n        spjacrptr.append(nnz)\n', "rules": ["R1"]},
    {"name": "rowwise-extend-values-selected-by-another-sentinel", "file": T, "old": '        nnz = 0\n\n        for row in range(n_eqns):\n            spjacrptr.append(nnz)\n            for col in range(n_eqns):\n                elem = jacrhs[row * n_eqns + col]\n                if elem != "0.0":\n                    spjaccval.append(col)\n                    spjacdata.append(f"{elem}")\n                    nnz += 1\n        spjacrptr.append(nnz)\n',
     "new": '        for row in range(n_eqns):\n            spjacrptr.append(len(spjacdata))\n            rowelems = jacrhs[row * n_eqns : (row + 1) * n_eqns]\n            spjaccval.extend(col for col, elem in enumerate(rowelems) if elem != "0.0")\n            spjacdata.extend(elem for _, elem in enumerate(rowelems) if elem != "0")\n        nnz = len(spjacdata)\n        spjacrptr.append(nnz)\n', "rules": ["R1"]},
    {"name": "csr-scan-over-recorded-columns-thermal-writers-not-recorded", "edits": [
        {"file": T, "old": '        jacrhs = ["0.0"] * n_eqns * n_eqns\n', "new": '        jacrhs = ["0.0"] * n_eqns * n_eqns\n        usedcols = set()\n'},
        {"file": T, "old": "            pspecidx = [species.index(p) for p in react.products]\n", "new": "            pspecidx = [species.index(p) for p in react.products]\n            usedcols.update(rspecidx)\n"},
        {"file": T, "old": "                    didx = species.index(dspec)\n", "new": "                    didx = species.index(dspec)\n                    usedcols.add(didx)\n"},
        {"file": T, "old": "            for col in range(n_eqns):\n                elem = jacrhs[row * n_eqns + col]\n", "new": "            for col in sorted(usedcols):\n                elem = jacrhs[row * n_eqns + col]\n"}], "rules": ["R1"]},
    {"name": "initjac-colvals-from-rows", "file": JAC, "old": "        {{ ode.jac.cols | map('string') | join(\", \") | stmwrap(80, 8) }}\n",
     "new": "        {{ ode.jac.rows | map('string') | join(\", \") | stmwrap(80, 8) }}\n", "rules": ["R3"]},
    {"name": "initjac-colvals-loop-over-a-slice", "file": JAC, "old": "        {{ ode.jac.cols | map('string') | join(\", \") | stmwrap(80, 8) }}\n",
     "new": "        {% for c in ode.jac.cols[1:] %}{{ c }}{{ \", \" if not loop.last else \"\" }}{% endfor %}\n", "rules": ["R3"]},
    {"name": "rowptr-appended-after-each-row-but-starts-empty", "file": T, "old": '        nnz = 0\n\n        for row in range(n_eqns):\n            spjacrptr.append(nnz)\n            for col in range(n_eqns):\n                elem = jacrhs[row * n_eqns + col]\n                if elem != "0.0":\n                    spjaccval.append(col)\n                    spjacdata.append(f"{elem}")\n                    nnz += 1\n        spjacrptr.append(nnz)\n', "new": '        nnz = 0\n\n        for row in range(n_eqns):\n            for col in range(n_eqns):\n                elem = jacrhs[row * n_eqns + col]\n                if elem != "0.0":\n                    spjaccval.append(col)\n                    spjacdata.append(f"{elem}")\n                    nnz += 1\n            spjacrptr.append(nnz)\n', "rules": ["R1"]},
    {"name": "sparse-colvals-index-loop-shifted", "file": JAC, "old": "    {% for col in ode.jac.cols -%}\n        colvals[{{ loop.index0 }}] = {{ col }};\n    {% endfor %}\n",
     "new": "    {% for i in range(ode.jac.cols | length) -%}\n        colvals[{{ i }}] = {{ ode.jac.cols[i - 1] }};\n    {% endfor %}\n", "rules": ["R3"]},
    {"name": "sentinel-class-constant-differs-from-the-table-cells", "edits": [
        {"file": T, "old": "    @dataclass\n    class GeneralInfo:\n", "new": "    _ZERO = \"0\"\n\n    @dataclass\n    class GeneralInfo:\n"},
        {"file": T, "old": "                if elem != \"0.0\":", "new": "                if elem != self._ZERO:"}], "rules": ["R2"]},
    {'name': 'dense-filled-from-csr-with-row-cursor-advanced-by-if', 'file': JAC, 'old': '    {% for r in ode.jac.rhs -%}\n    {% set neqns = ode.jac.nrow -%}\n    {% if r != "0.0" -%}\n    IJth(jmatrix, {{ (loop.index0/neqns) | int }}, {{ loop.index0%neqns }}) = {{ r | stmwrap(80, 24)}};\n    {% endif -%}\n    {% endfor %}\n', 'new': '    {% set cur = namespace(row=0) -%}\n    {% for col, val in zip(ode.jac.cols, ode.jac.vals) -%}\n    {% if loop.index0 >= ode.jac.rows[cur.row + 1] -%}\n    {% set cur.row = cur.row + 1 -%}\n    {% endif -%}\n    IJth(jmatrix, {{ cur.row }}, {{ col }}) = {{ val | stmwrap(80, 24)}};\n    {% endfor %}\n', 'rules': ['R3']},
    {'name': 'odeint-rows-by-batch-transposed', 'file': ODEINT, 'old': '    {% for r in ode.jac.rhs -%}\n    {% set neqns = ode.jac.nrow -%}\n    {% if r != "0.0" -%}\n    j({{ (loop.index0/neqns) | int }}, {{ loop.index0%neqns }}) = {{ r | stmwrap(80, 24)}};\n    {% endif -%}\n    {% endfor %}\n', 'new': '    {% for rowterms in ode.jac.rhs | batch(ode.jac.nrow) -%}\n    {% set irow = loop.index0 -%}\n    {% for r in rowterms -%}\n    {% if r != "0.0" -%}\n    j({{ loop.index0 }}, {{ irow }}) = {{ r | stmwrap(80, 24)}};\n    {% endif -%}\n    {% endfor -%}\n    {% endfor %}\n', 'rules': ['R3']},
    {'name': 'csr-rows-by-start-offset-one-row-short', 'file': T, 'old': '        nnz = 0\n\n        for row in range(n_eqns):\n            spjacrptr.append(nnz)\n            for col in range(n_eqns):\n                elem = jacrhs[row * n_eqns + col]\n                if elem != "0.0":\n                    spjaccval.append(col)\n                    spjacdata.append(f"{elem}")\n                    nnz += 1\n        spjacrptr.append(nnz)\n', 'new': '        for rstart in range(0, n_eqns * n_eqns - n_eqns, n_eqns):\n            spjacrptr.append(len(spjacdata))\n            for col, elem in enumerate(jacrhs[rstart : rstart + n_eqns]):\n                if elem == "0.0":\n                    continue\n                spjaccval.append(col)\n                spjacdata.append(f"{elem}")\n        nnz = len(spjacdata)\n        spjacrptr.append(nnz)\n', 'rules': ['R1']},
    {"name": 'rowslice-one-column-short', "file": T, "old": '        nnz = 0\n\n        for row in range(n_eqns):\n            spjacrptr.append(nnz)\n            for col in range(n_eqns):\n                elem = jacrhs[row * n_eqns + col]\n                if elem != "0.0":\n                    spjaccval.append(col)\n                    spjacdata.append(f"{elem}")\n                    nnz += 1\n        spjacrptr.append(nnz)\n',
     "new": '        for row in range(n_eqns):\n            spjacrptr.append(len(spjacdata))\n            for col, elem in enumerate(jacrhs[row * n_eqns : (row + 1) * n_eqns - 1]):\n                if elem == "0.0":\n                    continue\n                spjaccval.append(col)\n                spjacdata.append(elem)\n        nnz = len(spjacdata)\n        spjacrptr.append(nnz)\n', "rules": ['R1']},
    {"name": "cusparse-kernel-drops-system-offset", "file": "naunet/templates/cvode/src/naunet_jac.cpp.j2", "old": "data[jistart + ", "new": "data[", "rules": ["R6"]},
    {"name": "rowptr-after-columns", "file": T, "old": "            spjacrptr.append(nnz)\n            for col in range(n_eqns):\n                elem = jacrhs[row * n_eqns + col]\n                if elem != \"0.0\":\n                    spjaccval.append(col)\n                    spjacdata.append(f\"{elem}\")\n                    nnz += 1\n",
     "new": "            for col in range(n_eqns):\n                elem = jacrhs[row * n_eqns + col]\n                if elem != \"0.0\":\n                    spjaccval.append(col)\n                    spjacdata.append(f\"{elem}\")\n                    nnz += 1\n            spjacrptr.append(nnz)\n", "rules": ["R1"]},
    {"name": "col-range-short", "file": T, "old": "            for col in range(n_eqns):\n                elem = jacrhs", "new": "            for col in range(n_eqns - 1):\n                elem = jacrhs", "rules": ["R1"]},
    {"name": "nnz-starts-at-1", "file": T, "old": "        nnz = 0\n", "new": "        nnz = 1\n", "rules": ["R1"]},
    {"name": "final-rowptr-dropped", "file": T, "old": "                    nnz += 1\n        spjacrptr.append(nnz)\n", "new": "                    nnz += 1\n", "rules": ["R1"]},
    {"name": "rowptr-only-nonempty", "file": T, "old": "            spjacrptr.append(nnz)\n            for col in range(n_eqns):", "new": "            if any(jacrhs[row * n_eqns + c] != \"0.0\" for c in range(n_eqns)):\n                spjacrptr.append(nnz)\n            for col in range(n_eqns):", "rules": ["R1"]},
    {"name": "csr-sentinel", "file": T, "old": '                if elem != "0.0":', "new": '                if elem != "0":', "rules": ["R2"]},
    {"name": "pattern-sentinel", "file": T, "old": 'pattern = [0 if j == "0.0" else 1 for j in jacrhs]', "new": 'pattern = [0 if j == "0" else 1 for j in jacrhs]', "rules": ["R2"]},
    {"name": "pattern-inverted", "file": T, "old": 'pattern = [0 if j == "0.0" else 1 for j in jacrhs]', "new": 'pattern = [1 if j == "0.0" else 0 for j in jacrhs]', "rules": ["R5"]},
    {"name": "pattern-rowlen", "file": T, "old": "rowdata = pattern[row * n_eqns : (row + 1) * n_eqns]", "new": "rowdata = pattern[row * n_eqns : (row + 1) * n_eqns - 1]", "rules": ["R5"]},
    {"name": "colvals-short", "file": JAC, "old": "int colvals[NNZ] = {", "new": "int colvals[NNZ-1] = {", "rules": ["R4"]},
    {"name": "reset-sparse-size", "file": CVODE_MAIN, "old": "cv_a_  = SUNSparseMatrix(NEQUATIONS, NEQUATIONS, NNZ, CSR_MAT, cv_sunctx_);\n    cv_ls_ = SUNLinSol_KLU",
     "new": "cv_a_  = SUNSparseMatrix(NEQUATIONS, NEQUATIONS, NEQUATIONS, CSR_MAT, cv_sunctx_);\n    cv_ls_ = SUNLinSol_KLU", "rules": ["R4"], "count": 2},
    {"name": "jistart-neq", "file": JAC, "old": "int jistart            = cur * NNZ;", "new": "int jistart            = cur * NEQUATIONS;", "rules": ["R4"]},
    {"name": "k-array-size", "file": ODEINT, "old": "double k[NREACTIONS] = {0.0};", "new": "double k[NSPECIES] = {0.0};", "count": 2, "rules": ["R4"]},
    {"name": "sparse-cols-index1", "file": JAC, "old": "colvals[{{ loop.index0 }}] = {{ col }};", "new": "colvals[{{ loop.index }}] = {{ col }};", "rules": ["R3"]},
    {"name": "sparse-vals-from-rhs", "file": JAC, "old": "{% for data in ode.jac.vals -%}\n        data[{{loop.index0}}]", "new": "{% for data in ode.jac.rhs -%}\n        data[{{loop.index0}}]", "rules": ["R3"]},
    {"name": "nnz-macro", "file": MACROS, "old": "#define NNZ {{ ode.jac.nnz }}", "new": "#define NNZ {{ ode.jac.vals | length - 1 }}", "rules": ["R4"]},
    {"name": "nequations-macro", "file": MACROS, "old": "#define NEQUATIONS (NSPECIES + THERMAL)", "new": "#define NEQUATIONS (NSPECIES)", "rules": ["R4"]},
]
BENIGN = [
    {'name': 'pattern-helper-returns-text', 'edits': [{'file': 'naunet/templateloader.py', 'old': '    def render(\n        self,\n        proj_name', 'new': '    @staticmethod\n    def _pattern_text(jac):\n        n = jac.nrow\n        marks = ["0" if term == "0.0" else "1" for term in jac.rhs]\n        lines = [" ".join(marks[r * n : (r + 1) * n]) for r in range(n)]\n        return "\\n".join(lines)\n\n    def render(\n        self,\n        proj_name'}, {'file': 'naunet/templateloader.py', 'old': '        if jac_pattern:\n            jacrhs = ode.jac.rhs\n            n_eqns = ode.jac.nrow\n\n            pattern = [0 if j == "0.0" else 1 for j in jacrhs]\n\n            rowpattern = []\n            for row in range(n_eqns):\n                rowdata = pattern[row * n_eqns : (row + 1) * n_eqns]\n                rowpattern.append(" ".join(str(e) for e in rowdata))\n\n            pattern = "\\n".join(rowpattern)\n\n            with open(path / "jac_pattern.dat", "w") as outf:\n                outf.write(pattern)\n', 'new': '        if jac_pattern:\n            with open(path / "jac_pattern.dat", "w") as outf:\n                outf.write(self._pattern_text(ode.jac))\n'}]},
    {'name': 'pattern-module-function-write-text', 'edits': [{'file': 'naunet/templateloader.py', 'old': '\n# define in this file to avoid circular import\n', 'new': '\ndef _jac_pattern_lines(rhs, nrow):\n    lines = []\n    for row in range(nrow):\n        rowterms = rhs[row * nrow : (row + 1) * nrow]\n        lines.append(" ".join("0" if t == "0.0" else "1" for t in rowterms))\n    return lines\n\n\n# define in this file to avoid circular import\n'}, {'file': 'naunet/templateloader.py', 'old': '        if jac_pattern:\n            jacrhs = ode.jac.rhs\n            n_eqns = ode.jac.nrow\n\n            pattern = [0 if j == "0.0" else 1 for j in jacrhs]\n\n            rowpattern = []\n            for row in range(n_eqns):\n                rowdata = pattern[row * n_eqns : (row + 1) * n_eqns]\n                rowpattern.append(" ".join(str(e) for e in rowdata))\n\n            pattern = "\\n".join(rowpattern)\n\n            with open(path / "jac_pattern.dat", "w") as outf:\n                outf.write(pattern)\n', 'new': '        if jac_pattern:\n            lines = _jac_pattern_lines(ode.jac.rhs, ode.jac.nrow)\n            with open(path / "jac_pattern.dat", "w") as outf:\n                outf.write("\\n".join(lines))\n'}]},
    {'name': 'pattern-jac-local', 'file': 'naunet/templateloader.py', 'old': '        if jac_pattern:\n            jacrhs = ode.jac.rhs\n            n_eqns = ode.jac.nrow\n\n            pattern = [0 if j == "0.0" else 1 for j in jacrhs]\n\n            rowpattern = []\n            for row in range(n_eqns):\n                rowdata = pattern[row * n_eqns : (row + 1) * n_eqns]\n                rowpattern.append(" ".join(str(e) for e in rowdata))\n\n            pattern = "\\n".join(rowpattern)\n\n            with open(path / "jac_pattern.dat", "w") as outf:\n                outf.write(pattern)\n', 'new': '        if jac_pattern:\n            jac = ode.jac\n            nrow = jac.nrow\n            flags = [int(j != "0.0") for j in jac.rhs]\n            rowpattern = [" ".join(map(str, flags[row * nrow : (row + 1) * nrow])) for row in range(nrow)]\n            with open(path / "jac_pattern.dat", "w") as outf:\n                outf.write("\\n".join(rowpattern))\n'},
    {'name': 'netinfo-module-function', 'edits': [{'file': 'naunet/templateloader.py', 'old': '\nclass TemplateLoader:\n', 'new': '\ndef _network_info(net):\n    dummy = [Reaction(reaction_type=ReactionType.DUMMY)]\n    return NetworkInfo(net.elements, net.species, net.reactions or dummy, net.heating, net.cooling, net.grains, net.shielding)\n\n\nclass TemplateLoader:\n'}, {'file': 'naunet/templateloader.py', 'old': '        info = NetworkInfo(\n            network.elements,\n            network.species,\n            network.reactions or [Reaction(reaction_type=ReactionType.DUMMY)],\n            network.heating,\n            network.cooling,\n            network.grains,\n            network.shielding,\n        )\n', 'new': '        info = _network_info(network)\n'}]},
    {'name': 'macros-nnz-via-length', 'file': 'naunet/templates/base/cpp/include/naunet_macros.h.j2', 'old': '#define NNZ {{ ode.jac.nnz }}', 'new': '#define NNZ {{ ode.jac.vals | length }}'},
    {'name': 'main-local-neq-constant', 'file': 'naunet/templates/cvode/src/naunet.cpp.j2', 'old': '    cv_y_  = N_VNewEmpty_Serial((sunindextype)NEQUATIONS, cv_sunctx_);\n    cv_a_  = SUNSparseMatrix(NEQUATIONS, NEQUATIONS, NNZ, CSR_MAT, cv_sunctx_);\n', 'new': '    const sunindextype neq = NEQUATIONS;\n    cv_y_  = N_VNewEmpty_Serial(neq, cv_sunctx_);\n    cv_a_  = SUNSparseMatrix(neq, neq, NNZ, CSR_MAT, cv_sunctx_);\n', 'count': 2},
    {'name': 'main-jinja-macro-create-matrix', 'file': 'naunet/templates/cvode/src/naunet.cpp.j2', 'old': '    cv_a_  = SUNSparseMatrix(NEQUATIONS, NEQUATIONS, NNZ, CSR_MAT, cv_sunctx_);\n', 'new': '    {% set shape = "NEQUATIONS, NEQUATIONS" -%}\n    cv_a_  = SUNSparseMatrix({{ shape }}, NNZ, CSR_MAT, cv_sunctx_);\n', 'count': 2},
    {'name': 'csr-final-append-iadd', 'file': 'naunet/templateloader.py', 'old': '                    nnz += 1\n        spjacrptr.append(nnz)\n', 'new': '                    nnz += 1\n        spjacrptr += [nnz]\n'},
    {'name': 'nnz-plus-assign', 'file': 'naunet/templateloader.py', 'old': '                    nnz += 1\n', 'new': '                    nnz = nnz + 1\n'},
    {'name': 'pattern-text-from-a-method-of-the-jacobian-record', 'edits': [{'file': 'naunet/templateloader.py', 'old': '        vals: list[str]\n        rhs: list[str]\n\n', 'new': '        vals: list[str]\n        rhs: list[str]\n\n        def pattern_text(self) -> str:\n            n = self.nrow\n            marks = ["0" if e == "0.0" else "1" for e in self.rhs]\n            return "\\n".join(" ".join(marks[r * n : (r + 1) * n]) for r in range(n))\n\n', 'count': 1}, {'file': 'naunet/templateloader.py', 'old': '        if jac_pattern:\n            jacrhs = ode.jac.rhs\n            n_eqns = ode.jac.nrow\n\n            pattern = [0 if j == "0.0" else 1 for j in jacrhs]\n\n            rowpattern = []\n            for row in range(n_eqns):\n                rowdata = pattern[row * n_eqns : (row + 1) * n_eqns]\n                rowpattern.append(" ".join(str(e) for e in rowdata))\n\n            pattern = "\\n".join(rowpattern)\n\n            with open(path / "jac_pattern.dat", "w") as outf:\n                outf.write(pattern)\n', 'new': '        if not jac_pattern:\n            return\n        with open(path / "jac_pattern.dat", "w") as outf:\n            outf.write(ode.jac.pattern_text())\n'}]},
    {"name": "csr-rowwise-extend-of-filtered-selections", "file": T, "old": '        nnz = 0\n\n        for row in range(n_eqns):\n            spjacrptr.append(nnz)\n            for col in range(n_eqns):\n                elem = jacrhs[row * n_eqns + col]\n                if elem != "0.0":\n                    spjaccval.append(col)\n                    spjacdata.append(f"{elem}")\n                    nnz += 1\n        spjacrptr.append(nnz)\n',
     "new": '        for row in range(n_eqns):\n            spjacrptr.append(len(spjacdata))\n            rowelems = jacrhs[row * n_eqns : (row + 1) * n_eqns]\n            spjaccval.extend(col for col, elem in enumerate(rowelems) if elem != "0.0")\n            spjacdata.extend(elem for _, elem in enumerate(rowelems) if elem != "0.0")\n        nnz = len(spjacdata)\n        spjacrptr.append(nnz)\n'},
    {"name": "initjac-colvals-printed-by-a-loop-with-separator", "file": JAC, "old": "        {{ ode.jac.cols | map('string') | join(\", \") | stmwrap(80, 8) }}\n",
     "new": "        {% for c in ode.jac.cols %}{{ c }}{{ \", \" if not loop.last else \"\" }}{% endfor %}\n"},
    {"name": "rowptr-starts-at-zero-appended-after-each-row", "edits": [
        {"file": T, "old": '        spjacrptr = []\n', "new": '        spjacrptr = [0]\n'},
        {"file": T, "old": '        nnz = 0\n\n        for row in range(n_eqns):\n            spjacrptr.append(nnz)\n            for col in range(n_eqns):\n                elem = jacrhs[row * n_eqns + col]\n                if elem != "0.0":\n                    spjaccval.append(col)\n                    spjacdata.append(f"{elem}")\n                    nnz += 1\n        spjacrptr.append(nnz)\n', "new": '        nnz = 0\n\n        for row in range(n_eqns):\n            for col in range(n_eqns):\n                elem = jacrhs[row * n_eqns + col]\n                if elem != "0.0":\n                    spjaccval.append(col)\n                    spjacdata.append(f"{elem}")\n                    nnz += 1\n            spjacrptr.append(nnz)\n'}]},
    {"name": "sparse-colvals-by-index-loop", "file": JAC, "old": "    {% for col in ode.jac.cols -%}\n        colvals[{{ loop.index0 }}] = {{ col }};\n    {% endfor %}\n",
     "new": "    {% for i in range(ode.jac.cols | length) -%}\n        colvals[{{ i }}] = {{ ode.jac.cols[i] }};\n    {% endfor %}\n"},
    {"name": "csr-rows-enumerated-slices", "file": T, "old": '        nnz = 0\n\n        for row in range(n_eqns):\n            spjacrptr.append(nnz)\n            for col in range(n_eqns):\n                elem = jacrhs[row * n_eqns + col]\n                if elem != "0.0":\n                    spjaccval.append(col)\n                    spjacdata.append(f"{elem}")\n                    nnz += 1\n        spjacrptr.append(nnz)\n',
     "new": '        rows = [jacrhs[r * n_eqns : (r + 1) * n_eqns] for r in range(n_eqns)]\n        for r, rowdata in enumerate(rows):\n            spjacrptr.append(len(spjacdata))\n            for col, elem in enumerate(rowdata):\n                if elem != "0.0":\n                    spjaccval.append(col)\n                    spjacdata.append(elem)\n        nnz = len(spjacdata)\n        spjacrptr.append(nnz)\n'},
    {"name": "sentinel-as-named-class-and-module-constant", "edits": [
        {"file": T, "old": "    @dataclass\n    class GeneralInfo:\n", "new": "    _ZERO = \"0.0\"\n\n    @dataclass\n    class GeneralInfo:\n"},
        {"file": T, "old": "\nclass TemplateLoader:\n", "new": "\n_NO_TERM = \"0.0\"\n\n\nclass TemplateLoader:\n"},
        {"file": T, "old": "        jacrhs = [\"0.0\"] * n_eqns * n_eqns", "new": "        jacrhs = [self._ZERO] * n_eqns * n_eqns"},
        {"file": T, "old": "                    \"0.0\"\n                    if jacrhs[n_spec * n_eqns + si] == \"0.0\"", "new": "                    _NO_TERM\n                    if jacrhs[n_spec * n_eqns + si] == TemplateLoader._ZERO"},
        {"file": T, "old": "                if elem != \"0.0\":", "new": "                if elem != self._ZERO:"},
        {"file": T, "old": "pattern = [0 if j == \"0.0\" else 1 for j in jacrhs]", "new": "pattern = [0 if j == _NO_TERM else 1 for j in jacrhs]"}]},
    {'name': 'dense-decode-index-minus-one-floordiv-remainder-by-subtraction', 'file': JAC, 'old': '    {% for r in ode.jac.rhs -%}\n    {% set neqns = ode.jac.nrow -%}\n    {% if r != "0.0" -%}\n    IJth(jmatrix, {{ (loop.index0/neqns) | int }}, {{ loop.index0%neqns }}) = {{ r | stmwrap(80, 24)}};\n    {% endif -%}\n    {% endfor %}\n', 'new': '    {% set neqns = ode.jac.nrow -%}\n    {% for r in ode.jac.rhs -%}\n    {% if r != "0.0" -%}\n    {% set flat = loop.index - 1 -%}\n    IJth(jmatrix, {{ flat // neqns }}, {{ flat - neqns * (flat // neqns) }}) = {{ r | stmwrap(80, 24)}};\n    {% endif -%}\n    {% endfor %}\n'},
    {'name': 'odeint-sentinel-test-swapped-arms', 'file': ODEINT, 'old': '    {% for r in ode.jac.rhs -%}\n    {% set neqns = ode.jac.nrow -%}\n    {% if r != "0.0" -%}\n    j({{ (loop.index0/neqns) | int }}, {{ loop.index0%neqns }}) = {{ r | stmwrap(80, 24)}};\n    {% endif -%}\n    {% endfor %}\n', 'new': '    {% for r in ode.jac.rhs -%}\n    {% set neqns = ode.jac.nrow -%}\n    {% if r == "0.0" -%}\n    {% else -%}\n    j({{ (loop.index0/neqns) | int }}, {{ loop.index0%neqns }}) = {{ r | stmwrap(80, 24)}};\n    {% endif -%}\n    {% endfor %}\n'},
    {'name': 'odeint-rows-by-batch', 'file': ODEINT, 'old': '    {% for r in ode.jac.rhs -%}\n    {% set neqns = ode.jac.nrow -%}\n    {% if r != "0.0" -%}\n    j({{ (loop.index0/neqns) | int }}, {{ loop.index0%neqns }}) = {{ r | stmwrap(80, 24)}};\n    {% endif -%}\n    {% endfor %}\n', 'new': '    {% for rowterms in ode.jac.rhs | batch(ode.jac.nrow) -%}\n    {% set irow = loop.index0 -%}\n    {% for r in rowterms -%}\n    {% if r != "0.0" -%}\n    j({{ irow }}, {{ loop.index0 }}) = {{ r | stmwrap(80, 24)}};\n    {% endif -%}\n    {% endfor -%}\n    {% endfor %}\n'},
    {'name': 'csr-rows-by-start-offset-range-step', 'file': T, 'old': '        nnz = 0\n\n        for row in range(n_eqns):\n            spjacrptr.append(nnz)\n            for col in range(n_eqns):\n                elem = jacrhs[row * n_eqns + col]\n                if elem != "0.0":\n                    spjaccval.append(col)\n                    spjacdata.append(f"{elem}")\n                    nnz += 1\n        spjacrptr.append(nnz)\n', 'new': '        for rstart in range(0, n_eqns * n_eqns, n_eqns):\n            spjacrptr.append(len(spjacdata))\n            for col, elem in enumerate(jacrhs[rstart : rstart + n_eqns]):\n                if elem == "0.0":\n                    continue\n                spjaccval.append(col)\n                spjacdata.append(f"{elem}")\n        nnz = len(spjacdata)\n        spjacrptr.append(nnz)\n'},
    {'name': 'csr-and-pattern-rows-cut-by-a-helper-method', 'edits': [{'file': T, 'old': '    def _prepare_renorm_content(self, netinfo: NetworkInfo) -> RenormContent:\n', 'new': '    @staticmethod\n    def _matrix_rows(flat, n):\n        return [flat[row * n : (row + 1) * n] for row in range(n)]\n\n    def _prepare_renorm_content(self, netinfo: NetworkInfo) -> RenormContent:\n'}, {'file': T, 'old': '        nnz = 0\n\n        for row in range(n_eqns):\n            spjacrptr.append(nnz)\n            for col in range(n_eqns):\n                elem = jacrhs[row * n_eqns + col]\n                if elem != "0.0":\n                    spjaccval.append(col)\n                    spjacdata.append(f"{elem}")\n                    nnz += 1\n        spjacrptr.append(nnz)\n', 'new': '        for rowdata in self._matrix_rows(jacrhs, n_eqns):\n            spjacrptr.append(len(spjaccval))\n            for col, elem in enumerate(rowdata):\n                if elem != "0.0":\n                    spjaccval.append(col)\n                    spjacdata.append(f"{elem}")\n        nnz = len(spjaccval)\n        spjacrptr.append(nnz)\n'}, {'file': T, 'old': '            pattern = [0 if j == "0.0" else 1 for j in jacrhs]\n\n            rowpattern = []\n            for row in range(n_eqns):\n                rowdata = pattern[row * n_eqns : (row + 1) * n_eqns]\n                rowpattern.append(" ".join(str(e) for e in rowdata))\n', 'new': '            rowpattern = [\n                " ".join("0" if j == "0.0" else "1" for j in rowdata)\n                for rowdata in self._matrix_rows(jacrhs, n_eqns)\n            ]\n'}]},
    {"name": 'pattern-marks-on-the-slice', "file": T, "old": '            pattern = [0 if j == "0.0" else 1 for j in jacrhs]\n\n            rowpattern = []\n            for row in range(n_eqns):\n                rowdata = pattern[row * n_eqns : (row + 1) * n_eqns]\n                rowpattern.append(" ".join(str(e) for e in rowdata))\n',
     "new": '            rowpattern = [\n                " ".join("0" if elem == "0.0" else "1" for elem in jacrhs[row * n_eqns : (row + 1) * n_eqns])\n                for row in range(n_eqns)\n            ]\n'},
    {"name": 'pattern-string-flags-rowstarts', "file": T, "old": '            pattern = [0 if j == "0.0" else 1 for j in jacrhs]\n\n            rowpattern = []\n            for row in range(n_eqns):\n                rowdata = pattern[row * n_eqns : (row + 1) * n_eqns]\n                rowpattern.append(" ".join(str(e) for e in rowdata))\n',
     "new": '            flags = ["1" if elem != "0.0" else "0" for elem in ode.jac.rhs]\n            rowstarts = [row * n_eqns for row in range(n_eqns)]\n            rowpattern = [" ".join(flags[start : start + n_eqns]) for start in rowstarts]\n'},
    {"name": "csr-rowslice-enumerate-count-by-len", "file": T, "old": '        nnz = 0\n\n        for row in range(n_eqns):\n            spjacrptr.append(nnz)\n            for col in range(n_eqns):\n                elem = jacrhs[row * n_eqns + col]\n                if elem != "0.0":\n                    spjaccval.append(col)\n                    spjacdata.append(f"{elem}")\n                    nnz += 1\n        spjacrptr.append(nnz)\n',
     "new": '        for row in range(n_eqns):\n            spjacrptr.append(len(spjacdata))\n            for col, elem in enumerate(jacrhs[row * n_eqns + 0 : (row + 1) * n_eqns]):\n                if elem == "0.0":\n                    continue\n                spjaccval.append(col)\n                spjacdata.append(elem)\n        nnz = len(spjacdata)\n        spjacrptr.append(nnz)\n'},
    {"name": "initjac-join-without-map", "file": JAC, "old": " | map('string') | join(", "new": " | join(", "count": 2},
    {"name": "kernel-replace-in-set-variable", "file": JAC, "old": "data[jistart + {{loop.index0}}] = {{ data | replace(\"y[IDX\", \"y_cur[IDX\") | stmwrap(80, 12) }};",
     "new": "{% set cur = data | replace(\"y[IDX\", \"y_cur[IDX\") -%}data[jistart + {{loop.index0}}] = {{ cur | stmwrap(80, 12) }};"},
    {"name": "arrays-renamed", "edits": [
        {"file": T, "old": "jacrhs", "new": "jacent", "count": 13},
        {"file": T, "old": "rhs[", "new": "derivs[", "count": 9},
        {"file": T, "old": "        rhs = [\"0.0\"] * n_eqns", "new": "        derivs = [\"0.0\"] * n_eqns"},
        {"file": T, "old": "zip(lhs, rhs)", "new": "zip(lhs, derivs)"}]},
    {"name": "rename-nnz", "edits": [
        {"file": T, "old": "        nnz = 0\n", "new": "        nonzeros = 0\n"},
        {"file": T, "old": "spjacrptr.append(nnz)", "new": "spjacrptr.append(nonzeros)", "count": 2},
        {"file": T, "old": "nnz += 1", "new": "nonzeros += 1"},
        {"file": T, "old": "self.Jacobian(n_eqns, nnz,", "new": "self.Jacobian(n_eqns, nonzeros,"}]},
    {"name": "guard-eq-else", "file": T, "old": '                if elem != "0.0":\n                    spjaccval.append(col)\n                    spjacdata.append(f"{elem}")\n                    nnz += 1\n',
     "new": '                if elem == "0.0":\n                    continue\n                spjaccval.append(col)\n                spjacdata.append(elem)\n                nnz += 1\n'},
]
