"""C06 -- a reaction acts only inside its declared temperature window."""
from __future__ import annotations

import ast
import itertools
import re

from .. import jmodel as J
from ..cskel import Skel
from ..odemodel import FILE
from ..pymodel import package
from ..valueflow import Flow, expand_bvals, lower, peval, show, simp, walk, match, V

EXPLANATION = (
    "R1 the four variants (lower bound present/absent x upper bound present/absent) of the statement built by _assign_rates are "
    "exactly: `k[i] = rate;`, `if (Tgas>=tmin) {..}`, `if (Tgas<tmax) {..}`, `if (Tgas>=tmin && Tgas<tmax) {..}` -- a bound is present iff "
    "> 0, guard, rate expression and index i all belong to the same reaction of the same unfiltered list, the guard encloses the one "
    "assignment; R2 every array handed to EvalRates/EvalHeatingRates/EvalCoolingRates is declared in the same function with a zero "
    "initialiser and inside the same loop nest as the call (so an unassigned k[i] is exactly 0 for every system); R3 k[]/kh[]/kc[] are "
    "assigned nowhere else in the templates; the rate functions paste ode.rateeqns/hrateeqns/crateeqns once, unfiltered; R4 KROME window "
    "tokens: every operator token is stripped before float(), d->e, the no-bound spellings keep the default -1, tmin/tmax feed temp_min/"
    "temp_max respectively; UCLCHEM FREEZE forces the window (0, 30) -- all parsers are read in their folded form (pymodel.folded: helpers put back, class-level "
    "tables in place, table-driven setattr dispatch resolved); R5 the default duplicate search compares the reactions themselves (window included); "
    "R6 every reaction of the list contributes its terms to the equations unconditionally (shared with C01.R2/R3); "
    "R7 the window survives the package's own text formats: Reaction.__format__ writes temp_min / temp_max of every format a reaction class reads back "
    "with absolute precision (fixed point / integer / repr), never with fewer than 17 significant digits in exponent or general notation "
    "(export -> render would move the bound of a piecewise fit).  R4 also: a regular expression that picks the number out of a KROME limit "
    "(found by role: applied to a piece of a field of the line, result converted by float()) admits e/E/d/D and both exponent signs unless it is anchored.")
ASSUMPTIONS = [
    "evaluation at boundary temperatures follows from the C operators >= and < once the guard text is as stated",
    "whether a database's `.LE.` should have been inclusive is not decided",
]
ENGINES = ["pymodel", "valueflow", "jmodel", "cskel"]

RATE_TEMPLATES = [
    ("cvode/dense", "naunet/templates/cvode/src/naunet_rates.cpp.j2", {"general.method": "dense", "general.device": "cpu"}),
    ("cvode/cusparse", "naunet/templates/cvode/src/naunet_rates.cpp.j2", {"general.method": "cusparse", "general.device": "gpu"}),
    ("odeint", "naunet/templates/odeint/src/naunet_ode.cpp.j2", {"general.method": "rosenbrock4"}),
]
CALLER_TEMPLATES = [
    ("cvode/dense", "naunet/templates/cvode/src/naunet_fex.cpp.j2", {"general.method": "dense"}),
    ("cvode/sparse", "naunet/templates/cvode/src/naunet_fex.cpp.j2", {"general.method": "sparse"}),
    ("cvode/cusparse", "naunet/templates/cvode/src/naunet_fex.cpp.j2", {"general.method": "cusparse"}),
    ("cvode/dense", "naunet/templates/cvode/src/naunet_jac.cpp.j2", {"general.method": "dense"}),
    ("cvode/sparse", "naunet/templates/cvode/src/naunet_jac.cpp.j2", {"general.method": "sparse"}),
    ("cvode/cusparse", "naunet/templates/cvode/src/naunet_jac.cpp.j2", {"general.method": "cusparse"}),
    ("odeint", "naunet/templates/odeint/src/naunet_ode.cpp.j2", {"general.method": "rosenbrock4"}),
]
KROME = "naunet/reactions/kromereaction.py"
UCL = "naunet/reactions/uclchemreaction.py"
KEEP = ("_create_species",)        # helpers the rules treat as primitives when a parser is read in its folded form (pymodel.folded)


def _select_setattr(fn):
    """`name = "a" if c else "b"` (or the same choice written as an if / else of two one-line arms) followed, in the same block and
    with nothing re-binding `name` or evaluated in between that could change `c`'s operands, by the statement `setattr(obj, name, v)`
    is `if c: obj.a = v else: obj.b = v` -- the attribute chosen by a test is the store chosen by that test.  Returns a rewritten
    copy, or fn itself when nothing of the kind is in it."""
    import copy

    def const_tree(e):
        if isinstance(e, ast.IfExp):
            return const_tree(e.body) and const_tree(e.orelse)
        return isinstance(e, ast.Constant) and isinstance(e.value, str) and e.value.isidentifier()

    def as_choice(st):
        """(name, expression) of `name = <tree of constants>` / `if c: name = "a" else: name = "b"`"""
        if isinstance(st, ast.Assign) and len(st.targets) == 1 and isinstance(st.targets[0], ast.Name) and isinstance(st.value, ast.IfExp) and const_tree(st.value):
            return st.targets[0].id, st.value
        if isinstance(st, ast.If) and len(st.body) == 1 and len(st.orelse) == 1:
            a, b = as_choice_arm(st.body[0]), as_choice_arm(st.orelse[0])
            if a is not None and b is not None and a[0] == b[0]:
                return a[0], ast.IfExp(test=st.test, body=a[1], orelse=b[1])
        return None

    def as_choice_arm(st):
        if isinstance(st, ast.Assign) and len(st.targets) == 1 and isinstance(st.targets[0], ast.Name) and const_tree(st.value):
            return st.targets[0].id, st.value
        return as_choice(st)

    def store_tree(e, obj, val, like):
        if isinstance(e, ast.IfExp):
            return ast.copy_location(ast.If(test=copy.deepcopy(e.test), body=[store_tree(e.body, obj, val, like)], orelse=[store_tree(e.orelse, obj, val, like)]), like)
        return ast.copy_location(ast.Assign(targets=[ast.Attribute(value=copy.deepcopy(obj), attr=e.value, ctx=ast.Store())], value=copy.deepcopy(val)), like)
    hit = [False]

    def block(stmts):
        out = list(stmts)
        for st in out:
            for fld in ("body", "orelse", "finalbody"):
                b = getattr(st, fld, None)
                if isinstance(b, list) and b and isinstance(b[0], ast.stmt) and not isinstance(st, (ast.FunctionDef, ast.ClassDef, ast.AsyncFunctionDef)):
                    setattr(st, fld, block(b))
        for i, st in enumerate(out):
            ch = as_choice(st)
            if ch is None:
                continue
            name, tree = ch
            tested = {n.id for n in ast.walk(tree) if isinstance(n, ast.Name)}
            for j in range(i + 1, len(out)):
                nx = out[j]
                c = nx.value if isinstance(nx, ast.Expr) else None
                if isinstance(c, ast.Call) and isinstance(c.func, ast.Name) and c.func.id == "setattr" and len(c.args) == 3 and not c.keywords \
                        and isinstance(c.args[1], ast.Name) and c.args[1].id == name and not any(isinstance(n, ast.Name) and n.id == name for a in (c.args[0], c.args[2]) for n in ast.walk(a)):
                    out[j] = store_tree(tree, c.args[0], c.args[2], nx)
                    hit[0] = True
                    break
                # between the choice and the setattr: plain assignments to other names that the tests do not read
                if not (isinstance(nx, (ast.Assign, ast.AugAssign, ast.For)) and not ({n.id for n in ast.walk(nx) if isinstance(n, ast.Name) and isinstance(n.ctx, (ast.Store, ast.Del))} & (tested | {name}))
                        and not any(isinstance(n, (ast.Return, ast.Raise, ast.Break, ast.Continue)) for n in ast.walk(nx))):
                    break
        return out
    new = copy.deepcopy(fn)
    new.body = block(new.body)
    return ast.fix_missing_locations(new) if hit[0] else fn


def _parser(pkg, cls, meth="_parse_string"):
    """The parser `cls.meth` in its folded form (pymodel.folded) with, in addition, the membership tests `x in TABLE` / `x not in TABLE`
    on a module-level literal table (normalize.module_tables: bound once, never re-bound or edited in its module) spelled with the
    literal: a token list moved to the top of the module reads like the list written in place.  Only the membership read is replaced
    (the object does not escape there); a name the function binds itself is not a module-level read."""
    import copy
    from ..normalize import _DictTable
    cache = pkg.__dict__.setdefault("_c06_parsers", {})
    if (cls, meth) in cache:
        return cache[(cls, meth)]
    fn = pkg.folded(cls, meth, keep=KEEP)
    # a helper OBJECT that lives and dies inside the parser (`bound = _Limit(text)` .. `bound.is_given` .. `float(bound)`, a small class
    # of the same module) is the bundle of its fields: constructor, properties and methods put back (normalize.inline_local_objects),
    # then the same folding as pymodel.folded
    try:
        from ..normalize import inline_local_objects, fold_static, namedtuple_tables
        owner = pkg.resolve(cls, meth)[0] or cls
        file_ = pkg.cls(owner).file
        fn0 = pkg.expanded(owner, meth, KEEP)
        if any(isinstance(c, ast.Call) and isinstance(c.func, ast.Name) and c.func.id in pkg.classes and pkg.classes[c.func.id].file == file_ for c in ast.walk(fn0)):
            fn1 = inline_local_objects(fn0, lambda c: pkg.classes[c].node if c in pkg.classes and pkg.classes[c].file == file_ and c not in pkg.mro(cls) and not pkg.subclasses(c) else None)
            if fn1 is not fn0:
                fn = fold_static(pkg.with_class_constants(cls, pkg.with_module_constants(file_, copy.deepcopy(fn1))), namedtuple_tables(pkg.modules[file_]))
    except RecursionError:
        pass
    fn = _select_setattr(fn)
    # a local bound ONCE, to a constant (the parameter of a helper that was put back: `attribute = "temp_min"`), is that constant
    # where it is read; setattr / getattr on it are then plain attribute accesses (fold_static)
    stores = {}
    for n in ast.walk(fn):
        if isinstance(n, ast.Name) and isinstance(n.ctx, (ast.Store, ast.Del)):
            stores[n.id] = stores.get(n.id, 0) + 1
    params = {a.arg for n in ast.walk(fn) if isinstance(n, ast.arguments) for a in n.posonlyargs + n.args + n.kwonlyargs}
    once = {st.targets[0].id: st.value for st in ast.walk(fn) if isinstance(st, ast.Assign) and len(st.targets) == 1 and isinstance(st.targets[0], ast.Name)
            and isinstance(st.value, ast.Constant) and isinstance(st.value.value, str) and stores.get(st.targets[0].id) == 1 and st.targets[0].id not in params}
    if once and any(isinstance(c, ast.Call) and isinstance(c.func, ast.Name) and c.func.id in ("setattr", "getattr") and len(c.args) >= 2 and isinstance(c.args[1], ast.Name)
                    and c.args[1].id in once for c in ast.walk(fn)):
        from ..normalize import _Subst, fold_static
        fn = copy.deepcopy(fn)
        fn.body = [_Subst(dict(once)).visit(st) for st in fn.body]
        fn = fold_static(ast.fix_missing_locations(fn))
    # the tables of the modules the statements can come from: the classes of the MRO (helpers are put back from there); a name
    # that means different tables in two of them is left alone
    tabs, clash = {}, set()
    for c in pkg.mro(cls):
        ci = pkg.classes.get(c)
        for k, v in (pkg.module_tables(ci.file) if ci is not None else {}).items():
            if k in tabs and ast.dump(tabs[k]) != ast.dump(v):
                clash.add(k)
            tabs.setdefault(k, v)
    own = {n.id for n in ast.walk(fn) if isinstance(n, ast.Name) and isinstance(n.ctx, (ast.Store, ast.Del))} | {a.arg for n in ast.walk(fn) if isinstance(n, ast.arguments) for a in n.posonlyargs + n.args + n.kwonlyargs}
    tabs = {k: v for k, v in tabs.items() if k not in clash and k not in own}
    if tabs and any(isinstance(n, ast.Name) and n.id in tabs for n in ast.walk(fn)):
        class M(ast.NodeTransformer):
            def visit_Compare(self, n):
                self.generic_visit(n)
                for i, (op, c) in enumerate(zip(n.ops, n.comparators)):
                    if isinstance(op, (ast.In, ast.NotIn)) and isinstance(c, ast.Name) and c.id in tabs:
                        t = tabs[c.id]
                        elts = [e.elts[0] for e in t.elts] if isinstance(t, _DictTable) else t.elts
                        n.comparators[i] = ast.copy_location(ast.Tuple(elts=[copy.deepcopy(e) for e in elts], ctx=ast.Load()), c)
                return n
        fn = ast.fix_missing_locations(M().visit(copy.deepcopy(fn)))
    cache[(cls, meth)] = fn
    return fn


def check(ctx):
    _r1(ctx)
    _r2(ctx)
    _r3(ctx)
    _r4(ctx)
    _r5(ctx)
    # inside its window a reaction acts: the window lives in the guard of k[i] only; every reaction of the list contributes its
    # terms to the equations unconditionally (no reaction is dropped from the ODE by a test on its window) -- shared with C01.R2/R3
    from ..odemodel import model as odemodel
    from .c01 import reaction_sites
    reaction_sites(ctx, odemodel(ctx.tree), "R6", "R6")
    _r7(ctx)


_SPEC = re.compile(r"^(?:.?[<>=^])?[-+ ]?z?#?0?(?P<w>\d+)?[,_]?(?:\.(?P<p>\d+))?(?P<t>[a-zA-Z%])?$")


def _r7(ctx):
    """The window a reaction carries survives the package's own text formats: `Network.export()` writes the reactions with
    Reaction.__format__(<format>) and `naunet render` reads them back with the parser of that format, so the text written for
    temp_min / temp_max must give the same bound back through float().  Decided as a necessary condition on the format
    specification: a bound that is a whole number of kelvin (every bound of every database) is written with ABSOLUTE precision
    (fixed point f / F, an integer d, or str()/repr()), never with a RELATIVE one (e / E / g / G / n with fewer than 17 significant
    digits rounds 1160450 to 1.16e+06: the two pieces of a fit that meet there are then both active, or neither, between the rounded
    and the declared bound).  The arms are found by role: the value returned by Reaction.__format__ under `form == <the format
    name of a reaction class>` (helpers and module-level formatting functions read as the expressions they return)."""
    pkg = package(ctx.tree)
    RF = pkg.cls("Reaction").file
    pkg.method("Reaction", "__format__")
    fn = pkg.expanded("Reaction", "__format__")
    ctx.saw(RF, "Reaction.__format__")
    W = (RF, fn.lineno)
    if len(fn.args.args) != 2:
        ctx.unrec("R7", "writer", W, "Reaction.__format__ does not take (self, <format name>)")
        return
    FORM, SELFP = ("param", fn.args.args[1].arg), ("param", fn.args.args[0].arg)

    def fres(name):
        f = pkg.functions.get((RF, name))
        imp = pkg.imports.get(RF, {}).get(name)
        if f is None and imp and imp[0].startswith(".") and imp[1]:
            import os
            base = os.path.dirname(RF)
            for _ in range(len(imp[0]) - len(imp[0].lstrip(".")) - 1):
                base = os.path.dirname(base)
            mod = imp[0].lstrip(".")
            f = pkg.functions.get((os.path.join(base, *mod.split(".")) + ".py", imp[1])) if mod else None
        return f
    fl = Flow(fn, RF, resolver=lambda name: pkg.resolve("Reaction", name)[1], func_resolver=fres)
    rets = [f for f in fl.facts if f.kind == "return"]
    # one `return verbose` at the end of an if/elif chain, or one `return <text>` per arm (guard clauses, the last path raising): the
    # value as the decision tree of its paths (a path that raises writes nothing)
    from ..valueflow import phi_of_paths
    v = None
    if rets and all(f.value is not None and not f.loops for f in rets):
        v = rets[0].value if len(rets) == 1 else phi_of_paths(
            [(f.value if f.kind == "return" else ("raise", f.value if f.value is not None else ("const", None)), list(f.guards))
             for f in fl.facts if f.kind in ("return", "raise") and not f.loops])
        if v is None:
            # (a chain that raises in its last arm and returns after the chain: the returns alone form the tree)
            v = phi_of_paths([(f.value, list(f.guards)) for f in rets])
    if v is None:
        ctx.unrec("R7", "writer", W, f"cannot read the value Reaction.__format__ returns as one decision over the format name ({len(rets)} returns)")
        return
    v = simp(v)
    # the formats somebody reads back: the `format` name of the reaction classes
    readers = {}
    for c in ["Reaction"] + pkg.subclasses("Reaction"):
        ci = pkg.classes.get(c)
        node = ci.attrs.get("format") if ci is not None else None
        if isinstance(node, ast.Constant) and isinstance(node.value, str):
            readers.setdefault(node.value, c)
    native = [k for k, c in readers.items() if c == "Reaction"]
    tests = {x for x in walk(v) if isinstance(x, tuple) and len(x) == 3 and x[0] == "cmp" and x[1] == ("Eq",) and len(x[2]) == 2 and FORM in x[2]
             and all(y == FORM or (y[0] == "const" and isinstance(y[1], str)) for y in x[2])}
    named = {[y for y in x[2] if y != FORM][0][1] for x in tests}
    if not native or native[0] not in named:
        ctx.unrec("R7", "writer", W, "cannot find the arm of Reaction.__format__ that writes the package's own format (a test `form == <Reaction.format>`)")
        return
    n = 0
    for F in sorted(named & set(readers)):
        assume = {x: ([y for y in x[2] if y != FORM][0][1] == F) for x in tests}
        assume[FORM] = True
        arm = simp(peval(v, assume))
        for attr in ("temp_min", "temp_max"):
            A = ("attr", SELFP, attr)
            key = f"{F}:{attr} written"
            if not any(x == A for x in walk(arm)):
                if F in native:
                    ctx.unrec("R7", key, (RF, rets[0].line), f"cannot find where the {F!r} arm writes self.{attr}")
                continue
            def is_fmt(x):
                return isinstance(x, tuple) and len(x) == 4 and x[0] == "fmt" and any(y == A for y in walk(x[1]))
            # the innermost format specification around the attribute (a formatted piece pasted into a larger f-string is text)
            fmts = [x for x in walk(arm) if is_fmt(x) and not any(is_fmt(y) for y in walk(x[1]))]
            def printed(x):
                """occurrences of the attribute that can reach the text: outside format specifications' values and outside the
                conditions that choose between texts"""
                if x == A:
                    return 1
                if not isinstance(x, tuple) or not x or x in fmts:
                    return 0
                return sum(printed(y) for i_, y in enumerate(x) if isinstance(y, tuple) and not (x[0] in ("phi", "ifexp") and i_ == 1))
            loose = printed(arm)
            if not fmts or loose > 0:
                ctx.unrec("R7", key, (RF, rets[0].line), f"self.{attr} reaches the text of the {F!r} format in a way this rule cannot read (not a format specification)")
                continue
            for x in dict.fromkeys(fmts):
                val, spec = simp(x[1]), x[2]
                if val[0] == "call" and val[1] in (("global", "int"), ("global", "float")) and len(val[2]) == 1 and not val[3]:
                    val = simp(val[2][0])          # int(x) keeps whole numbers
                if isinstance(spec, tuple) and spec and spec[0] == "const":
                    spec = spec[1]
                m = _SPEC.match(spec) if isinstance(spec, str) else None
                if val != A or not (spec is None or m):
                    ctx.unrec("R7", key, (RF, rets[0].line), f"cannot read how self.{attr} is formatted: {show(x)[:80]}")
                    continue
                n += 1
                t_, p_ = (m.group("t"), m.group("p")) if m else (None, None)
                if t_ is None and p_ is not None:
                    t_ = "g"                      # a precision without a type is the general format
                if t_ in (None, "f", "F", "d", "s"):
                    ctx.ok("R7", key, (RF, rets[0].line), f"{spec!r}: absolute precision, a whole number of kelvin is read back unchanged")
                elif t_ in ("e", "E", "g", "G", "n"):
                    digits = (int(p_) if p_ is not None else 6) + (1 if t_ in "eE" else 0)
                    digits = max(digits, 1)
                    ctx.check(digits >= 17, "R7", key, (RF, rets[0].line),
                              f"{spec!r} keeps {digits} significant digits" if digits >= 17 else
                              f"the {F!r} format writes self.{attr} with {digits} significant digits ({spec!r}): a bound such as 1160450 K is read back as another number by "
                              f"{readers[F]}._parse_string, so after export -> render the window guard differs from the declared window (adjacent pieces of a fit overlap or leave a gap)",
                              expected="fixed-point / integer / repr", found=show(x)[:80])
                else:
                    ctx.unrec("R7", key, (RF, rets[0].line), f"format type {t_!r} of self.{attr} is not one this rule knows")
    ctx.floor("R7", "window columns of the written formats", n, 2, W)


def _r5(ctx):
    """The pieces of a piecewise fit (same reactants and products, adjacent windows) are different reactions to the default
    duplicate search: in the default mode the objects compared are the reactions themselves -- window included -- not a coarser
    key.  The compared list is found by ROLE: the sequence a loop of find_duplicate_reaction (helpers put back) walks, through
    enumerate / tqdm, whose value is chosen by tests on the `mode` parameter; how the first-seen table is kept is C15's business."""
    from .c15 import _mode_leaf
    pkg = package(ctx.tree)
    NF = "naunet/network.py"
    pkg.method("Network", "find_duplicate_reaction")
    fn = pkg.expanded("Network", "find_duplicate_reaction")
    ctx.saw(NF, "Network.find_duplicate_reaction")
    fl = Flow(fn, NF, resolver=lambda name: pkg.resolve("Network", name)[1])
    from ..valueflow import strip_transparent
    RL = ("attr", ("param", "self"), "reaction_list")
    MODE = ("param", "mode")

    def walked(it_):
        it_ = strip_transparent(simp(it_))
        if it_[0] == "call" and it_[1] == ("global", "enumerate") and it_[2]:
            return walked(it_[2][0])
        return per_key(it_)

    def per_key(v):
        """[key(r, mode) for r in L] with the key chosen per reaction by tests on `mode` alone (a per-reaction key helper) is the list
        chosen by those tests: the choice does not depend on the reaction, so it is the same for every entry"""
        if v[0] == "comp" and v[1] in ("list", "gen") and len(v[3]) == 1 and not v[3][0][2]:
            e = simp(v[2])
            if e[0] in ("phi", "ifexp") and len(e) == 4 and any(x == MODE for x in walk(e[1])) \
                    and not any(isinstance(x, tuple) and x and x[0] in ("bv", "elem", "idx") for x in walk(e[1])):
                return ("phi", e[1], per_key(("comp", v[1], e[2], v[3])), per_key(("comp", v[1], e[3], v[3])))
        return v

    def by_mode(v):
        return v[0] in ("phi", "ifexp") and any(x == MODE for x in walk(v[1]))
    cands = []
    for lp in fl.all_loops.values():
        v = walked(lp.iter)
        if by_mode(v) and v not in [c for c, _ in cands]:
            cands.append((v, lp.line))
    if not cands:
        # the dispatch may sit in a helper that could not be put back: the lists handed to helpers of the class
        # (written as a statement or inside any expression: `groups = self._group(self._keys(mode))`)
        vals = [(f.value, f.line) for f in fl.facts if f.value is not None] + [(a[0], a[3]) for al in fl.assigns.values() for a in al]
        for val, line_ in vals:
            for x in walk(val):
                if isinstance(x, tuple) and len(x) == 5 and x[0] == "meth" and x[1] in (("param", "self"), ("param", "cls")):
                    for a in x[3]:
                        v = walked(a)
                        if by_mode(v) and v not in [c for c, _ in cands]:
                            cands.append((v, line_))
    W = (NF, fn.lineno)
    if not cands:
        ctx.unrec("R5", "default-mode comparison", W, "cannot find the per-mode list of compared objects (a sequence chosen by tests on `mode` that a loop walks)")
    for v, line in cands:
        leaves = {m: _mode_leaf(v, m) for m in ("none", "brief", "text")}
        if leaves["none"] is None:
            ctx.unrec("R5", "default-mode comparison", (NF, line), f"mode dispatch not recognised: {show(v)[:100]}")
            continue
        from ..valueflow import as_map
        leaf = strip_transparent(simp(leaves["none"]))
        while leaf[0] == "copy":
            leaf = strip_transparent(simp(leaf[1]))
        mp = as_map(leaf) if leaf[0] == "comp" else None
        if mp is not None and strip_transparent(simp(mp[2])) == RL and not mp[3] and mp[1] == mp[0]:
            leaf = RL                                   # [r for r in self.reaction_list]: the reactions themselves
        ok = leaf == RL
        if not ok:
            # understood and wrong: one key per reaction, derived from it, that is not the reaction and does not look at both bounds
            derived = mp is not None and strip_transparent(simp(mp[2])) == RL and mp[1] != mp[0] and any(x == mp[0] for x in walk(mp[1])) \
                and not all(any(x == ("attr", mp[0], a_) for x in walk(mp[1])) for a_ in ("temp_min", "temp_max"))
            if not derived:
                ctx.unrec("R5", "default-mode comparison", (NF, line), f"cannot see what the default mode compares: {show(leaf)[:100]}")
                continue
        ctx.check(ok, "R5", "default-mode comparison", (NF, line),
                  "the default mode compares the reactions themselves (temperature window included)" if ok else
                  "the default mode does not compare the reactions themselves: reactions that differ only in their temperature window (the pieces of a "
                  "piecewise fit) can be taken for duplicates", expected="check_list = self.reaction_list", found=show(leaves["none"])[:100])
    ctx.floor("R5", "default-mode comparison", len([o for o in ctx.obs if o.rule == "R5"]), 1)


def _dataclass_methods(pkg, fl, v):
    """`Rec(a, b).m()` -- Rec a plain @dataclass of the package (annotated fields in order, no __init__ / __post_init__ / properties
    of its own named like a field), m a small loop-free method of it -- is the value m returns with self.<field> standing for the
    constructor argument of that position (valueflow's inliner reads m; the fields are then put in).  Anything else is left."""
    if not isinstance(v, tuple) or not v:
        return v
    v = tuple(_dataclass_methods(pkg, fl, x) if isinstance(x, tuple) else x for x in v)
    if len(v) == 5 and v[0] == "meth" and isinstance(v[1], tuple) and len(v[1]) == 4 and v[1][0] == "call" and v[1][1][0] == "global" and v[1][1][1] in pkg.classes:
        ci = pkg.classes[v[1][1][1]]
        decs = {ast.unparse(d).split("(")[0] for d in ci.node.decorator_list}
        fields = [st.target.id for st in ci.node.body if isinstance(st, ast.AnnAssign) and isinstance(st.target, ast.Name)]
        callee = ci.methods.get(v[2])
        args, kws = v[1][2], dict(v[1][3])
        if decs & {"dataclass", "dataclasses.dataclass"} and not ci.bases and callee is not None and not callee.decorator_list and not ({"__init__", "__post_init__", "__getattr__", "__getattribute__"} & set(ci.methods)) \
                and len(args) <= len(fields) and not any(a[0] == "star" for a in args) and all(k in fields[len(args):] for k in kws) and len(args) + len(kws) == len(fields):
            given = dict(zip(fields, args))
            given.update(kws)
            inl = fl._inline(callee, v[3], dict(v[4]))
            if inl is not None and not any(isinstance(x, tuple) and len(x) == 5 and x[0] == "meth" and x[1] == ("param", "self") for x in walk(inl)):
                from ..valueflow import subst
                out = simp(subst(inl, {("attr", ("param", "self"), f_): x for f_, x in given.items()}))
                if not any(x == ("param", "self") for x in walk(out)):
                    return out
    return v


def _guard_builders(ctx, pkg, fn):
    """A helper of the class that _assign_rates calls (directly or through another helper) and that writes guard text (a piece
    containing `Tgas`) may hand back an EMPTY guard only because the bounds are absent: an early `return ""` chosen by another
    attribute of the reaction (its type, a flag) drops the window of a reaction that declares one -- the coefficient is then
    assigned at every temperature.  Conditions that look at the bounds (or at nothing of the reaction) are not judged here."""
    seen, todo = set(), [fn]
    while todo:
        f_ = todo.pop()
        for c in ast.walk(f_):
            if isinstance(c, ast.Call) and isinstance(c.func, ast.Attribute) and isinstance(c.func.value, ast.Name) and c.func.value.id in ("self", "cls", "TemplateLoader"):
                _, callee = pkg.resolve("TemplateLoader", c.func.attr)
                if callee is not None and callee is not fn and c.func.attr not in seen and len(seen) < 12:
                    seen.add(c.func.attr)
                    todo.append(callee)
    for name in sorted(seen):
        callee = pkg.resolve("TemplateLoader", name)[1]
        try:
            hf = Flow(callee, FILE, resolver=lambda nm: pkg.resolve("TemplateLoader", nm)[1])
        except Exception:
            continue

        def texts(x):
            return [y[1] for y in walk(x) if isinstance(y, tuple) and len(y) == 2 and y[0] == "const" and isinstance(y[1], str)]
        if not any("Tgas" in t for f in hf.facts if f.value is not None for t in texts(simp(f.value))):
            continue
        params = {("param", a.arg) for a in callee.args.args}
        for f in hf.facts:
            if f.kind != "return" or f.value is None or f.loops:
                continue
            v = simp(f.value)
            if not (v[0] == "const" and isinstance(v[1], str) and "Tgas" not in v[1]):
                continue
            for g_, pol in f.guards:
                g_ = simp(g_)
                attrs = {y[2] for y in walk(g_) if isinstance(y, tuple) and len(y) == 3 and y[0] == "attr" and y[1] in params} \
                    | {y[2][1][1] for y in walk(g_) if isinstance(y, tuple) and len(y) == 4 and y[0] == "call" and y[1] in (("global", "getattr"), ("global", "hasattr")) and len(y[2]) >= 2
                       and y[2][0] in params and y[2][1][0] == "const" and isinstance(y[2][1][1], str)}
                if attrs and not (attrs & {"temp_min", "temp_max"}):
                    ctx.bad("R1", f"{name}:empty guard", (FILE, f.line),
                            f"the guard builder {name} returns the guard {v[1]!r} when `{show(g_)[:80]}` is {pol}: a reaction that declares a temperature window is then assigned "
                            "at every temperature (the window is dropped for a reason other than an absent bound)", expected="an empty guard only when both bounds are <= 0", found=show(g_)[:100])


def _r1(ctx):
    pkg = package(ctx.tree)
    fn = pkg.method("TemplateLoader", "_assign_rates")
    ctx.saw(FILE, "TemplateLoader._assign_rates")
    _guard_builders(ctx, pkg, fn)
    # small loop-free helpers of the class (self._x(..)) are read as the expressions they return
    # (a list of statement RECORDS built first and turned into text by a method of the record -- `[s.code() for s in stmts]` -- is read as the
    # one comprehension it is: the two comprehensions fused, the record's fields bound, its method's value in place)
    import copy as _copy
    from ..normalize import fuse_comprehensions
    from ..ratemodel import model as _ratemodel
    _rm = _ratemodel(ctx.tree)
    if any(isinstance(c_, ast.Call) and isinstance(c_.func, ast.Name) and c_.func.id in _rm.dataclass_types(FILE) for c_ in ast.walk(fn)):
        fn = fuse_comprehensions(_copy.deepcopy(fn))
        fl = Flow(fn, FILE, resolver=lambda name: pkg.resolve("TemplateLoader", name)[1], consts=_rm.dataclass_types(FILE), func_resolver=_rm.func_resolver(FILE))
    else:
        # (small module-level helpers called by their bare name -- `_rate_assignment(sym, i, expr, cond)` -- are read as what they return)
        fl = Flow(fn, FILE, resolver=lambda name: pkg.resolve("TemplateLoader", name)[1], func_resolver=_rm.func_resolver(FILE))
    W = (FILE, fn.lineno)
    rets = [f for f in fl.facts if f.kind == "return"]
    if len(rets) != 1:
        ctx.unrec("R1", "_assign_rates:return", W, f"expected one return, found {len(rets)}")
        return
    v = simp(rets[0].value)
    from ..valueflow import seq_base, loop_built_seq, as_map
    if v[0] == "comp" and len(v[3]) == 1:
        tg, it, ifs = v[3][0]
        elt0 = v[2]
        # [g(s) for s in [f(x) for x in X]] is [g(f(x)) for x in X]: statements first collected as objects, then turned into text
        from ..valueflow import subst as _subst
        for _ in range(3):
            inner = simp(it)
            if not (tg is not None and tg[0] == "bv" and inner[0] == "comp" and inner[1] in ("list", "gen") and len(inner[3]) == 1 and not inner[3][0][2] and not ifs):
                break
            elt0 = _subst(elt0, {tg: inner[2]})
            tg, it, ifs = inner[3][0]
        elt0 = _dataclass_methods(pkg, fl, elt0)
    else:
        # the same list written as `out = []; for ..: <build the statement>; out.append(statement)`
        lb = loop_built_seq(fl, v[1]) if v[0] == "acc" else None
        if lb is None:
            ctx.unrec("R1", "_assign_rates:return", (FILE, rets[0].line), "returned value is not a single comprehension (or one-append-per-iteration loop) over the reactions")
            return
        it, ifs, elt0 = lb[0].iter, (), lb[1]
    # the reaction list and the array symbol by ROLE: the parameters of the function (after self) that are, in the signature of the
    # callers (`self._assign_rates(rate_sym, reactions, grains)`), the first and the second -- whatever they are called
    pnames = [a.arg for a in fn.args.args if a.arg not in ("self", "cls")]
    if len(pnames) < 2:
        ctx.unrec("R1", "_assign_rates:signature", W, "expected (self, <array symbol>, <reactions>[, <grains>])")
        return
    R, SYM = ("param", pnames[1]), ("param", pnames[0])
    # the statements enumerate zip(guards, rate expressions), both position-preserving views of `reactions`
    import builtins
    import os
    from ..valueflow import strip_transparent, subst
    SELFS = (("param", "self"), ("param", "cls"))
    cache, serial = {}, itertools.count(1)

    def shift(v, off):
        """loop ids / comprehension-variable ids of a helper's own flow moved out of the way of the caller's"""
        if not isinstance(v, tuple) or not v:
            return v
        if v[0] in ("elem", "idx", "key", "val", "carried", "after") and len(v) == 3 and isinstance(v[2], int):
            return (v[0], shift(v[1], off), v[2] + off)
        if v[0] == "bv" and len(v) == 3 and isinstance(v[2], int):
            return ("bv", v[1], v[2] + off)
        return tuple(shift(x, off) if isinstance(x, tuple) else x for x in v)

    def summarise(z):
        """A call to a helper of the class / a function of the package that RETURNS a list: ("loop", loop id, iter, elt) when the list
        is filled by a one-append-per-iteration loop, ("value", IR) when it is an expression of the arguments; None otherwise.  The
        helper is analysed on its own (valueflow) and its parameters replaced by the argument values."""
        if z in cache:
            return cache[z]
        cache[z] = None
        callee = file_ = None
        if z[0] == "meth" and z[1] in SELFS and len(z) == 5:
            _, callee = pkg.resolve("TemplateLoader", z[2])
            file_, args, kws = FILE, z[3], z[4]
        elif z[0] == "call" and z[1][0] == "global" and not hasattr(builtins, z[1][1]):
            name = z[1][1]
            callee, file_ = pkg.functions.get((FILE, name)), FILE
            imp = pkg.imports.get(FILE, {}).get(name)
            if callee is None and imp and imp[0].startswith("."):
                lvl = len(imp[0]) - len(imp[0].lstrip("."))
                base = os.path.dirname(FILE)
                for _ in range(lvl - 1):
                    base = os.path.dirname(base)
                file_ = os.path.join(base, *imp[0].lstrip(".").split(".")) + ".py" if imp[0].lstrip(".") else None
                callee = pkg.functions.get((file_, imp[1])) if file_ else None
            args, kws = z[2], z[3]
        if callee is None or callee is fn or callee.args.vararg or callee.args.kwarg or any(k == "**" for k, _ in kws) or any(a[0] == "star" for a in args):
            return None
        decs = {ast.unparse(d) for d in callee.decorator_list}
        params = [a.arg for a in callee.args.args]
        if decs - {"staticmethod", "classmethod"}:
            return None
        if z[0] == "meth" and "staticmethod" not in decs:
            params = params[1:]
        if len(args) > len(params) or any(k not in params for k, _ in kws):
            return None
        given = dict(zip(params, args))
        given.update(dict(kws))
        defaults = dict(zip(params[len(params) - len(callee.args.defaults):], callee.args.defaults))
        for p_ in params:
            if p_ not in given and isinstance(defaults.get(p_), ast.Constant):
                given[p_] = ("const", defaults[p_].value)
        sub = Flow(callee, file_, resolver=(lambda name: pkg.resolve("TemplateLoader", name)[1]) if z[0] == "meth" else None)
        rs = [f for f in sub.facts if f.kind == "return"]
        if len(rs) != 1 or rs[0].loops:
            return None
        off = 1000 * next(serial)
        bind = {("param", p_): v_ for p_, v_ in given.items()}
        rv = simp(rs[0].value)
        for lp_ in sub.all_loops.values():
            extra_bvals.update({shift(k_, off): subst(shift(v_, off), bind) for k_, v_ in lp_.bvals.items()})
        if rv[0] == "acc":
            lb_ = loop_built_seq(sub, rv[1])
            if lb_ is None:
                return None
            cache[z] = ("loop", lb_[0].id + off, subst(shift(lb_[0].iter, off), bind), subst(shift(lb_[1], off), bind))
        elif rv[0] in ("comp", "copy", "phi", "ifexp", "param", "list"):
            cache[z] = ("value", subst(shift(rv, off), bind))
        return cache[z]
    extra_bvals = {}

    def seqs_of(it_):
        """the sequences a loop walks position by position: through enumerate(..) and zip(..); `L[:]` is L"""
        it_ = strip_transparent(simp(it_))
        while it_[0] == "sub" and len(it_) == 3 and it_[2][0] == "slice" and all(x in (None, ("const", None)) for x in it_[2][1:]):
            it_ = strip_transparent(simp(it_[1]))
        if it_[0] == "call" and it_[1] == ("global", "enumerate") and it_[2]:
            return seqs_of(it_[2][0])
        if it_[0] == "call" and it_[1] == ("global", "zip") and not it_[3]:
            return [x for a in it_[2] for x in seqs_of(a)]
        return [it_]

    def sources(a, depth=0):
        """[(sequence the view ranges over, filtered?)] of a list value: through if/else arms, comprehensions, zip, list-building helpers"""
        a = simp(a)
        if a[0] in ("phi", "ifexp"):
            return sources(a[2], depth) + sources(a[3], depth)
        if a[0] == "copy":
            return sources(a[1], depth)
        if a[0] == "comp" and len(a[3]) == 1:
            tg_, it_, ifs_ = a[3][0]
            return [(b_, f_ or bool(ifs_)) for z in seqs_of(it_) for b_, f_ in sources(z, depth)]
        if a[0] == "acc" and depth < 3:
            # a local list filled by one append per iteration of a loop of this function: a view of what that loop walks
            lb_ = loop_built_seq(fl, a[1])
            if lb_ is not None:
                return [x for z in seqs_of(lb_[0].iter) for x in sources(z, depth + 1)]
        sm = summarise(a) if depth < 3 else None
        if sm is not None and sm[0] == "loop":
            return [x for z in seqs_of(sm[2]) for x in sources(z, depth + 1)]
        if sm is not None:
            return sources(sm[1], depth + 1)
        return [(a, False)]

    def opaque(b_):
        """a sequence whose construction this rule cannot see (helper that could not be read, list filled by an unreviewed loop);
        a parameter, an attribute, a builtin applied to those (reversed(..), sorted(..), x[1:]) is visible"""
        if b_[0] in ("param", "attr", "global", "sub", "list", "tuple"):
            return False
        if b_[0] == "call" and b_[1][0] == "global" and b_[1][1] in ("reversed", "sorted", "filter", "list", "tuple", "set", "frozenset", "enumerate", "zip", "iter"):
            return any(opaque(x) for x in b_[2])          # a visible re-ordering / selection / copy of its arguments
        return True
    def unslice(v_):
        """`L[:]` (a copy of the whole list) read as L, wherever it stands"""
        if not isinstance(v_, tuple) or not v_:
            return v_
        if v_[0] == "sub" and len(v_) == 3 and isinstance(v_[2], tuple) and v_[2] and v_[2][0] == "slice" and all(x in (None, ("const", None)) for x in v_[2][1:]):
            return unslice(v_[1])
        return tuple(unslice(x) if isinstance(x, tuple) else x for x in v_)
    it, elt0 = unslice(it), unslice(elt0)
    b = match(("call", ("global", "enumerate"), (V("z"),), ()), it)
    if not b and strip_transparent(simp(it))[0] == "call" and strip_transparent(simp(it))[1] == ("global", "zip") and not strip_transparent(simp(it))[3]:
        # no counter at the top: the statements are zipped from lists that were numbered when they were built
        b = {"z": strip_transparent(simp(it))}
    srcs = [x for a in seqs_of(b["z"]) for x in sources(a)] if b else []
    # a list built one entry per reaction whose entries are then overwritten in place: somebody else writes the guard / rate text
    for b_, _ in srcs:
        if b_[0] == "acc":
            inits = [f for f in fl.facts if f.kind == "init" and f.target == b_[1]]
            stores = [f for f in fl.facts if f.kind in ("store", "augstore") and f.target == b_[1] and f.value is not None]
            if inits and stores and all(not opaque(x) for f in inits for x, _ in sources(f.value)) \
                    and not all(isinstance(simp(f.value), tuple) and simp(f.value)[0] == "meth" and simp(f.value)[2] == "rateexpr" for f in stores):
                # understood and wrong: an entry replaced by a reference to a coefficient (text built around the array symbol) or by a
                # rewriting of the entry it replaces; any other in-place edit (a list filled with blanks first, a guard completed in a
                # second pass) is a construction this rule does not follow
                def rewrites(f_):
                    v_ = simp(f_.value)
                    return any(y == SYM for y in walk(v_)) or (v_[0] == "meth" and v_[2] in ("replace", "lower", "upper", "format", "strip", "lstrip", "rstrip")
                                                              and any(isinstance(y, tuple) and y and y[0] in ("sub", "elem", "acc") for y in walk(v_[1])))
                if not any(rewrites(f_) for f_ in stores):
                    ctx.unrec("R1", "_assign_rates:iteration", (FILE, stores[0].line), f"entries of `{b_[1]}` are stored in place after the list was built: how the final entries relate "
                              "to the reactions is not followed: " + show(simp(stores[0].value))[:100])
                    return
                ctx.bad("R1", "_assign_rates:iteration", (FILE, stores[0].line),
                        f"entries of `{b_[1]}` are overwritten in place after the list was built one entry per reaction: the statement of a reaction no longer carries "
                        "that reaction's own guard / reac.rateexpr()", expected="no element store into the guard / rate lists", found=show(simp(stores[0].value))[:100])
                return
    if not b or any(opaque(b_) for b_, _ in srcs):
        ctx.unrec("R1", "_assign_rates:iteration", (FILE, rets[0].line),
                  "cannot see how the statements are paired with the reactions (expected enumerate(zip(guards, rates)) over views of `reactions`): " + show(it)[:160])
        return
    ok_it = all(b_ == R and not f_ for b_, f_ in srcs) and not ifs

    def of_R(b_):
        """R itself or a visible re-ordering / selection / slice of it"""
        if b_ == R:
            return True
        if b_[0] == "call" and b_[1][0] == "global" and b_[2]:
            return any(of_R(x) for x in b_[2])
        return b_[0] == "sub" and of_R(b_[1])
    if not ok_it and not all(of_R(b_) for b_, _ in srcs):
        # views of something else than the reaction list (an attribute, another parameter): not traced back to `reactions`
        ctx.unrec("R1", "_assign_rates:iteration", (FILE, rets[0].line), "the guards / rate expressions range over something this rule cannot trace back to the reaction list: "
                  + ", ".join(sorted({show(b_)[:40] for b_, _ in srcs if not of_R(b_)}))[:160])
        return
    ctx.check(ok_it, "R1", "_assign_rates:iteration", (FILE, rets[0].line),
              "statements are built over enumerate(zip(guards, rates)) where both are unfiltered one-to-one views of the same `reactions` list",
              found=show(it)[:200])
    if not ok_it:
        return

    # elements of lists returned by helpers: the helper's element expression at the same position
    def helped(z):
        z = simp(z)
        if z[0] in ("phi", "ifexp"):
            return helped(z[2]) or helped(z[3])
        if z[0] == "call" and z[1] == ("global", "zip"):
            return any(helped(a) for a in z[2])
        if z[0] == "acc":
            return loop_built_seq(fl, z[1]) is not None
        return summarise(z) is not None

    def at(z, l_, depth=0):
        z = simp(z)
        if z[0] in ("phi", "ifexp"):
            return ("phi", z[1], at(z[2], l_, depth), at(z[3], l_, depth))
        if z[0] == "acc" and depth < 4:
            lb_ = loop_built_seq(fl, z[1])
            if lb_ is not None:
                return resolve(subst_loop(lb_[1], lb_[0].id, l_), depth + 1)
        sm = summarise(z) if depth < 4 else None
        if sm is not None and sm[0] == "loop":
            return resolve(subst_loop(sm[3], sm[1], l_), depth + 1)
        if sm is not None:
            return at(sm[1], l_, depth + 1)
        return simp(("elem", z, l_))

    def subst_loop(v_, old, new_):
        if not isinstance(v_, tuple) or not v_:
            return v_
        if v_[0] in ("elem", "idx") and len(v_) == 3 and v_[2] == old:
            return (v_[0], subst_loop(v_[1], old, new_), new_)
        return tuple(subst_loop(x, old, new_) if isinstance(x, tuple) else x for x in v_)

    def resolve(v_, depth=0):
        if not isinstance(v_, tuple) or not v_:
            return v_
        # the pair (counter, entry) of an enumerate read by position; the entry of a list chosen by a condition
        if v_[0] in ("item", "sub") and len(v_) == 3 and v_[2] in (0, 1, ("const", 0), ("const", 1)) and isinstance(v_[1], tuple) and len(v_[1]) == 3 and v_[1][0] == "elem":
            e_ = strip_transparent(simp(v_[1][1]))
            if e_[0] == "call" and e_[1] == ("global", "enumerate") and len(e_[2]) == 1 and not e_[3]:
                first = v_[2] in (0, ("const", 0))
                return resolve(("idx" if first else "elem", e_[2][0], v_[1][2]), depth)
        if v_[0] == "elem" and len(v_) == 3 and isinstance(v_[1], tuple) and v_[1] and v_[1][0] in ("phi", "ifexp") and depth < 6:
            return ("phi", v_[1][1], resolve(simp(("elem", v_[1][2], v_[2])), depth + 1), resolve(simp(("elem", v_[1][3], v_[2])), depth + 1))
        if v_[0] == "elem" and len(v_) == 3 and helped(v_[1]):
            return at(v_[1], v_[2], depth)
        if v_[0] == "idx" and len(v_) == 3 and all(b_ == R and not f_ for z in seqs_of(v_[1]) for b_, f_ in sources(z)):
            return ("idx", R, v_[2])
        return tuple(resolve(x, depth) if isinstance(x, tuple) else x for x in v_)
    elt = simp(resolve(elt0))     # (simp first: elements of comprehensions are resolved while their variables are still bound)
    allb = dict(extra_bvals)
    for lp_ in fl.all_loops.values():
        allb.update(lp_.bvals)
    for _ in range(6):
        e2 = simp(resolve(unslice(subst(elt, allb))))
        if e2 == elt:
            break
        elt = e2
    lids = {x[2] for x in walk(elt) if isinstance(x, tuple) and len(x) == 3 and x[0] == "idx" and x[1] == R}
    if len(lids) != 1:
        ctx.unrec("R1", "_assign_rates:index", (FILE, rets[0].line), "cannot identify the enumerate counter in the statement")
        return
    L = lids.pop()
    r = ("elem", R, L)
    lo = ("cmp", ("Gt",), (("attr", r, "temp_min"), ("const", 0)))
    hi = ("cmp", ("Gt",), (("attr", r, "temp_max"), ("const", 0)))
    conds = {x for x in walk(elt) if isinstance(x, tuple) and x and x[0] == "cmp"}
    # one spelling of a comparison of a bound with a number: the bound on the left (`0 < r.temp_min` is `r.temp_min > 0`)
    FLIP = {"Lt": "Gt", "Gt": "Lt", "LtE": "GtE", "GtE": "LtE", "Eq": "Eq", "NotEq": "NotEq"}

    def bound_test(c):
        """(attribute, operator, number) of a comparison of a bound of reaction r with a numeric literal, else None"""
        if len(c[1]) != 1 or len(c[2]) != 2 or c[1][0] not in FLIP:
            return None
        (a_, b_), op = c[2], c[1][0]
        if b_[0] == "attr" and a_[0] == "const":
            a_, b_, op = b_, a_, FLIP[op]
        if a_[0] == "attr" and a_[1] == r and a_[2] in ("temp_min", "temp_max") and b_[0] == "const" and isinstance(b_[1], (int, float)) and not isinstance(b_[1], bool):
            return a_[2], op, b_[1]
        return None
    assume_of = {}          # condition -> (which bound, truth value when the bound is present)
    for c in conds:
        bt = bound_test(c)
        if bt is not None and bt[2] == 0 and bt[1] in ("Gt", "LtE"):
            assume_of[c] = (bt[0], bt[1] == "Gt")
    def untraced(c):
        """c is the presence test itself on a comprehension variable (or an element the rule could not compose to this position):
        the right test, whose reaction was not traced -- not evidence of a wrong test"""
        for x in walk(c):
            if isinstance(x, tuple) and len(x) == 3 and (x[0] == "bv" or (x[0] == "elem" and x != r)):
                if simp(subst(c, {x: r})) in (lo, hi):
                    return True
        return False
    loose = [c for c in conds if c not in (lo, hi) and untraced(c)]
    if loose:
        ctx.unrec("R1", "_assign_rates:presence-tests", (FILE, rets[0].line), "cannot trace the condition(s) that shape the statement back to the reaction of the same position: "
                  + ", ".join(sorted(show(c) for c in loose))[:160])
        return
    # understood and wrong: a bound of the same reaction compared with a number in another way (>= 0, > 1, != 0); anything else that
    # shapes the statement (a test on the text of the guard, on something the rule does not know) is not a verdict
    wrong = [c for c in conds if c not in assume_of and bound_test(c) is not None]
    other = [c for c in conds if c not in assume_of and bound_test(c) is None]
    good = {w for w, _ in assume_of.values()} == {"temp_min", "temp_max"}
    # (a bound that is never tested shows in the variants below: the statement does not change with it)
    if wrong or not other:
        ctx.check(not wrong, "R1", "_assign_rates:presence-tests", (FILE, rets[0].line),
                  "a bound is present iff it is > 0 (temp_min > 0, temp_max > 0 of the same reaction); no other condition shapes the statement",
                  expected="r.temp_min > 0, r.temp_max > 0", found=", ".join(sorted(show(c) for c in conds)))
    if wrong:
        return
    n_before = len(ctx.obs)
    idx = ("idx", R, L)
    want = {
        (False, False): r"^(?P<s>H\d+_)\[(?P<i>H\d+_)\] = (?P<e>H\d+_);$",
        (True, False): r"^if \(Tgas>=(?P<lo>H\d+_)\) \{\n(?P<s>H\d+_)\[(?P<i>H\d+_)\] = (?P<e>H\d+_);\n\}$",
        (False, True): r"^if \(Tgas<(?P<hi>H\d+_)\) \{\n(?P<s>H\d+_)\[(?P<i>H\d+_)\] = (?P<e>H\d+_);\n\}$",
        (True, True): r"^if \(Tgas>=(?P<lo>H\d+_) && Tgas<(?P<hi>H\d+_)\) \{\n(?P<s>H\d+_)\[(?P<i>H\d+_)\] = (?P<e>H\d+_);\n\}$",
    }
    names = {(False, False): "no window", (True, False): "lower bound only", (False, True): "upper bound only", (True, True): "both bounds"}
    for has_lo, has_hi in itertools.product([False, True], repeat=2):
        pe = peval(elt, {c: ((has_lo if w == "temp_min" else has_hi) == pol) for c, (w, pol) in assume_of.items()})
        lw = lower(pe)
        key = f"_assign_rates:variant[{names[(has_lo, has_hi)]}]"
        m = re.match(want[(has_lo, has_hi)], lw.text)
        if not m and (re.search(r"SEQ\d+_", lw.text) or "=" not in re.sub(r"[HS]E?Q?\d+_", "", lw.text)):
            # the statement text could not be reconstructed (an opaque piece where the assignment should be): not a verdict on its shape
            ctx.unrec("R1", key, (FILE, rets[0].line), f"cannot reconstruct the text of the generated statement: {lw.text[:100]!r}")
            continue
        def known_hole(x):
            x = x[1] if x[0] == "fmt" else x
            return x in (SYM, idx) or (x[0] == "attr" and x[1] == r) or (x[0] == "meth" and x[2] == "rateexpr") or x[0] == "const" \
                or (x[0] in ("phi", "ifexp") and all(known_hole(y) for y in x[2:4]))
        if not m and not all(known_hole(x) for x in lw.holes.values()):
            ctx.unrec("R1", key, (FILE, rets[0].line), f"cannot reconstruct the text of the generated statement (a piece whose text is unknown): {lw.text[:100]!r}")
            continue
        if not m:
            ctx.bad("R1", key, (FILE, rets[0].line), "generated statement has the wrong guard shape",
                    expected=want[(has_lo, has_hi)].replace("(?P<", "<").replace(r">H\d+_)", ">"), found=lw.text)
            continue
        # ({x} and {x:d} / %d of an integer counter print the same digits)
        hv = {k: (x[1] if x[0] == "fmt" and (x[2] is None or (x[2] == "d" and x[1][0] == "idx")) else x) for k, x in lw.holes.items()}
        g = m.groupdict()
        probs, unread = [], []

        def plain(x):
            """built from constants, parameters, counters and attributes of reactions only, all traced to THIS position: a value the rule
            reads completely (an element of another loop / a comprehension variable that was not composed to this position is the
            rule's failure to follow the construction, not a wrong piece)"""
            return all(not (isinstance(y, tuple) and y and y[0] in ("call", "meth", "unknown", "acc", "carried", "after", "sub", "item")) for y in walk(x)) and not stray(x)

        def stray(x):
            return any(isinstance(y, tuple) and len(y) == 3 and ((y[0] in ("elem", "idx", "key", "val") and y[2] != L) or y[0] == "bv") for y in walk(x))
        if hv[g["s"]] != SYM:
            (probs if hv[g["s"]][0] in ("const", "param") else unread).append(f"array symbol is {show(hv[g['s']])}")
        if hv[g["i"]] != idx:
            (probs if plain(hv[g["i"]]) else unread).append(f"index is {show(hv[g['i']])}, not the enumerate counter of the same reaction")
        if "lo" in g and g.get("lo") and hv[g["lo"]] != ("attr", r, "temp_min"):
            (probs if plain(hv[g["lo"]]) else unread).append(f"lower bound is {show(hv[g['lo']])}")
        if "hi" in g and g.get("hi") and hv[g["hi"]] != ("attr", r, "temp_max"):
            (probs if plain(hv[g["hi"]]) else unread).append(f"upper bound is {show(hv[g['hi']])}")
        e = hv[g["e"]]
        # every alternative (with / without grains) must BE reac.rateexpr(..) of the same reaction: not a wrapper that may
        # substitute another text, not a copy of another coefficient
        def leaves(x):
            if isinstance(x, tuple) and x and x[0] in ("phi", "ifexp"):
                return leaves(x[2]) + leaves(x[3])
            return [x]
        lv = leaves(simp(e))
        if not lv or any(not (isinstance(x, tuple) and len(x) == 5 and x[0] == "meth" and x[2] == "rateexpr" and x[1] == r) for x in lv):
            # understood and wrong: the rate text of a reaction (of this or another position) rewritten / replaced by a reference to
            # another coefficient; not understood: a value in which no rateexpr() can be seen at all
            seen_rate = any(isinstance(y, tuple) and len(y) == 5 and y[0] == "meth" and y[2] == "rateexpr" for x in lv for y in walk(x)) \
                or any(y == SYM for x in lv for y in walk(x))
            # (a bare rateexpr() of an element the rule did not trace to this position is the rule's failure, not a wrong piece)
            bare_stray = all((isinstance(x, tuple) and len(x) == 5 and x[0] == "meth" and x[2] == "rateexpr" and (x[1] == r or (x[1][0] in ("elem", "bv") and stray(x[1])))) for x in lv)
            # understood and wrong whatever the values are: a table KEYED BY THE REACTION OBJECTS (`{reac: .. for reac in reactions}[reac]`).
            # Reaction defines __eq__/__hash__ over reactants, products, window and type (C15's contract) -- not the coefficients -- so two
            # entries of the network that compare equal share one slot and one of them is assigned the other's expression
            keyed = [y for x in lv for y in walk(x) if isinstance(y, tuple) and len(y) == 3 and y[0] == "sub" and isinstance(y[1], tuple) and len(y[1]) == 4
                     and y[1][0] == "comp" and y[1][1] == "dict" and len(y[1][3]) == 1 and y[1][2][0] == "tuple" and y[1][2][1][0] == y[1][3][0][0]
                     and y[1][3][0][0][0] == "bv" and isinstance(y[2], tuple) and y[2][0] in ("elem", "bv") and y[2][1:2] == (y[1][3][0][1],)]
            if keyed and any(m_ in pkg.cls("Reaction").methods for m_ in ("__eq__", "__hash__")):
                probs.append("rate expression is looked up in a table keyed by the reaction objects: reactions that compare equal (Reaction.__eq__ ignores the "
                             "coefficients) share one entry, so one of them is assigned the other's rate expression")
                ctx.check(False, "R1", key, (FILE, rets[0].line), "; ".join(probs), found=lw.text)
                continue
            (probs if seen_rate and not bare_stray else unread).append(f"rate expression is {show(e)[:80]}, not rateexpr() of the same reaction")
        if unread and not probs:
            ctx.unrec("R1", key, (FILE, rets[0].line), "cannot read a piece of the generated statement: " + "; ".join(unread)[:200])
            continue
        ctx.check(not probs, "R1", key, (FILE, rets[0].line),
                  f"{names[(has_lo, has_hi)]}: {lw.text!r}" if not probs else "; ".join(probs),
                  found=lw.text)
    if other and all(o.outcome == "DISCHARGED" for o in ctx.obs[n_before:]):
        # every variant came out right although a condition the rule cannot read takes part: not a verdict
        ctx.unrec("R1", "_assign_rates:presence-tests", (FILE, rets[0].line), "the statement is shaped by conditions this rule cannot read as `bound > 0`: "
                  + ", ".join(sorted(show(c) for c in other))[:160])


def _blocks(code):
    """For every offset of '{' ... '}' compute the stack of loop headers."""
    stack = []
    spans = []   # (start, end, is_loop)
    i = 0
    n = len(code)
    opens = []
    for m in re.finditer(r"[{}]", code):
        c = m.group()
        if c == "{":
            head = code[max(0, m.start() - 200):m.start()]
            # header of this block: text after the last ; or } or {
            cut = max(head.rfind(";"), head.rfind("}"), head.rfind("{"))
            h = head[cut + 1:]
            # a for(...) header contains ';' -- look further back for `for (`
            is_loop = bool(re.search(r"\b(for|while)\s*\([^{}]*$", code[max(0, m.start() - 300):m.start()]) and
                           re.search(r"\)\s*$", code[:m.start()]))
            opens.append((m.start(), is_loop))
        else:
            if opens:
                s, lp = opens.pop()
                spans.append((s, m.end(), lp))
    return spans


def _loops_enclosing(spans, off):
    return tuple(sorted(s for s, e, lp in spans if lp and s < off < e))


def _const_outs(items):
    """the items with every output of a literal string (`{{ "text" }}`, a {% set %} alias of one after J.propagate_sets) as text"""
    out = []
    for it in items:
        if it[0] == "out" and it[1][0] == "const" and isinstance(it[1][1], str):
            out.append(("text", it[1][1]) + tuple(it[2:]))
        elif it[0] == "for":
            out.append(it[:3] + (tuple(_const_outs(it[3])), tuple(_const_outs(it[4]))) + tuple(it[5:]))
        elif it[0] == "if":
            out.append(it[:2] + (tuple(_const_outs(it[2])), tuple(_const_outs(it[3]))) + tuple(it[4:]))
        else:
            out.append(it)
    return out


def _r2(ctx):
    n = 0
    for label, rel, cfg in CALLER_TEMPLATES:
        ctx.saw(rel)
        # (`{% set zero = "{0.0}" %} .. = {{ zero }};`: a name standing for a literal text prints that text)
        sk = Skel(_const_outs(J.propagate_sets(J.flatten(ctx.tree, rel, cfg))))
        for f in sk.funcs:
            body = sk.plain(f.body)
            spans = _blocks(body)
            for m in re.finditer(r"\b(EvalRates|EvalHeatingRates|EvalCoolingRates)\s*\(\s*(\w+)\s*,", body):
                callee, arr = m.group(1), m.group(2)
                n += 1
                key = f"{label}:{rel.split('/')[-1]}:{f.name}:{callee}({arr})"
                decls = list(re.finditer(r"\b(?:realtype|double)\s+" + re.escape(arr) + r"\s*\[[^\]]+\]\s*(=\s*\{([^}]*)\})?\s*;", body))
                before = [d for d in decls if d.start() < m.start()]
                if not before:
                    # a parameter / member / differently spelled declaration: where the array is initialised cannot be seen from here
                    ctx.unrec("R2", key, (rel, 0), f"`{arr}` is not declared (realtype {arr}[..] ..;) in {f.name} before it is passed to {callee}: its initialisation is not visible")
                    continue
                d = before[-1]
                init = d.group(2)
                # `= {0.0}`, `= {0}`, `= {}` (C++ value-initialisation) all zero the whole array
                zero = init is not None and re.fullmatch(r"\s*(0(\.0*)?f?)?\s*", init) is not None
                if init is not None and not zero and re.fullmatch(r"\s*[-+]?(\d+\.?\d*|\.\d+)([eE][-+]?\d+)?f?\s*(,\s*[-+]?(\d+\.?\d*|\.\d+)([eE][-+]?\d+)?f?\s*)*,?\s*", init) is None:
                    # an initialiser that is not a list of numeric literals (a macro, a template hole): what it puts into the array is not read
                    ctx.unrec("R2", key, (rel, 0), f"cannot read the initialiser of `{arr}`: {d.group(0)[:80]}")
                    continue
                if init is not None and not zero and all(float(x.rstrip("fF")) == 0 for x in re.split(r"\s*,\s*", init.strip().rstrip(",").strip()) if x):
                    zero = True                      # {0.0e0}, {0.0, 0.0}: zeros in another spelling
                zstart = d.start()
                between = body[d.end():m.start()]
                if not zero:
                    # zeroed by a statement between the declaration and the call: memset / std::fill / std::fill_n / an element loop
                    a_ = re.escape(arr)
                    zs = list(re.finditer(r"\bmemset\s*\(\s*" + a_ + r"\s*,\s*0\s*,\s*sizeof\s*\(?\s*" + a_ + r"\s*\)?\s*\)\s*;"
                                          r"|\b(?:std::)?fill\s*\(\s*" + a_ + r"\s*,\s*" + a_ + r"\s*\+\s*\w+\s*,\s*0(\.0*)?f?\s*\)\s*;"
                                          r"|\b(?:std::)?fill_n\s*\(\s*" + a_ + r"\s*,\s*\w+\s*,\s*0(\.0*)?f?\s*\)\s*;"
                                          r"|\bfor\s*\(\s*(?:int|size_t|unsigned)\s+(\w+)\s*=\s*0\s*;\s*\3\s*<\s*\w+\s*;\s*(?:\+\+\3|\3\+\+)\s*\)\s*\{?\s*" + a_ + r"\s*\[\s*\3\s*\]\s*=\s*0(\.0*)?f?\s*;", between))
                    if zs:
                        zero, zstart = True, d.end() + zs[-1].start()
                    elif re.search(r"\b" + a_ + r"\b", between):
                        ctx.unrec("R2", key, (rel, 0), f"`{arr}` has no zero initialiser and is handled between its declaration and the call in a way this rule cannot read: "
                                  + re.sub(r"\s+", " ", between.strip())[:100])
                        continue
                same_nest = _loops_enclosing(spans, zstart) == _loops_enclosing(spans, m.start())
                # storage duration: `static` / `thread_local` is initialised ONCE, not on every call
                stmt_start = max(body.rfind(";", 0, d.start()), body.rfind("{", 0, d.start()), body.rfind("}", 0, d.start())) + 1
                quals = set(re.findall(r"\b(static|thread_local|extern)\b", body[stmt_start:d.start()]))
                if zero and quals:
                    ctx.bad("R2", key, (rel, 0), f"`{arr}` has {'/'.join(sorted(quals))} storage: its zero initialiser runs once per thread, not on every call, so a reaction that was inside "
                                                  f"its window on an earlier call keeps that rate when the window guard is false now ({arr}[i] is only assigned inside `if (window)`)",
                            expected=f"an automatic array zeroed on every call: realtype {arr}[..] = {{0.0}};", found=body[stmt_start:d.end()].strip())
                    continue
                if not zero:
                    ctx.bad("R2", key, (rel, 0), f"`{arr}` is declared without a zero initialiser: a reaction outside its window leaves {arr}[i] indeterminate",
                            expected=f"{arr}[..] = {{0.0}}", found=d.group(0))
                elif not same_nest:
                    ctx.bad("R2", key, (rel, 0), f"`{arr}` is zero-initialised outside the loop in which {callee} is called: values of the previous "
                                                  "iteration (another cell) survive for reactions outside their window",
                            expected="declaration inside the per-system loop body", found=d.group(0))
                else:
                    ctx.ok("R2", key, (rel, 0), f"{d.group(0)} precedes the call in the same loop nest")
    ctx.floor("R2", "Eval*Rates call sites", n, 21)


def _mentions_ode(e):
    if isinstance(e, tuple):
        if e == ("name", "ode"):
            return True
        return any(_mentions_ode(x) for x in e if isinstance(x, tuple))
    return False


_WS_FILTERS = {"stmwrap", "indent", "trim", "wordwrap", "safe", "string"}               # change white space / nothing
_LOSSY_FILTERS = {"reject", "select", "rejectattr", "selectattr", "unique", "sort", "reverse", "batch", "slice", "first", "last", "random",
                  "replace", "truncate", "lower", "upper", "title", "capitalize", "default", "d", "striptags", "urlize", "abs", "round", "int", "float"}
_ODE = ("name", "ode")
_LOOPIDX = (("attr", ("name", "loop"), "index0"), ("bin", "-", ("attr", ("name", "loop"), "index"), ("const", 1)))


def _paste(it):
    """How one loop of a rate function prints a list of ode: ("ok" | "wrong" | "unknown", list expression | None, why).  The accepted
    forms, by meaning: every entry of the list once, in order, changed by white-space filters only --
    `for x in L: {{ x | stmwrap }}`, `for i in range(L | length): {{ L[i] | .. }}`, `for x in L: {{ L[loop.index0] }}` / `L[loop.index - 1]`."""
    seq, fs = J.unfilter(it[2])
    idxvar = None
    b = match_range_len(it[2])
    if b is not None:
        seq, fs, idxvar = b, [], it[1]
    if seq[0] == "item" and seq[2][0] == "slice":
        if all(x in (None, ("const", None)) or (i_ == 0 and x == ("const", 0)) for i_, x in enumerate(seq[2][1:])):
            seq = seq[1]                       # L[:] / L[0:] is every entry of L
        else:
            return "wrong", seq[1], f"only the slice {J.show(seq[2])} of the list is pasted"
    if seq[0] == "item" and seq[1] == _ODE and seq[2][0] == "const" and isinstance(seq[2][1], str):
        seq = ("attr", _ODE, seq[2][1])        # ode["rateeqns"] is ode.rateeqns
    for f in fs:
        if f[0] in ("default", "d") and len(f[1]) <= 1 and not f[2]:
            continue                           # the list is always defined: `| default([])` changes nothing
        if f[0] in _LOSSY_FILTERS:
            return "wrong", seq, f"the list is passed through `{f[0]}` before it is pasted"
        if f[0] != "list":
            return "unknown", seq, f"the list is passed through the filter `{f[0]}`"
    if it[7] is not None:
        return "wrong", seq, f"entries are pasted only when `{J.show(it[7])}` holds"
    # (the brackets of an expanded macro call -- `{{ paste_one(assign) }}` -- print nothing: the macro's body stands in the loop body
    # with its parameters replaced by the arguments, J.propagate_sets)
    if any(x[0] not in ("out", "text", "set") and not (x[0] == "other" and isinstance(x[1], str) and x[1].startswith(("macro-begin:", "macro-end:"))) for x in it[3]):
        return "unknown", seq, "the loop body holds control items"
    outs = [x for x in it[3] if x[0] == "out" and not (x[1][0] == "const" and not str(x[1][1]).strip())]
    if len(outs) != 1:
        return "unknown", seq, f"the loop body prints {len(outs)} expressions"
    base, ofs = J.unfilter(outs[0][1])
    elem = {it[1]} if idxvar is None else set()
    elem |= {("item", seq, idxvar)} if idxvar is not None else {("item", seq, i_) for i_ in _LOOPIDX}
    if base not in elem:
        return "unknown", seq, f"the loop prints `{J.show(outs[0][1])}`, not the entry itself"
    for f in ofs:
        if f[0] in ("default", "d") and len(f[1]) <= 1 and not f[2]:
            continue                           # every entry is a defined string
        if f[0] in _LOSSY_FILTERS:
            return "wrong", seq, f"every entry is passed through `{f[0]}`, which can change the statement"
        if f[0] not in _WS_FILTERS:
            return "unknown", seq, f"every entry is passed through the filter `{f[0]}`"
    return "ok", seq, ""


def match_range_len(e):
    """L when e is range(L | length) / range(0, L | length) / range(len-like call), else None"""
    if e[0] == "call" and e[1] == ("name", "range") and not e[3] and 1 <= len(e[2]) <= 2 and (len(e[2]) == 1 or e[2][0] == ("const", 0)):
        n_ = e[2][-1]
        if n_[0] == "filter" and n_[1] in ("length", "count") and not n_[3] and not n_[4]:
            return n_[2]
    return None


def _r3(ctx):
    # (a) the rate functions paste the statements once, unfiltered
    n = 0
    for label, rel, cfg in RATE_TEMPLATES:
        ctx.saw(rel)
        # {% set %} aliases and the parameters of expanded macros are replaced by the expressions they stand for
        items = J.propagate_sets(J.flatten(ctx.tree, rel, cfg))
        sk = Skel(items)
        for fname, field in (("EvalRates", "rateeqns"), ("EvalHeatingRates", "hrateeqns"), ("EvalCoolingRates", "crateeqns")):
            key = f"{label}:{fname}:ode.{field}"
            want = ("attr", _ODE, field)
            loops = [it for it, off in sk.items_in(fname) if it[0] == "for" and _mentions_ode(it[2])]
            inside = {id(x) for lp_ in loops for x, _ in J.walk_items(lp_[3] + lp_[4])}
            loose = [it for it, off in sk.items_in(fname) if it[0] == "out" and _mentions_ode(it[1]) and id(it) not in inside]
            if not loops and not loose:
                ctx.missing("R3", key, (rel, 0), f"{fname} pastes no ode.* list, expected exactly ode.{field}")
                continue
            n += 1
            if loose or len(loops) != 1:
                # pasted without a loop (`{{ L | map(..) | join }}`) or by several loops: each statement once, in order, is not decided here
                if len(loops) > 1 and all(_paste(it)[0] == "ok" for it in loops):
                    ctx.bad("R3", key, (rel, loops[1][5]), f"{fname} pastes {len(loops)} ode.* lists, expected exactly ode.{field}")
                else:
                    ctx.unrec("R3", key, (rel, (loose or loops)[0][2 if loose else 5]), f"cannot see that {fname} prints every entry of ode.{field} exactly once: "
                              + "; ".join(J.show(x[1] if x[0] == "out" else x[2])[:60] for x in (loose + loops)))
                continue
            it = loops[0]
            verdict, seq, why = _paste(it)
            found = J.show(it[2]) + " -> " + "; ".join(J.show(o[1]) for o in it[3] if o[0] == "out")
            if verdict == "unknown":
                ctx.unrec("R3", key, (rel, it[5]), f"cannot see that {fname} prints every entry of ode.{field} exactly once: {why}")
            elif verdict != "wrong" and seq != want and not (seq[0] == "attr" and seq[1] == _ODE):
                # not another list of ode (an alias that was not resolved, an expression over the list): what is pasted is not read
                ctx.unrec("R3", key, (rel, it[5]), f"cannot see that {fname} prints every entry of ode.{field} exactly once: the loop walks {J.show(seq)[:80]}")
            elif verdict == "wrong" or seq != want:
                ctx.bad("R3", key, (rel, it[5]), f"{fname} does not output every entry of ode.{field} once, in order, unchanged: " + (why or f"the list pasted is {J.show(seq)}"),
                        expected=f"for assign in ode.{field}: {{{{ assign | stmwrap }}}}", found=found)
            else:
                ctx.ok("R3", key, (rel, it[5]), f"{fname} outputs every entry of ode.{field} once, in order, through whitespace-only filters")
    ctx.floor("R3", "rate functions", n, 9)
    # (b) no other assignment to k / kh / kc in any back-end template
    hits = 0
    rels = [r for r in sorted(ctx.tree.glob("naunet/templates/cvode/src/*.j2") + ctx.tree.glob("naunet/templates/odeint/src/*.j2"))
            if any(t in r.split("/")[-1] for t in ("fex", "jac", "rates", "ode"))]
    for rel in rels:
        for cfgm in ("dense", "sparse", "cusparse"):
            sk = Skel(J.flatten(ctx.tree, rel, {"general.method": cfgm}))
            code = sk.plain(sk.clean)
            for m in re.finditer(r"(?<![\w.>])(k|kh|kc)\s*\[[^\]]*\]\s*(?:[-+*/]?=)(?!=)", code):
                if re.search(r"\b(realtype|double|float|int)\s+$", code[:m.start()]):
                    continue   # a declaration with initialiser (R2), not an assignment
                hits += 1
                ctx.bad("R3", f"{rel.split('/')[-1]}:assignment to {m.group(1)}[]", (rel, code.count("\n", 0, m.start()) + 1),
                        f"`{m.group(0)}` assigns a rate coefficient outside the generated window-guarded statements")
    if not hits:
        ctx.ok("R3", "no-other-writer of k/kh/kc", ("naunet/templates", 0), "no template text assigns k[], kh[] or kc[] (only the generated statements do)")


def number_regex_profile(pattern: str):
    """Which exponent letters and exponent signs a number-extracting regex admits (read off re._parser's AST)."""
    import re._parser as sp
    prof = {"exp_letters": set(), "exp_sign": set(), "has_digits": False}

    def chars(node):
        op, a = node
        if op is sp.LITERAL:
            return {chr(a)}
        if op is sp.IN:
            out = set()
            for o2, a2 in a:
                if o2 is sp.LITERAL:
                    out.add(chr(a2))
                elif o2 is sp.RANGE:
                    out |= {chr(c) for c in range(a2[0], a2[1] + 1)}
                elif o2 is sp.CATEGORY and a2 is sp.CATEGORY_DIGIT:
                    out |= set("0123456789")
            return out
        return set()

    def seq(items):
        items = list(items)
        for i, node in enumerate(items):
            op, a = node
            c = chars(node)
            if c & set("0123456789"):
                prof["has_digits"] = True
            if c and c <= set("eEdD"):
                prof["exp_letters"] |= c
                # the sign that may follow
                if i + 1 < len(items):
                    nop, na = items[i + 1]
                    if nop in (sp.MAX_REPEAT, sp.MIN_REPEAT) and na[0] == 0:
                        for sub in na[2]:
                            prof["exp_sign"] |= chars(sub) & set("+-")
                    else:
                        prof["exp_sign"] |= chars(items[i + 1]) & set("+-")
            if op in (sp.MAX_REPEAT, sp.MIN_REPEAT):
                seq(a[2])
                for sub in a[2]:
                    if chars(sub) & set("0123456789"):
                        prof["has_digits"] = True
            elif op is sp.SUBPATTERN:
                seq(a[3])
            elif op is sp.BRANCH:
                for br in a[1]:
                    seq(br)
    try:
        seq(sp.parse(pattern))
    except Exception:
        return None
    return prof


def _krome_regex_extractor(ctx, pkg, fn, fl):
    """The window parser was rewritten around a number-extracting regular expression: decide the necessary condition that the
    extractor admits every exponent spelling float() and the KROME syntax admit (letters e / E / d / D, exponent sign + and -).
    The extractors are found by ROLE on the reconstructed values (valueflow): a regular expression applied (match / search /
    fullmatch / findall) to a piece of a field of the line, whose result reaches float().  A pattern that is anchored at both ends
    refuses what it does not admit (an error, no wrong window); one that is not silently cuts the number where it stops matching."""
    ci = pkg.cls("KROMEReaction")
    RE_M = ("match", "search", "fullmatch", "findall", "finditer")
    RE_ = ("global", "re")

    def compiled(node):
        """(pattern, flags text) of the AST `re.compile(<str>[, flags])`"""
        if isinstance(node, ast.Call) and ast.unparse(node.func) == "re.compile" and node.args and isinstance(node.args[0], ast.Constant) and isinstance(node.args[0].value, str):
            return node.args[0].value, " ".join(ast.unparse(a) for a in node.args[1:]) + " ".join(ast.unparse(k.value) for k in node.keywords), node.lineno
        return None

    def pat_of(x, flags):
        fl_ = " ".join(show(a) for a in flags)
        if x[0] == "const" and isinstance(x[1], str):
            return x[1], fl_, None
        if x[0] == "meth" and x[1] == RE_ and x[2] == "compile" and x[3] and x[3][0][0] == "const" and isinstance(x[3][0][1], str):
            return x[3][0][1], fl_ + " ".join(show(a) for a in x[3][1:]) + " ".join(show(v_) for _, v_ in x[4]), None
        if x[0] == "attr" and (x[1] in (("param", "self"), ("param", "cls")) or (x[1][0] == "global" and x[1][1] in pkg.classes)):
            _, node = pkg.resolve_attr("KROMEReaction" if x[1][0] == "param" else x[1][1], x[2])
            c = compiled(node) if node is not None else None
            return (c[0], c[1] + " " + fl_, c[2]) if c else None
        if x[0] == "global":
            for st in pkg.modules[KROME].body:
                if isinstance(st, ast.Assign) and len(st.targets) == 1 and isinstance(st.targets[0], ast.Name) and st.targets[0].id == x[1]:
                    c = compiled(st.value)
                    return (c[0], c[1] + " " + fl_, c[2]) if c else None
        return None

    def of_line(x):
        return any(isinstance(y, tuple) and y and y[0] in ("elem", "sub", "item") and any(z == ("param", "react_string") for z in walk(y)) for y in walk(x))
    hits, unread = {}, []
    for f in fl.facts:
        if f.value is None:
            continue
        for x in walk(simp(f.value)):
            if not (isinstance(x, tuple) and len(x) == 4 and x[0] == "call" and x[1] == ("global", "float") and len(x[2]) == 1):
                continue
            for y in walk(x[2][0]):
                if not (isinstance(y, tuple) and len(y) == 5 and y[0] == "meth" and y[2] in RE_M):
                    continue
                if y[1] == RE_:
                    if len(y[3]) < 2:
                        continue
                    pobj, subject, flags = y[3][0], y[3][1], y[3][2:] + tuple(v_ for _, v_ in y[4])
                else:
                    if not y[3]:
                        continue
                    pobj, subject, flags = y[1], y[3][0], ()
                if not of_line(subject):
                    continue
                pt = pat_of(simp(pobj), flags)
                if pt is None:
                    unread.append(show(pobj)[:60])
                    continue
                cases = {z[2] for z in walk(subject) if isinstance(z, tuple) and len(z) == 5 and z[0] == "meth" and z[2] in ("lower", "casefold", "upper") and not z[3]}
                hits.setdefault((pt[0], pt[1]), (pt[2] or f.line, y[2], cases))
    if not hits:
        ctx.unrec("R4", "KROME window parser", (KROME, fn.lineno), "the tmin/tmax branches were restructured beyond what the rule understands"
                  + (f" (a regular expression that could not be read: {unread[0]})" if unread else ""))
        return
    for (pat, flags), (line, how, cases) in hits.items():
        prof = number_regex_profile(pat)
        key = f"KROME:window number extractor {pat!r}"
        if prof is None or not prof["has_digits"]:
            ctx.unrec("R4", key, (KROME, line), "cannot read what the regular expression applied to a temperature limit admits")
            continue
        anchored = how == "fullmatch" or re.search(r"(?<!\\)(\$|\\Z)\)*$", pat) is not None
        icase = "IGNORECASE" in flags or re.search(r"\bre\.I\b", flags) is not None or "(?i)" in pat
        lowered, uppered = bool(cases & {"lower", "casefold"}), "upper" in cases
        letters = set(prof["exp_letters"])
        if icase:
            letters |= {c.swapcase() for c in letters}
        need = {"e", "d"} if lowered else ({"E", "D"} if uppered else {"e", "d", "E", "D"})
        miss_l = need - letters
        miss_s = {"+", "-"} - prof["exp_sign"]
        ok = not miss_l and not miss_s
        if not ok and anchored:
            ctx.ok("R4", key, (KROME, line), "the extractor is anchored at both ends: a spelling it does not admit is refused, not cut")
            continue
        ctx.check(ok, "R4", key, (KROME, line),
                  "the extractor admits every exponent spelling of a KROME temperature limit" if ok else
                  "the regular expression that picks the number out of a temperature limit does not admit "
                  + (f"the exponent letters {sorted(miss_l)}" if miss_l else "") + (" and " if miss_l and miss_s else "")
                  + (f"the exponent sign {sorted(miss_s)}" if miss_s else "")
                  + ": a limit such as 5.5E3 / 1.0e+01 is silently cut at the exponent (5.5 / 1.0) and the window guard is wrong",
                  expected="[-+]?digits[.digits][(e|E|d|D)[-+]?digits]", found=f"exponent letters {sorted(prof['exp_letters'])}, exponent sign {sorted(prof['exp_sign'])}"
                  + (" (subject lower-cased)" if lowered else "") + (" (case ignored)" if icase else ""))
    if all(o.outcome != "VIOLATION" for o in ctx.obs if o.rule == "R4" and "extractor" in o.key):
        ctx.unrec("R4", "KROME window parser:mapping", (KROME, fn.lineno),
                  "the restructured tmin/tmax handling (operator stripping, no-bound spellings, field -> attribute mapping) is not in a form this rule can decide")


def _record_fields(pkg, fl, v):
    """`Rec.make(line).field` -- Rec an immutable record type of the package (pymodel.records: NamedTuple), make a class method of it
    that returns `cls(<values>)` -- is the value the constructor call binds to that field (the method is read like any small helper:
    valueflow's inliner, with `cls` standing for the record type).  Everything else is left as it is."""
    recs = pkg.records()
    if not recs or not isinstance(v, tuple) or not v:
        return v
    v = tuple(_record_fields(pkg, fl, x) if isinstance(x, tuple) else x for x in v)
    if v[0] == "attr" and isinstance(v[1], tuple) and len(v[1]) == 5 and v[1][0] == "meth" and v[1][1][0] == "global" and v[1][1][1] in recs and v[2] in recs[v[1][1][1]]:
        name, fields = v[1][1][1], recs[v[1][1][1]]
        callee = pkg.classes[name].methods.get(v[1][2]) if name in pkg.classes else None
        if callee is not None and {ast.unparse(d) for d in callee.decorator_list} == {"classmethod"}:
            inl = fl._inline(callee, v[1][3], dict(v[1][4]))
            inl = simp(inl) if inl is not None else None
            if inl is not None and inl[0] == "call" and inl[1] == ("param", "cls") and not any(a[0] == "star" for a in inl[2]) and all(k != "**" for k, _ in inl[3]):
                given = dict(zip(fields, inl[2]))
                given.update({k: x for k, x in inl[3] if k in fields})
                if v[2] in given:
                    return given[v[2]]
    return v


def _windows_unconditional(ctx, pkg):
    """Every fixed-format parser stores float(<field>) into temp_min / temp_max -- no silent fallback to 'unbounded'."""
    from ..valueflow import Flow
    for cls in ("UMISTReaction", "KIDAReaction", "LEEDSReaction", "UCLCHEMReaction", "Reaction"):
        pkg.method(cls, "_parse_string")
        fn = _parser(pkg, cls)
        file = pkg.cls(cls).file
        fl = Flow(fn, file)
        for attr in ("temp_min", "temp_max"):
            st = [f for f in fl.facts if f.kind == "attrstore" and f.target == attr]
            if not st:
                # set indirectly, or by somebody the rule cannot read: a helper of the class that could not be put back, anything
                # that is handed the instance
                if any(isinstance(c, ast.Call) and (ast.unparse(c.func) in ("setattr", "vars") or (isinstance(c.func, ast.Attribute) and c.func.attr in ("update", "__setattr__"))
                                                    or (isinstance(c.func, ast.Attribute) and isinstance(c.func.value, ast.Name) and c.func.value.id in ("self", "cls") and c.func.attr not in KEEP
                                                        and pkg.resolve(cls, c.func.attr)[1] is not None)
                                                    or any(isinstance(a, ast.Name) and a.id == "self" for a in list(c.args) + [k.value for k in c.keywords])) for c in ast.walk(fn)) \
                        or any(isinstance(n, ast.Name) and n.id == "super" for n in ast.walk(fn)):
                    ctx.unrec("R4", f"{cls}:{attr} stored", (file, fn.lineno), f"{cls}._parse_string has no plain store into self.{attr} (attributes are set indirectly)")
                else:
                    ctx.bad("R4", f"{cls}:{attr} stored", (file, fn.lineno), f"{cls}._parse_string never stores {attr}")
                continue
            key = f"{cls}:{attr} = float(field)"

            def num(x):
                """a numeric literal (signed literals included), else None"""
                if x[0] == "unop" and x[1] in ("USub", "UAdd") and x[2][0] == "const" and isinstance(x[2][1], (int, float)) and not isinstance(x[2][1], bool):
                    return -x[2][1] if x[1] == "USub" else x[2][1]
                return x[1] if x[0] == "const" and isinstance(x[1], (int, float)) and not isinstance(x[1], bool) else None

            def is_field(x):
                """a piece cut from the line: an element / slice / unpacking target of (a view of) the parsed string"""
                while x[0] == "meth" and x[2] in ("strip", "lstrip", "rstrip") and not x[3]:
                    x = x[1]          # float() ignores surrounding blanks anyway
                return x[0] in ("item", "sub", "elem")

            def arms(x, conds=()):
                """[(conditions, leaf)] of a value chosen by conditions; float(a if c else b) is float(a) if c else float(b)"""
                x = simp(x)
                if x[0] in ("phi", "ifexp"):
                    return arms(x[2], conds + (x[1],)) + arms(x[3], conds + (x[1],))
                if x[0] == "call" and x[1] == ("global", "float") and len(x[2]) == 1 and not x[3] and simp(x[2][0])[0] in ("phi", "ifexp"):
                    i_ = simp(x[2][0])
                    return arms(("call", x[1], (i_[2],), ()), conds + (i_[1],)) + arms(("call", x[1], (i_[3],), ()), conds + (i_[1],))
                return [(conds, x)]

            def kind(x):
                if num(x) is not None:
                    return "const"
                if x[0] == "call" and x[1] == ("global", "float") and len(x[2]) == 1 and not x[3]:
                    i_ = simp(x[2][0])
                    return "field" if is_field(i_) else "const" if num(i_) is not None else "other"
                return "other"

            def on_content(c):
                """the condition looks at the text of the very field the store converts (it is tested before float() sees it)"""
                return any(isinstance(y, tuple) and y and y in leaf_fields for y in walk(c))
            last = st[-1]
            # every store of the attribute with the conditions that tell it from the others (guards shared by all of them -- the
            # "not a blank line" test -- say nothing about which value is stored)
            shared = set(last.guards)
            for o_ in st:
                shared &= set(o_.guards)
            lv = [(tuple(simp(g_) for g_, pol in o_.guards if (g_, pol) not in shared) + cs, x) for o_ in st for cs, x in arms(_record_fields(pkg, fl, simp(o_.value)))]
            kinds = [kind(x) for _, x in lv]
            leaf_fields = {y for _, x in lv for y in walk(x) if isinstance(y, tuple) and y and y[0] in ("item", "sub", "elem")}
            tests = [c for cs, _ in lv for c in cs]
            found_ = "; ".join(dict.fromkeys(show(x)[:60] for _, x in lv))[:140]
            if kinds == ["field"] and not tests:
                ctx.ok("R4", key, (file, last.line), f"self.{attr} is float(<the field of the record>)")
            elif any(k_ != "field" for k_ in kinds) and any(on_content(c) for c in tests):
                # the field is looked at first and something else than float(<field>) is stored when the test fails: positive evidence
                ctx.bad("R4", key, (file, last.line),
                        f"self.{attr} is not simply float(<field>): a limit the code does not like (fractional, exponent notation) silently becomes another value / 'unbounded', so the window guard is lost",
                        expected="float(<field>)", found=found_ + " chosen by " + show([c for c in tests if on_content(c)][0])[:60])
            elif kinds == ["const"] and not tests:
                # the limit of the file is ignored: a constant is stored whatever the line says
                ctx.bad("R4", key, (file, last.line), f"self.{attr} is a constant whatever the line says: the window of the file is lost", expected="float(<field>)", found=found_)
            elif "field" in kinds and all(k_ in ("field", "const") for k_ in kinds) and cls == "UCLCHEMReaction" and not any(on_content(c) for c in tests):
                # a constant on the arms chosen by something else than the text of the limit (UCLCHEM: the reaction type; WHICH
                # constants is the freeze-out rule's business)
                ctx.ok("R4", key, (file, last.line), f"self.{attr} is float(<the field of the record>) except where the reaction type overrides the window")
            else:
                ctx.unrec("R4", key, (file, last.line), f"cannot see that self.{attr} is float(<field of the record>): {found_}")


def _replace_chain(x):
    """x = base.replace(a1, b1)....replace(an, bn)  ->  (base, [(a, b), ...]); strip() links are looked through"""
    reps = []
    while x[0] == "meth" and ((x[2] == "replace" and len(x[3]) == 2 and not x[4] and all(a[0] == "const" and isinstance(a[1], str) for a in x[3])) or (x[2] == "strip" and not x[3])):
        if x[2] == "replace":
            reps.append((x[3][0][1], x[3][1][1]))
        x = x[1]
    return x, reps


def _krome_window_stores(ctx, pkg, fn):
    """The KROME window columns, decided on the reconstructed values (valueflow) -- independent of how the column chain is spelled:
    every store into self.temp_min / self.temp_max happens on a path that implies the column keyword is tmin / tmax respectively, the
    stored value is float(<the field of the same column>) after every comparison token was replaced by "" and d by e, and the path
    excludes the no-bound spellings.  -> number of stores decided, or None when the stores are not in a form this rule understands."""
    from ..valueflow import guards_satisfiable, strip_transparent
    kcls = pkg.cls("KROMEReaction")

    # the parser in its folded form: extracted helpers put back, class-level token tables written in place, static loops over them
    # (for / functools.reduce) unrolled, `key in TABLE` + setattr(self, TABLE[key], ..) spelled as the chain of plain stores
    def res(name):
        _, f = pkg.resolve("KROMEReaction", name)
        return _parser(pkg, "KROMEReaction", name) if f is not None and name.startswith("_") and not name.startswith("__") and name not in KEEP else None
    # (small pure module-level helpers called by their bare name are read as the expressions they return)
    fl = Flow(_parser(pkg, "KROMEReaction"), KROME, resolver=res, func_resolver=lambda name: pkg.module_function(KROME, name), raise_arms=True)
    want_ops = {"<", ">", ".LE.", ".GE.", ".LT.", ".GT."}
    want_none = {"N", "NONE", "N/A", "NO", ""}
    # (a float() inside try/except may leave the no-bound words to the handler; helpers still called through self / setattr with a
    # computed name may store what the rule does not see)
    has_try = any(isinstance(n, ast.Try) for n in ast.walk(fl.func))
    hidden = any(isinstance(c, ast.Call) and ((isinstance(c.func, ast.Name) and c.func.id == "setattr")
                                              or (isinstance(c.func, ast.Attribute) and isinstance(c.func.value, ast.Name) and c.func.value.id in ("self", "cls")
                                                  and c.func.attr not in KEEP and pkg.resolve("KROMEReaction", c.func.attr)[1] is not None and res(c.func.attr) is None))
                 for c in ast.walk(fl.func))
    ctx.__dict__["_c06_krome_flow"] = fl
    stores = [f for f in fl.facts if f.kind == "attrstore" and f.target in ("temp_min", "temp_max") and f.extra.get("obj") == ("param", "self")]
    if not stores:
        return None
    SELFP = ("param", "self")
    # a store whose value is chosen by a condition (`self.temp_min = self._limit(value, self.temp_min)` with a helper that hands the
    # default back for the no-bound spellings; `self.temp_min = float(..) if .. else self.temp_min`) is one store per leaf, on the path
    # that chooses the leaf; storing the attribute's own current value is no store at all
    import dataclasses
    from ..valueflow import split_guard as _split

    def _leaves(v, gs):
        v = simp(v)
        if v[0] in ("phi", "ifexp") and len(v) == 4:
            return _leaves(v[2], gs + tuple(_split((simp(v[1]), True)))) + _leaves(v[3], gs + tuple(_split((simp(v[1]), False))))
        return [(v, gs)]
    split_stores = []
    for f in stores:
        for v_, gs_ in _leaves(f.value, ()):
            if gs_ and v_ == ("attr", SELFP, f.target):
                continue
            split_stores.append(dataclasses.replace(f, value=v_, guards=tuple(f.guards) + gs_) if gs_ else f)
    stores = split_stores
    decided = 0
    seen = set()
    for f in stores:
        which = "tmin" if f.target == "temp_min" else "tmax"
        other = "tmax" if which == "tmin" else "tmin"
        W = (KROME, f.line)
        # -- the column pairing, by role: the KEYWORD is what the guards of the store compare with "tmin" / "tmax"; the FIELD is the element
        #    of the split line at the same position -- `for keyword, field in zip(keywords, fields)`, `keywords[i]` / `fields[i]`,
        #    `for i, keyword in enumerate(keywords): fields[i]`
        def pos_of(x):
            """(sequence, position token) of an element of a sequence"""
            x = simp(x)
            if x[0] == "elem" and len(x) == 3:
                return strip_transparent(simp(x[1])), ("loop", x[2])
            if x[0] == "sub" and x[2][0] != "slice":
                i_ = x[2]
                return strip_transparent(simp(x[1])), (("loop", i_[2]) if i_[0] in ("idx", "elem") and len(i_) == 3 else i_)
            return None
        key = None
        for g_, _ in f.guards:
            for x in walk(simp(g_)):
                if isinstance(x, tuple) and len(x) == 3 and x[0] == "cmp" and len(x[1]) == 1 and x[1][0] in ("Eq", "In") and len(x[2]) == 2:
                    lits = [x[2][1][1]] if x[2][1][0] == "const" else [e[1] for e in x[2][1][1]] if x[2][1][0] in ("list", "tuple", "set") and all(e[0] == "const" for e in x[2][1][1]) else []
                    if ("tmin" in lits or "tmax" in lits) and key is None:
                        key = x[2][0]
        kp = pos_of(key) if key is not None else None
        if kp is None or not any(isinstance(x, tuple) and len(x) == 3 and x[0] == "attr" and x[1] == SELFP and "format" in x[2] for x in walk(kp[0])):
            ctx.unrec("R4", f"KROME:{which}:column loop", W, "cannot find the format keyword the store is guarded by (an element of the format's keyword list compared with 'tmin' / 'tmax')")
            continue
        # the field at the keyword's position: the one element of a sequence cut from the line that the stored value / the guards read
        cands = {x for src in [f.value] + [g_ for g_, _ in f.guards] for x in walk(simp(src)) if isinstance(x, tuple) and x and x[0] in ("elem", "sub") and pos_of(x) is not None
                 and any(y == ("param", "react_string") for y in walk(pos_of(x)[0])) and not any(isinstance(y, tuple) and y[:2] == ("attr", SELFP) for y in walk(pos_of(x)[0]))
                 and any(isinstance(y, tuple) and len(y) == 5 and y[0] == "meth" and y[2] == "split" for y in walk(pos_of(x)[0]))}
        paired = [x for x in cands if pos_of(x)[1] == kp[1]]
        if len(paired) != 1:
            def shifted(pos):
                """the position is the keyword's own position plus / minus a non-zero constant: a field of ANOTHER column, understood"""
                if kp[1][0] != "loop" or not (isinstance(pos, tuple) and len(pos) == 4 and pos[0] == "binop" and pos[1] in ("Add", "Sub")):
                    return False
                a_, b_ = (pos[2], pos[3]) if pos[3][0] == "const" else (pos[3], pos[2]) if pos[1] == "Add" else (None, None)
                return a_ is not None and b_[0] == "const" and isinstance(b_[1], int) and b_[1] != 0 and a_[0] in ("idx", "elem") and len(a_) == 3 and a_[2] == kp[1][1]
            if cands and not paired and all(shifted(pos_of(x)[1]) for x in cands):
                ctx.bad("R4", f"KROME:{which}:field", W, f"self.{f.target} is decoded from {show(sorted(cands, key=repr)[0])[:80]}, which is not the field at the position of the keyword {which!r}",
                        found=show(sorted(cands, key=repr)[0])[:100])
            else:
                ctx.unrec("R4", f"KROME:{which}:column loop", W, "cannot pair the format keyword with one field of the line (expected zip(<keywords>, <fields>) or the same index into both)")
            continue
        val = paired[0]
        # -- guards: membership in a literal is the disjunction of equalities; `helper(..) is None` of a helper returning None on one arm only is that arm's condition
        def lit_set(x):
            return [e[1] for e in x[1]] if x[0] in ("list", "tuple", "set") and all(e[0] == "const" for e in x[1]) else None

        def rewrite(c):
            c = simp(c)
            if c[0] == "cmp" and len(c[1]) == 1 and c[1][0] == "In" and c[2][0] == key and lit_set(c[2][1]) is not None:
                alts = tuple(("cmp", ("Eq",), (key, ("const", k_))) for k_ in lit_set(c[2][1]))
                return alts[0] if len(alts) == 1 else ("bool", "Or", alts)
            if c[0] == "cmp" and len(c[1]) == 1 and c[1][0] in ("Is", "Eq") and c[2][1] == ("const", None) and c[2][0][0] == "phi":
                ph = c[2][0]
                if ph[2] == ("const", None) and ph[3][0] == "call":
                    return rewrite(ph[1])
                if ph[3] == ("const", None) and ph[2][0] == "call":
                    return ("unop", "Not", rewrite(ph[1]))
            if c[0] == "bool":
                return ("bool", c[1], tuple(rewrite(x) for x in c[2]))
            if c[0] == "unop" and c[1] == "Not":
                return ("unop", "Not", rewrite(c[2]))
            return c
        from ..valueflow import split_guard
        G = [g2 for c, pol in f.guards for g2 in split_guard((rewrite(c), pol))]
        if not guards_satisfiable(G):
            continue                # a leaf of a conditional value on a path its own guards exclude (`x = f(v); if x is not None: self.a = x`)
        keyatoms = sorted({x for c, _ in G for x in walk(c) if isinstance(x, tuple) and len(x) == 3 and x[0] == "cmp" and x[1] == ("Eq",) and x[2][0] == key and x[2][1][0] == "const"}, key=repr)
        excl = [(("bool", "And", (a, b)), False) for i, a in enumerate(keyatoms) for b in keyatoms[i + 1:]]
        KG = [(c, pol) for c, pol in G if any(x in keyatoms for x in walk(c))]
        is_ = lambda k_: ("cmp", ("Eq",), (key, ("const", k_)))
        implies = lambda k_: not guards_satisfiable(KG + excl, [(is_(k_), False)])
        kk = f"KROME:{which}:target"
        if implies(which):
            ctx.ok("R4", kk, W, f"self.{f.target} is stored only where the column keyword is {which!r}")
        elif implies(other):
            ctx.bad("R4", kk, W, f"the {other} field feeds self.{f.target}: the window guard is built from the wrong limit", expected=f"keyword == {which!r}", found=f"keyword == {other!r}")
            continue
        else:
            ctx.unrec("R4", kk, W, f"cannot decide from the guards of the store which column feeds self.{f.target}: " + "; ".join(f"{show(c)[:60]}={pol}" for c, pol in KG)[:200])
            continue
        # -- the stored value on this path
        assume = {c: pol for c, pol in G}
        v = simp(peval(simp(f.value), assume))
        if not (v[0] == "call" and v[1] == ("global", "float") and len(v[2]) == 1 and not v[3]):
            return None
        base, reps = _replace_chain(v[2][0])
        if base != val:
            # another field of the line (understood, wrong) / anything else (a helper that could not be read, a value carried
            # around a loop ...: not understood)
            if base not in cands or any(isinstance(x, tuple) and x and x[0] in ("carried", "after", "acc", "unknown") for x in walk(base)):
                return None
            if (pos_of(base) is None or base not in cands) and any(x == val for x in walk(base)) and any(isinstance(x, tuple) and x and x[0] == "global" and x[1] == "re" for x in walk(base)):
                return None            # the paired field, decoded through a regular expression: the number extractor is judged (_krome_regex_extractor)
            if pos_of(base) is None or base not in cands:
                # not simply ANOTHER field of the line (a call of a helper this rule does not read, ..): where the text comes from is not understood
                ctx.unrec("R4", f"KROME:{which}:field", W, f"cannot see which field of the line self.{f.target} is decoded from: {show(base)[:100]}")
                continue
            ctx.bad("R4", f"KROME:{which}:field", W, f"self.{f.target} is decoded from {show(base)[:80]}, not from the field paired with the keyword {which!r}", found=show(base)[:100])
            continue
        decided += 1
        seen.add(which)
        ops = {a for a, b in reps if b == ""}
        ctx.check(want_ops <= ops, "R4", f"KROME:{which}:operator tokens", W,
                  "every comparison token of the KROME syntax is stripped before float()", expected=str(sorted(want_ops)), found=str(sorted(ops)))
        ctx.check(any(a in ("d", "D") and b in ("e", "E") for a, b in reps), "R4", f"KROME:{which}:d-exponent", W, "Fortran d-exponents are converted before float()",
                  found=str([r_ for r_ in reps if r_[1] != ""]))
        # -- no-bound spellings: the path excludes <field>.upper() in {N, NONE, N/A, NO, ""}
        nones, seen_test, other_tests = set(), False, []
        for c, pol in G:
            if c[0] == "cmp" and len(c[1]) == 1 and c[1][0] == "In" and lit_set(c[2][1]) is not None and not pol:
                left, _ = _replace_chain(c[2][0])
                if left == ("meth", val, "upper", (), ()) or (left[0] == "meth" and left[2] == "upper" and _replace_chain(left[1])[0] == val):
                    nones |= set(lit_set(c[2][1]))
                    seen_test = True
                    continue
                if left[0] == "meth" and left[2] in ("lower", "casefold") and not left[3] and _replace_chain(left[1])[0] == val \
                        and all(isinstance(x, str) and x == x.lower() for x in lit_set(c[2][1])):
                    nones |= {x.upper() for x in lit_set(c[2][1])}       # the same test on the lower-cased field
                    seen_test = True
                    continue
            if c[0] == "cmp" and c[1] == ("Eq",) and c[2][0] == val and c[2][1] == ("const", "") and not pol:
                nones.add("")
                continue
            if any(x == val for x in walk(c)) and not any(x in keyatoms for x in walk(c)):
                other_tests.append(c)
        kk = f"KROME:{which}:no-bound spellings"
        if want_none <= nones:
            ctx.ok("R4", kk, W, "N / NONE / N/A / NO / empty keep the default (unbounded)")
        elif (seen_test or not other_tests) and not has_try:
            ctx.bad("R4", kk, W, "N / NONE / N/A / NO / empty must keep the default (unbounded): a spelling that is not excluded reaches float()", expected=str(sorted(want_none)), found=str(sorted(nones)))
        else:
            ctx.unrec("R4", kk, W, "the no-bound spellings are tested in a way this rule cannot decide: " + "; ".join(show(c)[:60] for c in other_tests)[:160])
    if decided:
        for which in ("tmin", "tmax"):
            if which not in seen and not any(o.rule == "R4" and o.key.startswith(f"KROME:{which}:") for o in ctx.obs):
                attr_ = "temp_" + which[1:]
                elsewhere = any((isinstance(n, ast.Attribute) and n.attr == attr_ and isinstance(n.ctx, ast.Store)) or (isinstance(n, ast.Constant) and n.value == attr_) for n in ast.walk(fl.func))
                if hidden or elsewhere:
                    ctx.unrec("R4", f"KROME:{which}:target", (KROME, fn.lineno), f"no plain store of the {which} column is visible (attributes are also set indirectly)")
                    continue
                ctx.bad("R4", f"KROME:{which}:target", (KROME, fn.lineno), f"the {which} column is never stored into self.temp_{which[1:]}")
    return decided


def _r4(ctx):
    pkg = package(ctx.tree)
    _windows_unconditional(ctx, pkg)
    fn = pkg.method("KROMEReaction", "_parse_string")
    ctx.saw(KROME, "KROMEReaction._parse_string")
    found = _krome_window_stores(ctx, pkg, fn)
    if found is None:
        # no plain store / not float(<replace chain over the field>): a number extractor (regular expression) or something else
        _krome_regex_extractor(ctx, pkg, fn, ctx.__dict__["_c06_krome_flow"])
        return
    ctx.floor("R4", "KROME window stores", found, 2, (KROME, fn.lineno))
    # defaults
    init = pkg.method("Reaction", "__init__")
    names = [a.arg for a in init.args.posonlyargs + init.args.args]
    defs = dict(zip(names[len(names) - len(init.args.defaults):], init.args.defaults))
    defs.update({a.arg: d for a, d in zip(init.args.kwonlyargs, init.args.kw_defaults) if d is not None})
    RFILE_ = pkg.cls("Reaction").file
    for a in ("temp_min", "temp_max"):
        node = defs.get(a)
        # a default spelled with a constant of the module / of the class (UNBOUNDED = -1.0) is that constant
        for _ in range(3):
            if isinstance(node, ast.Name):
                node = next((st.value for st in pkg.modules[RFILE_].body if isinstance(st, ast.Assign) and len(st.targets) == 1 and isinstance(st.targets[0], ast.Name)
                             and st.targets[0].id == node.id), None) \
                    if sum(1 for n_ in ast.walk(pkg.modules[RFILE_]) if isinstance(n_, ast.Name) and isinstance(n_.ctx, (ast.Store, ast.Del)) and n_.id == node.id) == 1 else None
            elif isinstance(node, ast.Attribute) and isinstance(node.value, ast.Name) and node.value.id in ("Reaction", "self", "cls"):
                node = pkg.resolve_attr("Reaction", node.attr)[1]
        try:
            v = ast.literal_eval(node)
        except Exception:
            v = None
        if not isinstance(v, (int, float)) or isinstance(v, bool):
            # (None as default, a default filled in by the body, a value computed elsewhere: not read here)
            ctx.unrec("R4", f"Reaction.__init__:{a} default", (RFILE_, init.lineno), f"cannot read the default of `{a}` in Reaction.__init__ as a number: "
                      + (ast.unparse(defs[a])[:60] if a in defs else "no such parameter with a default"))
            continue
        ctx.check(v <= 0, "R4", f"Reaction.__init__:{a} default", (RFILE_, init.lineno),
                  "a reaction without window carries a non-positive bound (= unbounded)", found=repr(v))
    _uclchem_freeze(ctx, pkg)


def _uclchem_freeze(ctx, pkg):
    """UCLCHEM freeze-out reactions act below 30 K only: on the paths where the reaction type is UCLCHEM_FR the stored window is
    (0, 30), whatever the arrangement (the fields overwritten before float(), a conditional expression, an if/else around the
    stores).  Decided by partial evaluation of the stored values under `reaction_type == UCLCHEM_FR`."""
    pkg.method("UCLCHEMReaction", "_parse_string")
    ufn = _parser(pkg, "UCLCHEMReaction")
    ctx.saw(UCL, "UCLCHEMReaction._parse_string")
    ufl = Flow(ufn, UCL)
    W = (UCL, ufn.lineno)

    def is_fr(c):
        if not (isinstance(c, tuple) and len(c) == 3 and c[0] == "cmp" and c[1] in (("Eq",), ("Is",)) and len(c[2]) == 2):
            return False
        l, r = show(c[2][0]), show(c[2][1])
        return ("reaction_type" in l and "UCLCHEM_FR" in r) or ("reaction_type" in r and "UCLCHEM_FR" in l)
    stores = [f for f in ufl.facts if f.kind == "attrstore" and f.target in ("temp_min", "temp_max") and f.extra.get("obj") == ("param", "self")]
    atoms = set()
    for f in stores:
        atoms |= {x for x in walk(simp(f.value)) if is_fr(x)}
        atoms |= {x for g, _ in f.guards for x in walk(simp(g)) if is_fr(x)}
    got, unread = {}, []
    for attr in ("temp_min", "temp_max"):
        live = [f for f in stores if f.target == attr and not any(is_fr(simp(g)) and not pol for g, pol in f.guards)]      # paths compatible with FR
        if not live:
            unread.append(f"no store into self.{attr} on the freeze-out path")
            continue
        v = simp(peval(simp(live[-1].value), {a: True for a in atoms}))
        if v[0] == "call" and v[1] == ("global", "float") and len(v[2]) == 1 and not v[3]:
            v = v[2][0]
        if v[0] == "const" and isinstance(v[1], (int, float)) and not isinstance(v[1], bool):
            got[attr] = v[1]
        else:
            unread.append(f"self.{attr} = {show(v)[:60]}")
    elsewhere = [m_ for m_, node in pkg.cls("UCLCHEMReaction").methods.items() if m_ != "_parse_string" and pkg.resolve("UCLCHEMReaction", "_parse_string")[0] == "UCLCHEMReaction"
                 and any(isinstance(n, ast.Attribute) and isinstance(n.ctx, ast.Store) and n.attr in ("temp_min", "temp_max") for n in ast.walk(node))]
    if not atoms and stores and elsewhere:
        ctx.unrec("R4", "UCLCHEM:FREEZE window", W, f"the window is also stored outside _parse_string ({', '.join(elsewhere)}): where freeze-out reactions get (0, 30) is not decided here")
    elif not atoms and len(stores) == 2 and all(simp(f.value)[0] == "call" and simp(f.value)[1] == ("global", "float") for f in stores) \
            and not any(isinstance(x, tuple) and x and x[0] in ("phi", "ifexp", "carried", "after", "acc", "unknown") for f in stores for x in walk(simp(f.value))) \
            and len({tuple(f.guards) for f in stores}) == 1:
        # understood and wrong: each bound stored once, unconditionally, as float(<field of the line>) -- nothing chooses (0, 30)
        ctx.bad("R4", "UCLCHEM:FREEZE window", W, "no store of the temperature window depends on the reaction type being UCLCHEM_FR: freeze-out reactions keep the window of the file "
                                                  "instead of (0, 30)", expected="lt, ut = 0, 30 for UCLCHEM_FR", found="; ".join(show(simp(f.value))[:40] for f in stores))
    elif unread or not atoms:
        ctx.unrec("R4", "UCLCHEM:FREEZE window", W, "cannot read the window stored for freeze-out reactions: " + ("; ".join(unread) or "no test of the reaction type"))
    else:
        ok = got == {"temp_min": 0, "temp_max": 30}
        ctx.check(ok, "R4", "UCLCHEM:FREEZE window", W, "freeze-out reactions get the window (0, 30) before the bounds are stored", expected="(0, 30)", found=str((got.get("temp_min"), got.get("temp_max"))))


T = FILE
FEX = "naunet/templates/cvode/src/naunet_fex.cpp.j2"
JAC = "naunet/templates/cvode/src/naunet_jac.cpp.j2"
RATES = "naunet/templates/cvode/src/naunet_rates.cpp.j2"
MUTANTS = [
    {"name": "ode-skips-empty-window", "file": "naunet/templateloader.py", "old": "            rspecidx = [species.index(r) for r in react.reactants]\n", "new": "            if react.temp_min > 0.0 and react.temp_max <= react.temp_min:\n                continue\n            rspecidx = [species.index(r) for r in react.reactants]\n", "rules": ["R6"]},
    {"name": "default-duplicates-by-hash", "file": "naunet/network.py", "old": "        check_list = reactions\n", "new": "        check_list = [hash(r) for r in reactions]\n", "rules": ["R5"]},
    {"name": "lower-strict", "file": T, "old": 'f"Tgas>={r.temp_min}"', "new": 'f"Tgas>{r.temp_min}"', "rules": ["R1"]},
    {"name": "upper-inclusive", "file": T, "old": 'f"Tgas<{r.temp_max}"', "new": 'f"Tgas<={r.temp_max}"', "rules": ["R1"]},
    {"name": "presence-ge-zero", "file": T, "old": "if r.temp_max > 0 else", "new": "if r.temp_max >= 0 else", "rules": ["R1"]},
    {"name": "zip-swapped", "file": T, "old": "for lt, ut in zip(ltranges, utranges)", "new": "for lt, ut in zip(utranges, ltranges)", "rules": ["R1"]},
    {"name": "join-simplified-drops-lower", "file": T, "old": '"".join([lt, " && " if lt and ut else "", ut])', "new": '" && ".join([lt, ut]) if lt and ut else ut', "rules": ["R1"]},
    {"name": "rates-reversed", "file": T, "old": "rateexprs = [reac.rateexpr() for reac in reactions]", "new": "rateexprs = [reac.rateexpr() for reac in reversed(reactions)]", "rules": ["R1"]},
    {"name": "guard-other-reaction", "file": T, "old": 'ltranges = [f"Tgas>={r.temp_min}" if r.temp_min > 0 else "" for r in reactions]', "new": 'ltranges = [f"Tgas>={r.temp_min}" if r.temp_min > 0 else "" for r in sorted(reactions, key=lambda x: x.temp_min)]', "rules": ["R1"]},
    {"name": "fex-k-static", "file": FEX, "old": "    realtype k[NREACTIONS] = {0.0};\n    EvalRates(k, y, u_data);", "new": "    static realtype k[NREACTIONS] = {0.0};\n    EvalRates(k, y, u_data);", "rules": ["R2"]},
    {"name": "sparse-jac-k-uninitialised", "file": JAC, "old": "    realtype k[NREACTIONS] = {0.0};\n    EvalRates(k, y, u_data);\n\n#if NHEATPROCS\n    realtype kh[NHEATPROCS] = {0.0};\n    EvalHeatingRates(kh, y, u_data);\n#endif\n\n#if NCOOLPROCS\n    realtype kc[NCOOLPROCS] = {0.0};\n    EvalCoolingRates(kc, y, u_data);\n#endif\n\n    // clang-format off\n    // number of non-zero",
     "new": "    realtype k[NREACTIONS];\n    EvalRates(k, y, u_data);\n\n#if NHEATPROCS\n    realtype kh[NHEATPROCS] = {0.0};\n    EvalHeatingRates(kh, y, u_data);\n#endif\n\n#if NCOOLPROCS\n    realtype kc[NCOOLPROCS] = {0.0};\n    EvalCoolingRates(kc, y, u_data);\n#endif\n\n    // clang-format off\n    // number of non-zero", "rules": ["R2"]},
    {"name": "kernel-k-hoisted", "edits": [
        {"file": FEX, "old": "        realtype k[NREACTIONS] = {0.0};\n        EvalRates(k, y_cur, udata);", "new": "        EvalRates(k, y_cur, udata);"},
        {"file": FEX, "old": "    int gs   = blockDim.x * gridDim.x;\n\n    for (int cur = tidx; cur < nsystem; cur += gs) {\n        int yistart            = cur * NEQUATIONS;\n        realtype *y_cur        = y + yistart;\n        NaunetData *udata",
         "new": "    int gs   = blockDim.x * gridDim.x;\n    realtype k[NREACTIONS] = {0.0};\n\n    for (int cur = tidx; cur < nsystem; cur += gs) {\n        int yistart            = cur * NEQUATIONS;\n        realtype *y_cur        = y + yistart;\n        NaunetData *udata"}], "rules": ["R2"]},
    {"name": "rates-sliced", "file": RATES, "old": "{% for assign in ode.rateeqns -%}", "new": "{% for assign in ode.rateeqns[:-1] -%}", "rules": ["R3"]},
    {"name": "template-floors-k", "file": RATES, "old": "    // clang-format on\n\n    return NAUNET_SUCCESS;\n}\n\n// clang-format off\n{% if general.device == \"gpu\" -%} __device__ {% endif -%}\nint EvalHeatingRates",
     "new": "    // clang-format on\n    for (int i = 0; i < NREACTIONS; i++) k[i] = fmax(k[i], 1e-99);\n\n    return NAUNET_SUCCESS;\n}\n\n// clang-format off\n{% if general.device == \"gpu\" -%} __device__ {% endif -%}\nint EvalHeatingRates", "rules": ["R3"]},
    {"name": "krome-tmax-feeds-tmin", "file": KROME, "old": "                        self.temp_max = float(value)", "new": "                        self.temp_min = float(value)", "rules": ["R4"]},
    {"name": "krome-le-not-stripped", "file": KROME, "old": 'for opstr in ["<", ">", ".LE.", ".GE.", ".LT.", ".GT."]:\n                            value = value.replace(opstr, "")\n                        value = value.replace("d", "e")\n                        self.temp_max', "new": 'for opstr in ["<", ">", ".GE.", ".LT.", ".GT."]:\n                            value = value.replace(opstr, "")\n                        value = value.replace("d", "e")\n                        self.temp_max', "rules": ["R4"]},
    {"name": "uclchem-freeze-window", "file": UCL, "old": "lt, ut = 0, 30", "new": "lt, ut = 0, 0", "rules": ["R4"]},
]
BENIGN = [
    {"name": "rename-comprehension-var", "file": T, "old": 'ltranges = [f"Tgas>={r.temp_min}" if r.temp_min > 0 else "" for r in reactions]', "new": 'ltranges = [f"Tgas>={x.temp_min}" if x.temp_min > 0 else "" for x in reactions]'},
    {"name": "concat-guard", "file": T, "old": '"".join([lt, " && " if lt and ut else "", ut])', "new": 'lt + (" && " if lt and ut else "") + ut'},
]
_STMT_COMP = (
    '        rateassign = [\n            "\\n".join(\n                [\n                    f"if ({trange}) {{",\n                    f"{rate_sym}[{ridx}] = {rateexpr};",\n'
    '                    f"}}",\n                ]\n            )\n            if trange\n            else f"{rate_sym}[{ridx}] = {rateexpr};"\n'
    '            for ridx, (trange, rateexpr) in enumerate(zip(tranges, rateexprs))\n        ]\n')
_STMT_LOOP = (
    '        rateassign = []\n        for ridx, (trange, rateexpr) in enumerate(zip(tranges, rateexprs)):\n            assign = f"{rate_sym}[{ridx}] = {rateexpr};"\n'
    '            if trange:\n                assign = "if (" + trange + ") {\\n" + assign + "\\n}"\n            rateassign.append(assign)\n')
_LT = 'ltranges = [f"Tgas>={r.temp_min}" if r.temp_min > 0 else "" for r in reactions]'
_UT = 'utranges = [f"Tgas<{r.temp_max}" if r.temp_max > 0 else "" for r in reactions]'
MUTANTS += [
    # the statement list written as a loop: the same defects are still seen
    {"name": "loop-form-upper-inclusive", "edits": [{"file": T, "old": _STMT_COMP, "new": _STMT_LOOP}, {"file": T, "old": 'f"Tgas<{r.temp_max}"', "new": 'f"Tgas<={r.temp_max}"'}], "rules": ["R1"]},
    {"name": "loop-form-guard-not-enclosing", "edits": [{"file": T, "old": _STMT_COMP, "new": _STMT_LOOP.replace('"if (" + trange + ") {\\n" + assign + "\\n}"', '"if (" + trange + ") {\\n}\\n" + assign')}], "rules": ["R1"]},
    {"name": "limits-helper-other-bound", "edits": [
        {"file": T, "old": "    def _assign_rates(\n", "new": "    @staticmethod\n    def _limits(reactions, bound, rel):\n        return [f\"Tgas{rel}{getattr(x, bound)}\" if getattr(x, bound) > 0 else \"\" for x in reactions]\n\n    def _assign_rates(\n"},
        {"file": T, "old": _LT, "new": 'ltranges = self._limits(reactions, "temp_max", ">=")'}], "rules": ["R1"]},
]
BENIGN += [
    {"name": "statements-built-by-loop", "file": T, "old": _STMT_COMP, "new": _STMT_LOOP},
    {"name": "limits-by-helper-getattr", "edits": [
        {"file": T, "old": "    def _assign_rates(\n", "new": "    @staticmethod\n    def _limits(reactions, bound, rel):\n        return [f\"Tgas{rel}{getattr(x, bound)}\" if getattr(x, bound) > 0 else \"\" for x in reactions]\n\n    def _assign_rates(\n"},
        {"file": T, "old": _LT, "new": 'ltranges = self._limits(reactions, "temp_min", ">=")'},
        {"file": T, "old": _UT, "new": 'utranges = self._limits(reactions, "temp_max", "<")'}]},
    {"name": "guard-joined-through-filter", "file": T, "old": '"".join([lt, " && " if lt and ut else "", ut])\n            for lt, ut in zip(ltranges, utranges)', "new": '" && ".join(filter(None, pair))\n            for pair in zip(ltranges, utranges)'},
]
_K_NONE = 'if value.upper() not in ["N", "NONE", "N/A", "NO", ""]:'
_K_OPS = 'for opstr in ["<", ">", ".LE.", ".GE.", ".LT.", ".GT."]:'
_K_CLS = '    def _parse_string(self, react_string) -> None:\n        self.source = "krome"\n'


def _k_consts(nolimit, ops):
    return [{"file": KROME, "old": _K_CLS, "new": f"    _nolimit = {nolimit}\n    _ops = {ops}\n\n" + _K_CLS},
            {"file": KROME, "old": _K_NONE, "new": "if value.upper() not in self._nolimit:", "count": 2},
            {"file": KROME, "old": _K_OPS, "new": "for opstr in self._ops:", "count": 2}]


_K_ARMS_OLD = ('                elif key == "tmin":\n                    ' + _K_NONE + '\n                        ' + _K_OPS + '\n                            value = value.replace(opstr, "")\n'
               '                        value = value.replace("d", "e")\n                        self.temp_min = float(value)\n'
               '                elif key == "tmax":\n                    ' + _K_NONE + '\n                        ' + _K_OPS + '\n                            value = value.replace(opstr, "")\n'
               '                        value = value.replace("d", "e")\n                        self.temp_max = float(value)\n')


def _k_merged(first, second):
    return ('                elif key == "tmin" or key == "tmax":\n                    if value.upper() in ["N", "NONE", "N/A", "NO", ""]:\n                        continue\n'
            '                    ' + _K_OPS + '\n                        value = value.replace(opstr, "")\n                    bound = float(value.replace("d", "e"))\n'
            f'                    if key == "tmin":\n                        self.{first} = bound\n                    else:\n                        self.{second} = bound\n')


MUTANTS += [
    {"name": "krome-class-constant-lacks-n/a", "edits": _k_consts('("N", "NONE", "NO", "")', '("<", ">", ".LE.", ".GE.", ".LT.", ".GT.")'), "rules": ["R4"]},
    {"name": "krome-class-constant-lacks-.GE.", "edits": _k_consts('("N", "NONE", "N/A", "NO", "")', '("<", ">", ".LE.", ".LT.", ".GT.")'), "rules": ["R4"]},
    {"name": "krome-merged-arm-swapped", "file": KROME, "old": _K_ARMS_OLD, "new": _k_merged("temp_max", "temp_min"), "rules": ["R4"]},
    {"name": "krome-d-exponent-dropped", "file": KROME, "old": '                        value = value.replace("d", "e")\n                        self.temp_min', "new": '                        self.temp_min', "rules": ["R4"]},
]
BENIGN += [
    {"name": "krome-window-tokens-as-class-constants", "edits": _k_consts('("N", "NONE", "N/A", "NO", "")', '("<", ">", ".LE.", ".GE.", ".LT.", ".GT.")')},
    {"name": "krome-window-arms-merged", "file": KROME, "old": _K_ARMS_OLD, "new": _k_merged("temp_min", "temp_max")},
]
_RA = "        rateassign = [\n"
MUTANTS += [
    {"name": "pairing-filtered-before-enumerate", "edits": [
        {"file": T, "old": _RA, "new": '        assigned = [(tr, expr) for tr, expr in zip(tranges, rateexprs) if expr != "0.0"]\n' + _RA},
        {"file": T, "old": "in enumerate(zip(tranges, rateexprs))", "new": "in enumerate(assigned)"}], "rules": ["R1"]},
    {"name": "rates-overwritten-in-place", "file": T, "old": _RA, "new": '        first_use = {}\n        for ridx, rateexpr in enumerate(rateexprs):\n            prev = first_use.setdefault(rateexpr, ridx)\n'
                                                                        '            if prev != ridx:\n                rateexprs[ridx] = f"{rate_sym}[{prev}]"\n' + _RA, "rules": ["R1"]},
    {"name": "rates-wrapped-by-rewriter", "file": T, "old": _RA, "new": '        rateexprs = [x.replace("pow(", "powf(") for x in rateexprs]\n' + _RA, "rules": ["R1"]},
    {"name": "rates-shared-by-loop-helper", "edits": [
        {"file": T, "old": "    def _assign_rates(\n", "new": '    @staticmethod\n    def _share(exprs, symbol):\n        first = {}\n        shared = []\n        for idx, expr in enumerate(exprs):\n'
                                                             '            ref = first.setdefault(expr, idx)\n            shared.append(f"{symbol}[{ref}]" if ref != idx else expr)\n        return shared\n\n    def _assign_rates(\n'},
        {"file": T, "old": _RA, "new": "        rateexprs = self._share(rateexprs, rate_sym)\n" + _RA}], "rules": ["R1"]},
]
# ---- wave 2: table-driven spellings (class-level key -> attribute tables, setattr, functools.reduce), helper pipelines
_K_TABLE_CLS = ('    _limit_attributes = {"tmin": "temp_min", "tmax": "temp_max"}\n    _no_limit = ("N", "NONE", "N/A", "NO", "")\n'
                '    _limit_operators = ("<", ">", ".LE.", ".GE.", ".LT.", ".GT.")\n\n' + _K_CLS)


def _k_table_arm(table="self._limit_attributes", ops="self._limit_operators", convert='value = value.replace("d", "e")\n', pick="key"):
    return ('                elif key in ' + table + ':\n                    if value.upper() in self._no_limit:\n                        continue\n'
            '                    value = reduce(lambda text, opstr: text.replace(opstr, ""), ' + ops + ', value)\n'
            '                    ' + convert +
            '                    setattr(self, ' + table + '[' + pick + '], float(value))\n')


def _k_table(cls=_K_TABLE_CLS, **kw):
    return [{"file": KROME, "old": "import re\n", "new": "import re\nfrom functools import reduce\n"}, {"file": KROME, "old": _K_CLS, "new": cls}, {"file": KROME, "old": _K_ARMS_OLD, "new": _k_table_arm(**kw)}]


_U_FREEZE_OLD = ('            if self.reaction_type == self.ReactionType.UCLCHEM_FR:\n                lt, ut = 0, 30\n\n            self.alpha = float(a)\n            self.beta = float(b)\n'
                 '            self.gamma = float(c)\n            self.temp_min = float(lt)\n            self.temp_max = float(ut)\n')


def _u_freeze(lo, hi):
    return ('            self.alpha = float(a)\n            self.beta = float(b)\n            self.gamma = float(c)\n'
            '            if self.reaction_type == self.ReactionType.UCLCHEM_FR:\n                self.temp_min, self.temp_max = ' + lo + ', ' + hi + '\n'
            '            else:\n                self.temp_min = float(lt)\n                self.temp_max = float(ut)\n')


_U_NATIVE_OLD = ('        self.alpha = float(a)\n        self.beta = float(b)\n        self.gamma = float(c)\n        self.temp_min = float(lt)\n        self.temp_max = float(ut)\n')
MUTANTS += [
    {"name": "krome-table-dispatch-swapped", "edits": _k_table(cls=_K_TABLE_CLS.replace('{"tmin": "temp_min", "tmax": "temp_max"}', '{"tmin": "temp_max", "tmax": "temp_min"}')), "rules": ["R4"]},
    {"name": "krome-table-dispatch-operators-lack-.LT.", "edits": _k_table(cls=_K_TABLE_CLS.replace('".LT.", ', '')), "rules": ["R4"]},
    {"name": "krome-table-dispatch-no-d-exponent", "edits": _k_table(convert='value = value.strip()\n'), "rules": ["R4"]},
    {"name": "uclchem-freeze-stores-in-arms-wrong-upper", "file": UCL, "old": _U_FREEZE_OLD, "new": _u_freeze("0.0", "300.0"), "rules": ["R4"]},
    {"name": "uclchem-freeze-dropped", "file": UCL, "old": "            if self.reaction_type == self.ReactionType.UCLCHEM_FR:\n                lt, ut = 0, 30\n", "new": "", "rules": ["R4"]},
    {"name": "native-window-zip-setattr-crossed", "file": "naunet/reactions/reaction.py", "old": _U_NATIVE_OLD,
     "new": '        for attrname, text in zip(("alpha", "beta", "gamma", "temp_max", "temp_min"), (a, b, c, lt, ut)):\n            setattr(self, attrname, float(text) if attrname != "temp_min" else -1.0)\n', "rules": ["R4"]},
]
BENIGN += [
    {"name": "krome-window-table-dispatch-setattr-reduce", "edits": _k_table()},
    {"name": "uclchem-freeze-stores-in-arms", "file": UCL, "old": _U_FREEZE_OLD, "new": _u_freeze("0.0", "30.0")},
    {"name": "native-window-zip-setattr", "file": "naunet/reactions/reaction.py", "old": _U_NATIVE_OLD,
     "new": '        for attrname, text in zip(("alpha", "beta", "gamma", "temp_min", "temp_max"), (a, b, c, lt, ut)):\n            setattr(self, attrname, float(text))\n'},
]
# ---- wave 2: template spellings of the paste loop and of the zeroing of k
_J_LOOP = '    {% for assign in ode.rateeqns -%}\n        {{ assign | stmwrap(80, 8) }}\n        {{ "" }}\n    {% endfor %}\n'
_FEX_K = "    realtype k[NREACTIONS] = {0.0};\n    EvalRates(k, y, u_data);"
_KERNEL_K = "        realtype k[NREACTIONS] = {0.0};\n        EvalRates(k, y_cur, udata);"
MUTANTS += [
    {"name": "paste-loop-list-through-unique", "file": RATES, "old": "{% for assign in ode.rateeqns -%}", "new": "{% for assign in ode.rateeqns | unique -%}", "rules": ["R3"]},
    {"name": "paste-loop-by-index-other-list", "file": RATES, "old": _J_LOOP, "new": '    {% for i in range(ode.hrateeqns | length) -%}\n        {{ ode.hrateeqns[i] | stmwrap(80, 8) }}\n        {{ "" }}\n    {% endfor %}\n', "rules": ["R3"]},
    {"name": "paste-loop-conditional", "file": RATES, "old": "{% for assign in ode.rateeqns -%}", "new": '{% for assign in ode.rateeqns if "if (" not in assign -%}', "rules": ["R3"]},
    {"name": "kernel-k-memset-hoisted", "edits": [
        {"file": FEX, "old": _KERNEL_K, "new": "        EvalRates(k, y_cur, udata);"},
        {"file": FEX, "old": "    int gs   = blockDim.x * gridDim.x;\n\n    for (int cur = tidx; cur < nsystem; cur += gs) {\n        int yistart            = cur * NEQUATIONS;\n        realtype *y_cur        = y + yistart;\n        NaunetData *udata",
         "new": "    int gs   = blockDim.x * gridDim.x;\n    realtype k[NREACTIONS];\n    memset(k, 0, sizeof(k));\n\n    for (int cur = tidx; cur < nsystem; cur += gs) {\n        int yistart            = cur * NEQUATIONS;\n        realtype *y_cur        = y + yistart;\n        NaunetData *udata"}], "rules": ["R2"]},
]
BENIGN += [
    {"name": "paste-loop-over-set-alias", "file": RATES, "old": _J_LOOP, "new": '    {% set eqns = ode.rateeqns %}\n    {% for assign in eqns -%}\n        {{ assign | stmwrap(80, 8) }}\n        {{ "" }}\n    {% endfor %}\n'},
    {"name": "paste-loop-by-index", "file": RATES, "old": _J_LOOP, "new": '    {% for i in range(ode.rateeqns | length) -%}\n        {{ ode.rateeqns[i] | stmwrap(80, 8) }}\n        {{ "" }}\n    {% endfor %}\n'},
    {"name": "paste-loop-by-loop-index", "file": RATES, "old": _J_LOOP, "new": '    {% for assign in ode.rateeqns -%}\n        {{ ode.rateeqns[loop.index - 1] | stmwrap(80, 8) }}\n        {{ "" }}\n    {% endfor %}\n'},
    {"name": "paste-loop-in-macro", "file": RATES, "old": _J_LOOP, "new": '    {% macro paste(eqns) %}{% for assign in eqns -%}\n        {{ assign | stmwrap(80, 8) }}\n        {{ "" }}\n    {% endfor %}{% endmacro %}\n    {{ paste(ode.rateeqns) }}\n'},
    {"name": "fex-k-value-initialised", "file": FEX, "old": _FEX_K, "new": "    realtype k[NREACTIONS] = {};\n    EvalRates(k, y, u_data);"},
    {"name": "fex-k-memset", "file": FEX, "old": _FEX_K, "new": "    realtype k[NREACTIONS];\n    memset(k, 0, sizeof(k));\n    EvalRates(k, y, u_data);"},
    {"name": "kernel-k-fill-in-loop", "file": FEX, "old": _KERNEL_K, "new": "        realtype k[NREACTIONS];\n        std::fill(k, k + NREACTIONS, 0.0);\n        EvalRates(k, y_cur, udata);"},
]
# ---- wave 2: other constructions of the guard list
_TR = '        tranges = [\n            "".join([lt, " && " if lt and ut else "", ut])\n            for lt, ut in zip(ltranges, utranges)\n        ]\n'
_WINDOW_HELPER = ('    @staticmethod\n    def _window(r):\n        lt = f"Tgas>={r.temp_min}" if r.temp_min > 0 else ""\n        ut = f"Tgas<{r.temp_max}" if r.temp_max > 0 else ""\n'
                  '        return "".join([lt, " && " if lt and ut else "", ut])\n\n    def _assign_rates(\n')


def _bounds_pairs(lo_test="lo > 0", hi_fmt="Tgas<{hi}"):
    return ('        bounds = [(r.temp_min, r.temp_max) for r in reactions]\n        tranges = [\n            "".join([f"Tgas>={lo}" if ' + lo_test + ' else "", " && " if lo > 0 and hi > 0 else "", f"' + hi_fmt + '" if hi > 0 else ""])\n'
            '            for lo, hi in bounds\n        ]\n')


MUTANTS += [
    {"name": "bounds-pairs-presence-ge-zero", "file": T, "old": "        " + _LT + "\n        " + _UT + "\n" + _TR, "new": _bounds_pairs(lo_test="lo >= 0"), "rules": ["R1"]},
    {"name": "bounds-pairs-upper-inclusive", "file": T, "old": "        " + _LT + "\n        " + _UT + "\n" + _TR, "new": _bounds_pairs(hi_fmt="Tgas<={hi}"), "rules": ["R1"]},
    {"name": "window-helper-mapped-over-sorted", "edits": [{"file": T, "old": "    def _assign_rates(\n", "new": _WINDOW_HELPER},
                                                           {"file": T, "old": "        " + _LT + "\n        " + _UT + "\n" + _TR, "new": "        tranges = list(map(self._window, sorted(reactions, key=lambda x: x.temp_min)))\n"}], "rules": ["R1"]},
]
BENIGN += [
    {"name": "bounds-as-pairs-first", "file": T, "old": "        " + _LT + "\n        " + _UT + "\n" + _TR, "new": _bounds_pairs()},
    {"name": "window-helper-per-reaction-mapped", "edits": [{"file": T, "old": "    def _assign_rates(\n", "new": _WINDOW_HELPER},
                                                            {"file": T, "old": "        " + _LT + "\n        " + _UT + "\n" + _TR, "new": "        tranges = list(map(self._window, reactions))\n"}]},
    {"name": "guard-joined-through-filtering-generator", "file": T, "old": "        " + _LT + "\n        " + _UT + "\n" + _TR,
     "new": '        tranges = [\n            " && ".join(c for c in (f"Tgas>={r.temp_min}" if r.temp_min > 0 else "", f"Tgas<{r.temp_max}" if r.temp_max > 0 else "") if c)\n            for r in reactions\n        ]\n'},
]
# ---- wave 2: the KROME keyword / field pairing
_K_ZIP = '            for key, value in zip(kwords, react_string.split(",")):\n'
MUTANTS += [
    {"name": "krome-columns-by-index-field-one-late", "file": KROME, "old": _K_ZIP,
     "new": '            values = react_string.split(",")\n            for i in range(min(len(kwords), len(values)) - 1):\n                key, value = kwords[i], values[i + 1]\n', "rules": ["R4"]},
]
BENIGN += [
    {"name": "krome-columns-by-index", "file": KROME, "old": _K_ZIP,
     "new": '            values = react_string.split(",")\n            for i in range(min(len(kwords), len(values))):\n                key, value = kwords[i], values[i]\n'},
    {"name": "krome-columns-enumerate-keywords", "file": KROME, "old": _K_ZIP,
     "new": '            values = react_string.split(",")\n            for i, key in enumerate(kwords[: len(values)]):\n                value = values[i]\n'},
    {"name": "krome-limit-helper-returning-none", "edits": [
        {"file": KROME, "old": _K_CLS, "new": '    @staticmethod\n    def _limit(text):\n        if text.upper() in ("N", "NONE", "N/A", "NO", ""):\n            return None\n'
         '        for opstr in ("<", ">", ".LE.", ".GE.", ".LT.", ".GT."):\n            text = text.replace(opstr, "")\n        return float(text.replace("d", "e"))\n\n' + _K_CLS},
        {"file": KROME, "old": _K_ARMS_OLD, "new": '                elif key == "tmin":\n                    limit = self._limit(value)\n                    if limit is not None:\n                        self.temp_min = limit\n'
         '                elif key == "tmax":\n                    limit = self._limit(value)\n                    if limit is not None:\n                        self.temp_max = limit\n'}]},
]
# ---- wave 2: other spellings of the statement text


def _stmt_loop(body):
    return '        rateassign = []\n        for ridx, (trange, rateexpr) in enumerate(zip(tranges, rateexprs)):\n' + body + '            rateassign.append(assign)\n'


MUTANTS += [
    {"name": "percent-format-guard-not-enclosing", "file": T, "old": _STMT_COMP,
     "new": _stmt_loop('            assign = "%s[%d] = %s;" % (rate_sym, ridx, rateexpr)\n            if trange:\n                assign = "if (%s) {\\n}\\n%s" % (trange, assign)\n'), "rules": ["R1"]},
]
BENIGN += [
    {"name": "statement-by-percent-format", "file": T, "old": _STMT_COMP,
     "new": _stmt_loop('            assign = "%s[%d] = %s;" % (rate_sym, ridx, rateexpr)\n            if trange:\n                assign = "if (%s) {\\n%s\\n}" % (trange, assign)\n')},
    {"name": "statement-by-concatenation-with-str", "file": T, "old": _STMT_COMP,
     "new": _stmt_loop('            assign = rate_sym + "[" + str(ridx) + "] = " + rateexpr + ";"\n            if trange:\n                assign = "\\n".join(("if (" + trange + ") {", assign, "}"))\n')},
    {"name": "statement-lines-wrapped-in-list", "file": T, "old": _STMT_COMP,
     "new": _stmt_loop('            lines = [f"{rate_sym}[{ridx}] = {rateexpr};"]\n            if trange:\n                lines = [f"if ({trange}) {{", *lines, "}"]\n            assign = "\\n".join(lines)\n')},
]
BENIGN += [
    {"name": "pairs-list-walked-by-index", "file": T, "old": _STMT_COMP,
     "new": '        pairs = list(zip(tranges, rateexprs))\n        rateassign = []\n        for ridx in range(len(pairs)):\n            trange, rateexpr = pairs[ridx]\n'
            '            stmt = f"{rate_sym}[{ridx}] = {rateexpr};"\n            rateassign.append(f"if ({trange}) {{\\n{stmt}\\n}}" if trange else stmt)\n'},
]
# ---- wave 3: the window written to the package's own text format (R7); number-extracting regular expressions found by role (R4)
RFILE = "naunet/reactions/reaction.py"
_K_LIMIT_RE = ('    _limit_number = re.compile(r"[-+]?\\d+\\.?\\d*(?:[eEdD]%s\\d+)?")\n\n'
               '    def _limit(self, text, default):\n        if text.upper() in ("N", "NONE", "N/A", "NO", ""):\n            return default\n'
               '        found = self._limit_number.search(text)\n        if found is None:\n            raise ValueError(text)\n'
               '        return float(found.group().replace("d", "e").replace("D", "e"))\n\n' + _K_CLS)
_K_ARMS_RE = ('                elif key == "tmin":\n                    self.temp_min = self._limit(value, self.temp_min)\n'
              '                elif key == "tmax":\n                    self.temp_max = self._limit(value, self.temp_max)\n')
MUTANTS += [
    {"name": "native-writer-bounds-in-exponent-notation", "file": RFILE, "old": 'f"{self.temp_max:9.2f}"', "new": 'f"{self.temp_max:9.2e}"', "rules": ["R7"]},
    {"name": "native-writer-bounds-general-format-by-helper", "edits": [
        {"file": RFILE, "old": "class Reaction(Component):\n", "new": 'def _column(value, width):\n    return "%9.6g" % value if abs(value) >= 1e6 else "%9.2f" % value\n\n\nclass Reaction(Component):\n'},
        {"file": RFILE, "old": 'f"{self.temp_min:9.2f}"', "new": '_column(self.temp_min, 9)'}], "rules": ["R7"]},
    {"name": "krome-limit-by-regex-helper-no-plus-in-exponent", "edits": [
        {"file": KROME, "old": _K_CLS, "new": _K_LIMIT_RE % "-?"}, {"file": KROME, "old": _K_ARMS_OLD, "new": _K_ARMS_RE}], "rules": ["R4"]},
]
BENIGN += [
    {"name": "native-writer-bounds-by-str-format", "file": RFILE, "old": 'f"{self.temp_min:9.2f}"', "new": '"{:9.2f}".format(self.temp_min)'},
    {"name": "native-writer-bounds-by-percent-format", "file": RFILE, "old": 'f"{self.temp_max:9.2f}"', "new": '"%9.2f" % self.temp_max'},
]
# ---- wave 3: statements collected as small objects first (a dataclass with a method that prints the statement)
_STMT_CLASS = ('@dataclass\nclass _Assignment:\n    symbol: str\n    index: int\n    window: str\n    expr: str\n\n    def text(self) -> str:\n'
               '        plain = f"{self.symbol}[{self.index}] = {self.expr};"\n        if not self.window:\n            return plain\n'
               '        return %s\n\n\nclass TemplateLoader:\n')
_STMT_OBJECTS = ('        items = [_Assignment(rate_sym, ridx, trange, rateexpr) for ridx, (trange, rateexpr) in enumerate(zip(tranges, rateexprs))]\n'
                 '        rateassign = [item.text() for item in items]\n')
MUTANTS += [
    {"name": "statement-objects-guard-closed-before-assignment", "edits": [
        {"file": T, "old": "class TemplateLoader:\n", "new": _STMT_CLASS % '"\\n".join([f"if ({self.window}) {{", "}", plain])'},
        {"file": T, "old": _STMT_COMP, "new": _STMT_OBJECTS}], "rules": ["R1"]},
    {"name": "statement-objects-index-one-late", "edits": [
        {"file": T, "old": "class TemplateLoader:\n", "new": _STMT_CLASS % '"\\n".join([f"if ({self.window}) {{", plain, "}"])'},
        {"file": T, "old": _STMT_COMP, "new": _STMT_OBJECTS.replace("rate_sym, ridx, trange", "rate_sym, ridx + 1, trange")}], "rules": ["R1"]},
]
BENIGN += [
    {"name": "statements-as-dataclass-objects", "edits": [
        {"file": T, "old": "class TemplateLoader:\n", "new": _STMT_CLASS % '"\\n".join([f"if ({self.window}) {{", plain, "}"])'},
        {"file": T, "old": _STMT_COMP, "new": _STMT_OBJECTS}]},
]
# ---- wave 3: no counter at the top -- the assignments are numbered when they are built, then zipped with the guards
_STMT_ZIPPED = ('        assigns = [f"{rate_sym}[{ridx}] = {rateexpr};" for ridx, rateexpr in enumerate(%s)]\n'
                '        rateassign = [f"if ({trange}) {{\\n{assign}\\n}}" if trange else assign for trange, assign in zip(tranges, assigns)%s]\n')
MUTANTS += [
    {"name": "zipped-assignments-guarded-only", "file": T, "old": _STMT_COMP, "new": _STMT_ZIPPED % ("rateexprs", " if trange"), "rules": ["R1"]},
    {"name": "zipped-assignments-numbered-from-one", "file": T, "old": _STMT_COMP, "new": (_STMT_ZIPPED % ("rateexprs", "")).replace("{ridx}", "{ridx + 1}"), "rules": ["R1"]},
]
BENIGN += [
    {"name": "zipped-assignments-numbered-when-built", "file": T, "old": _STMT_COMP, "new": _STMT_ZIPPED % ("rateexprs", "")},
    {"name": "thermal-rates-by-methodcaller", "edits": [
        {"file": T, "old": "from tqdm import tqdm\n", "new": "from tqdm import tqdm\nfrom operator import methodcaller\n"},
        {"file": T, "old": "rateexprs = [reac.rateexpr() for reac in reactions]", "new": 'rateexprs = list(map(methodcaller("rateexpr"), reactions))'}]},
]
# ---- wave 3: a guard builder may return an empty guard only because the bounds are absent
_GUARD_HELPER = ('    @staticmethod\n    def _guard(r):\n%s        parts = []\n        if r.temp_min > 0:\n            parts.append(f"Tgas>={r.temp_min}")\n'
                 '        if r.temp_max > 0:\n            parts.append(f"Tgas<{r.temp_max}")\n        return " && ".join(parts)\n\n    def _assign_rates(\n')
MUTANTS += [
    {"name": "guard-builder-skips-flagged-reactions", "edits": [
        {"file": T, "old": "    def _assign_rates(\n", "new": _GUARD_HELPER % '        if getattr(r, "constant_rate", False):\n            return ""\n'},
        {"file": T, "old": "        " + _LT + "\n        " + _UT + "\n" + _TR, "new": "        tranges = [self._guard(r) for r in reactions]\n"}], "rules": ["R1"]},
]
# ---- wave 4: everyday pull-request refactors (extract / inline a helper, guard clauses, loop <-> comprehension, constants, Jinja macro)
_COND_HELPER = ('    @staticmethod\n    def _temperature_condition(reaction):\n        bounds = []\n        if reaction.temp_min > 0:\n            bounds.append(f"Tgas>={reaction.temp_min}")\n'
                '        if reaction.temp_max > 0:\n            bounds.append(f"Tgas%s{reaction.temp_max}")\n        return " && ".join(bounds)\n\n    def _assign_rates(\n')
_GUARDS3 = "        " + _LT + "\n        " + _UT + "\n" + _TR
_COND_LOOP = ('        tranges = []\n        for r in reactions:\n            conditions = []\n            if r.temp_min > 0:\n                conditions.append(f"Tgas>={r.temp_min}")\n'
              '            if r.temp_max > 0:\n                conditions.append(f"Tgas%s{r.temp_max}")\n            tranges.append(" && ".join(conditions))\n')
_FMT_GUARD_CLAUSES = [
    {"file": RFILE, "old": "        verbose = None\n\n        rnames = [x.name for x in sorted(self.reactants)]", "new": "        rnames = [x.name for x in sorted(self.reactants)]"},
    {"file": RFILE, "old": "            verbose = ", "new": "            return ", "count": 7},
    {"file": RFILE, "old": "        elif form ==", "new": "        if form ==", "count": 6},
    {"file": RFILE, "old": '        else:\n            raise ValueError(f"Unknown format: {form}")\n\n        return verbose\n', "new": '        raise ValueError(f"Unknown format: {form}")\n'},
]
_STM_MACRO = '{%% macro ratestm(stm) -%%}\n{{ stm%s | stmwrap(80, 8) }}\n        {{ "" }}\n{%%- endmacro %%}\n#include <math.h>\n'
_STM_CALL = '    {% for assign in ode.rateeqns -%}\n        {{ ratestm(assign) }}\n    {% endfor %}\n'
_K_DEFAULT_HELPER = ('    @staticmethod\n    def _limit(text, default):\n        if text.upper() in ["N", "NONE", "N/A", "NO", ""]:\n            return default\n'
                     '        for opstr in ["<", ">", %s".GE.", ".LT.", ".GT."]:\n            text = text.replace(opstr, "")\n        return float(text.replace("d", "e"))\n\n' + _K_CLS)
_K_DEFAULT_ARMS = ('                elif key == "tmin":\n                    self.temp_min = self._limit(value, self.temp_min)\n'
                   '                elif key == "tmax":\n                    self.temp_max = self._limit(value, self.temp_max)\n')
_K_PROC_HELPER = ('    def _set_limit(self, attribute, text):\n        if text.upper() in ["N", "NONE", "N/A", "NO", ""]:\n            return\n'
                  '        for opstr in ["<", ">", ".LE.", ".GE.", ".LT.", ".GT."]:\n            text = text.replace(opstr, "")\n        setattr(self, attribute, float(text.replace("d", "e")))\n\n' + _K_CLS)
_K_PROC_ARMS = '                elif key == "tmin":\n                    self._set_limit("%s", value)\n                elif key == "tmax":\n                    self._set_limit("%s", value)\n'
_K_PICKED = ('                elif key in ("tmin", "tmax"):\n                    ' + _K_NONE + '\n                        ' + _K_OPS + '\n                            value = value.replace(opstr, "")\n'
             '                        value = value.replace("d", "e")\n                        attribute = "%s" if key == "tmin" else "%s"\n                        setattr(self, attribute, float(value))\n')
_NET = "naunet/network.py"
_DUP_DEF = "    def find_duplicate_reaction(self, mode: str = None) -> list[tuple[int, Reaction]]:\n"
_DUP_LIST = ('        check_list = reactions\n\n        if mode == "brief":\n            check_list = [Reaction(re.reactants, re.products) for re in reactions]\n'
             '        elif mode is not None:\n            check_list = [f"{react:{mode}}" for react in reactions]\n')
_DUP_KEY = ('    @staticmethod\n    def _comparison_key(reaction, mode):\n        if mode is None:\n            return %s\n        if mode == "brief":\n'
            '            return Reaction(reaction.reactants, reaction.products)\n        return f"{reaction:{mode}}"\n\n' + _DUP_DEF)
_INIT_DEFAULTS = "        temp_min: float = -1.0,\n        temp_max: float = -1.0,\n"
_U_FR = "            if self.reaction_type == self.ReactionType.UCLCHEM_FR:\n                lt, ut = 0, 30\n"
MUTANTS += [
    {"name": "condition-helper-with-appends-upper-inclusive", "edits": [{"file": T, "old": "    def _assign_rates(\n", "new": _COND_HELPER % "<="},
                                                                        {"file": T, "old": _GUARDS3, "new": "        tranges = [self._temperature_condition(reac) for reac in reactions]\n"}], "rules": ["R1"]},
    {"name": "conditions-list-per-iteration-upper-inclusive", "file": T, "old": _GUARDS3, "new": _COND_LOOP % "<=", "rules": ["R1"]},
    {"name": "format-guard-clauses-bounds-in-exponent-notation", "edits": _FMT_GUARD_CLAUSES + [{"file": RFILE, "old": 'f"{self.temp_max:9.2f}"', "new": 'f"{self.temp_max:9.2e}"'}], "rules": ["R7"]},
    {"name": "paste-macro-per-statement-rewrites-guard", "edits": [{"file": RATES, "old": "#include <math.h>\n", "new": _STM_MACRO % ' | replace("if (", "if (1 || ")'}, {"file": RATES, "old": _J_LOOP, "new": _STM_CALL}], "rules": ["R3"]},
    {"name": "krome-limit-helper-with-default-lacks-.LE.", "edits": [{"file": KROME, "old": _K_CLS, "new": _K_DEFAULT_HELPER % ""}, {"file": KROME, "old": _K_ARMS_OLD, "new": _K_DEFAULT_ARMS}], "rules": ["R4"]},
    {"name": "krome-procedure-helper-crossed", "edits": [{"file": KROME, "old": _K_CLS, "new": _K_PROC_HELPER}, {"file": KROME, "old": _K_ARMS_OLD, "new": _K_PROC_ARMS % ("temp_max", "temp_min")}], "rules": ["R4"]},
    {"name": "krome-attribute-picked-by-test-swapped", "file": KROME, "old": _K_ARMS_OLD, "new": _K_PICKED % ("temp_max", "temp_min"), "rules": ["R4"]},
    {"name": "duplicates-key-helper-default-brief", "edits": [{"file": _NET, "old": _DUP_DEF, "new": _DUP_KEY % "Reaction(reaction.reactants, reaction.products)"},
                                                              {"file": _NET, "old": _DUP_LIST, "new": "        check_list = [self._comparison_key(react, mode) for react in reactions]\n"}], "rules": ["R5"]},
    {"name": "init-defaults-by-constant-positive", "edits": [{"file": RFILE, "old": "class Reaction(Component):\n", "new": "UNBOUNDED = 1.0\n\n\nclass Reaction(Component):\n"},
                                                             {"file": RFILE, "old": _INIT_DEFAULTS, "new": "        temp_min: float = UNBOUNDED,\n        temp_max: float = UNBOUNDED,\n"}], "rules": ["R4"]},
]
BENIGN += [
    {"name": "condition-helper-with-appends", "edits": [{"file": T, "old": "    def _assign_rates(\n", "new": _COND_HELPER % "<"},
                                                        {"file": T, "old": _GUARDS3, "new": "        tranges = [self._temperature_condition(reac) for reac in reactions]\n"}]},
    {"name": "conditions-list-per-iteration", "file": T, "old": _GUARDS3, "new": _COND_LOOP % "<"},
    {"name": "rates-over-full-slice-copy", "file": T, "old": "rateexprs = [reac.rateexpr() for reac in reactions]", "new": "rateexprs = [reac.rateexpr() for reac in reactions[:]]"},
    {"name": "format-guard-clauses", "edits": _FMT_GUARD_CLAUSES},
    {"name": "paste-macro-per-statement", "edits": [{"file": RATES, "old": "#include <math.h>\n", "new": _STM_MACRO % ""}, {"file": RATES, "old": _J_LOOP, "new": _STM_CALL}]},
    {"name": "paste-loop-subscript-default-full-slice", "file": RATES, "old": "{% for assign in ode.rateeqns -%}", "new": '{% for assign in ode["rateeqns"][:] | default([]) -%}'},
    {"name": "fex-k-zero-through-set-alias", "file": FEX, "old": _FEX_K, "new": '    {% set zero = "{0.0}" -%}\n    realtype k[NREACTIONS] = {{ zero }};\n    EvalRates(k, y, u_data);'},
    {"name": "krome-limit-helper-with-default", "edits": [{"file": KROME, "old": _K_CLS, "new": _K_DEFAULT_HELPER % '".LE.", '}, {"file": KROME, "old": _K_ARMS_OLD, "new": _K_DEFAULT_ARMS}]},
    {"name": "krome-procedure-helper-with-guard-clause", "edits": [{"file": KROME, "old": _K_CLS, "new": _K_PROC_HELPER}, {"file": KROME, "old": _K_ARMS_OLD, "new": _K_PROC_ARMS % ("temp_min", "temp_max")}]},
    {"name": "krome-attribute-picked-by-test", "file": KROME, "old": _K_ARMS_OLD, "new": _K_PICKED % ("temp_min", "temp_max")},
    {"name": "krome-no-bound-test-lower-cased", "file": KROME, "old": _K_NONE, "new": 'if value.lower() not in ["n", "none", "n/a", "no", ""]:', "count": 2},
    {"name": "duplicates-key-helper-per-reaction", "edits": [{"file": _NET, "old": _DUP_DEF, "new": _DUP_KEY % "reaction"},
                                                             {"file": _NET, "old": _DUP_LIST, "new": "        check_list = [self._comparison_key(react, mode) for react in reactions]\n"}]},
    {"name": "init-defaults-by-constant", "edits": [{"file": RFILE, "old": "class Reaction(Component):\n", "new": "UNBOUNDED = -1.0\n\n\nclass Reaction(Component):\n"},
                                                    {"file": RFILE, "old": _INIT_DEFAULTS, "new": "        temp_min: float = UNBOUNDED,\n        temp_max: float = UNBOUNDED,\n"}]},
    {"name": "uclchem-freeze-test-by-type-name", "file": UCL, "old": _U_FR, "new": '            if self.reaction_type.name == "UCLCHEM_FR":\n                lt, ut = 0, 30\n'},
]
