"""C04 -- balanced networks conserve elements and charge (corollary of C01 + three own rules)."""
from __future__ import annotations

import ast
import re

from .. import jmodel as J
from ..cskel import Skel
from ..eqmodel import eq_disjuncts, hash_paths
from ..odemodel import model, FILE
from ..pymodel import package
from .c01 import reaction_sites

EXPLANATION = (
    "R0 (shared with C01.R2/R3): every reaction adds the identical k*prod(y) monomial once per product occurrence and subtracts "
    "it once per reactant occurrence, unconditionally -- so sum_i w_i*ydot_i = sum_react k*prod(y)*(sum_products w - sum_reactants w), "
    "which vanishes for any weight w (element count, charge) a balanced reaction preserves; no species is dropped from a reactant / product "
    "list for being falsy (Species defines no __bool__/__len__), by the gate Component._create_species (None only for empty names and exact "
    "members of the known pseudo-elements) or by code editing a reaction's lists in place after construction (C01.R6 / C01.R12). R1 GetElementAbund sums "
    "count(spec, element)*y[IDX_spec] over the same unfiltered network.species, guarded by the IDX_ELEM_ macro of the loop's own "
    "element, exactly as the macro header defines it. R2 every way two species can be identified (each disjunct of Species.__eq__) "
    "forces equal composition and charge: same name, or ice with equal basename+charge+group, or grains (no elements) with equal "
    "group+charge, or both electrons. R3 electrons hash to one constant so that all spellings share one ODE variable. R4 (shared with "
    "C09.R6) distinct species get distinct IDX_ identifiers: Species.alias is <phase><basename><injective charge run> and is never "
    "post-processed by deleting characters. R5 (shared with C01.R9) nothing but the pasted equations writes ydot and the working copy of "
    "the abundances is the abundance vector. R6 the composition table accumulates: every write to element_count adds or creates a new entry, and every occurrence of an element in the "
    "scanned formula reaches that write (no dict-by-plain-assignment / set keyed by the element between the matches and the count).")
ASSUMPTIONS = [
    "whether an input network is balanced is the user's premise",
    "the composition assigned to a given name is C08's subject (not decidable statically)",
    "equal names were parsed with equal symbol tables (C17)",
]
ENGINES = ["pymodel", "valueflow", "jmodel", "cskel", "odemodel"]

PHYS = "naunet/templates/base/cpp/src/naunet_physics.cpp.j2"
MACROS = "naunet/templates/base/cpp/include/naunet_macros.h.j2"
SPECIES = "naunet/species.py"

FIRST_KEY = lambda v: ("filter", "first", ("call", ("attr", ("attr", v, "element_count"), "keys"), (), ()), (), ())


def check(ctx):
    m = model(ctx.tree)
    ctx.saw(FILE, "TemplateLoader._prepare_ode_content")
    # R0: the whole chain from the network to the pasted equations of the species rows (C01.R1-R5, R8): initial 0.0, one signed
    # identical monomial per occurrence, rows bound to IDX_<alias>, no other writer, every statement pasted once and whole
    from . import c01
    ctx.absorb(c01.check, "R0", only=lambda o: o.rule in ("R1", "R2", "R3", "R4", "R5", "R8"))
    _r1(ctx)
    _r2(ctx)
    # a species is never dropped from a reactant / product list for being "empty" (shared with C01.R6)
    c01.species_truthiness(ctx, "R0")
    # ... nor by the gate every reactant / product name passes: Component._create_species drops pseudo-elements and nothing else (shared with C01.R6)
    c01.pseudo_filter(ctx, "R0")
    # ... nor by code that edits a reaction's reactant / product list in place after it was parsed (shared with C01.R12)
    c01.reaction_lists_frozen(ctx, "R0")
    # R4: one ODE variable per species -- the identifier IDX_<alias> is an injective function of the species (rule shared with C09.R6)
    from . import c09
    ctx.absorb(lambda sub: c09._alias_rule(sub, package(sub.tree)), "R4", only=lambda o: o.key.startswith("Species.alias"))
    ctx.floor("R4", "alias obligations", len([o for o in ctx.obs if o.rule == "R4"]), 2)
    # R5: the balanced polynomials ARE what the compiled function returns: nothing else writes ydot or filters y (shared with C01.R9)
    from .c01 import rhs_writers
    rhs_writers(ctx, "R5")
    _r6(ctx)
    # occurrences count: no set / dict keyed by the species stands between a reactant list and the terms built from it
    from ..multiplicity import rule as multiplicity_rule
    multiplicity_rule(ctx, "R7", ['ode'], "the conserved sums")
    # each rendering is computed from the network of that call: the renderer keeps no memo between two renderings (shared with C17.R7)
    from .c17 import stateless_renderer
    stateless_renderer(ctx, package(ctx.tree), "R8")


def _reads_same_entry(v, table, idx):
    """v = <current count of entry idx of the table, 0 when absent> + <something>"""
    if idx is None or v[0] != "binop" or v[1] != "Add":
        return False

    def is_table(x):
        return (table is not None and x == table) or (x[0] == "attr" and x[2] == "element_count")
    for a in (v[2], v[3]):
        if a[0] == "meth" and is_table(a[1]) and a[2] == "get" and a[3] == (idx, ("const", 0)) and not a[4]:
            return True
        if a[0] == "bool" and a[1] == "Or" and len(a[2]) == 2 and a[2][1] == ("const", 0) and a[2][0][0] == "meth" and is_table(a[2][0][1]) \
                and a[2][0][2] == "get" and a[2][0][3] == (idx,):
            return True         # T.get(e) or 0
    return False


def _r6(ctx):
    """The composition table the element sums are built from accumulates: an element met at two places of a formula (CH3OH) is
    counted at both.  Every write to element_count[...] adds, or creates the entry of an element seen for the first time."""
    from ..valueflow import Flow, show, simp
    pkg = package(ctx.tree)
    from ..pymodel import species_count_method
    mname, fn = species_count_method(pkg)
    ctx.saw(SPECIES, f"Species.{mname}")
    fl = Flow(fn, SPECIES)
    n = 0
    for f in fl.facts:
        tgt = str(f.target)
        is_table = tgt.endswith("element_count")
        if f.kind in ("store", "augstore") and is_table:
            n += 1
            g = [(show(simp(c)).replace(" ", ""), p) for c, p in f.guards]
            absent = any((("inself.element_count" in c and "notin" not in c) and p is False) or ("notinself.element_count" in c and p is True) for c, p in g)
            # T[e] = T.get(e, 0) + n  /  T[e] = n + T[e]: read-add-write of the same entry is `+=` (and creates the entry)
            readadd = f.kind == "store" and _reads_same_entry(simp(f.value), f.extra.get("base"), simp(f.index) if f.index else None)
            if readadd:
                n += 1          # plays both roles: the accumulating write and the creating write
            # try: T[e] += n  except KeyError: T[e] = n  -- the handler runs exactly when the entry is missing (the only subscript
            # the guarded statement evaluates is the same entry of the same table)
            if f.kind == "store" and not absent and any(c.startswith("('except'") and "KeyError" in c for c, _ in g):
                tgt_txt = ast.unparse(f.node.targets[0]) if isinstance(f.node, ast.Assign) and len(f.node.targets) == 1 else None
                for t in ast.walk(fn):
                    if isinstance(t, ast.Try) and any(f.node in list(ast.walk(h)) for h in t.handlers) and tgt_txt is not None:
                        subs = {ast.unparse(x) for b in t.body for x in ast.walk(b) if isinstance(x, ast.Subscript)}
                        calls = [x for b in t.body for x in ast.walk(b) if isinstance(x, ast.Call)]
                        if subs == {tgt_txt} and not calls and len(t.body) == 1:
                            absent = True
            ok = (f.kind == "augstore" and getattr(f, "op", None) == "Add") or (f.kind == "store" and absent) or readadd
            if not ok and f.kind == "store":
                # `try: T[e] += n` / `except KeyError: T[e] = n`: the handler runs exactly when the accumulating write found no entry
                exc = [c for c, p in f.guards if isinstance(c, tuple) and c and c[0] == "except"]
                rest = tuple(x for x in f.guards if not (isinstance(x[0], tuple) and x[0] and x[0][0] == "except"))
                twin = any(g.kind == "augstore" and g.target == f.target and getattr(g, "op", None) == "Add" and g.index is not None and f.index is not None
                           and simp(g.index) == simp(f.index) and tuple(g.guards) == rest and g.seq < f.seq for g in fl.facts)
                if exc and all(c[1] in ("KeyError", "LookupError") for c in exc) and twin:
                    ok = absent = True
                elif exc or any("element_count" in c and not (("inself.element_count" in c and "notin" not in c and p is True)) for c, p in g):
                    # a condition on the table that is not a plain membership test: when the entry is (re)written is not understood
                    ctx.unrec("R6", f"element_count:{f.kind}", (SPECIES, f.line), f"the condition under which the entry is assigned is not understood: {[c for c, _ in g][-2:]}")
                    continue
            ctx.check(ok, "R6", f"element_count:{f.kind}", (SPECIES, f.line),
                      "adds to the count" if f.kind == "augstore" or readadd else "creates the entry only for an element not counted yet" if ok else
                      "the count of an element is OVERWRITTEN when the element is met again: CH3OH gets H:1, the element totals and the renormalisation use wrong compositions",
                      expected="element_count[e] += n, or = n only when e is not in the table", found=f"{f.kind} guarded by {[c for c, _ in g][-1:]}")
        elif f.kind == "call" and f.value and f.value[0] == "meth" and f.value[2] == "setdefault" and show(f.value[1]).endswith("element_count"):
            n += 1
            ctx.ok("R6", "element_count:.setdefault()", (SPECIES, f.line), "setdefault creates the entry only for an element not counted yet (an existing count is kept)")
        elif f.kind == "call" and f.value and f.value[0] == "meth" and f.value[2] in ("update", "__setitem__") and show(f.value[1]).endswith("element_count"):
            n += 1
            ctx.bad("R6", f"element_count:.{f.value[2]}()", (SPECIES, f.line),
                    f"element_count.{f.value[2]}(..) on a plain dict replaces the entry of an element met again instead of adding to it (dict.update is not Counter.update)",
                    expected="element_count[e] += n", found=show(f.value)[:80])
    ctx.floor("R6", "writes to element_count", n, 2)
    _r6_occurrences(ctx, pkg, mname)


def _r6_occurrences(ctx, pkg, count_name):
    """Every OCCURRENCE of an element in the formula reaches the accumulating count method: between the regex matches and the call
    there is no container that identifies equal element names (a dict keyed by the element filled by plain assignment, a set) --
    CH3OH has H at two places, both count."""
    from ..valueflow import Flow, show, simp, walk
    from ..pymodel import species_parse_method
    pname, pfn = species_parse_method(pkg)
    ctx.saw(SPECIES, f"Species.{pname}")
    fl = Flow(pfn, SPECIES)
    calls = [f for f in fl.facts if f.kind == "call" and f.target == count_name and f.value and f.value[0] == "meth" and f.value[3]]
    ctx.floor("R6", "calls of the count method while scanning the formula", len(calls), 1, (SPECIES, pfn.lineno))

    def container(x):
        """local container iterated to produce x: name or None"""
        while x[0] == "meth" and x[2] in ("items", "keys") and not x[3]:
            x = x[1]
        if x[0] == "call" and x[1] in (("global", "sorted"), ("global", "list"), ("global", "tuple")) and x[2]:
            return container(x[2][0])
        return x[1] if x[0] == "acc" else None

    for f in calls:
        arg = simp(f.value[3][0])
        key = f"Species.{pname}:{count_name}(..):occurrences"
        verdict = None
        for t in walk(arg):
            if not (isinstance(t, tuple) and t and t[0] in ("key", "elem") and len(t) == 3):
                continue
            src = t[1]
            if src[0] == "call" and src[1] in (("global", "set"), ("global", "frozenset")):
                verdict = f"the element names are iterated from a set ({show(src)[:60]})"
                break
            if src[0] == "meth" and src[2] == "fromkeys":
                verdict = f"the element names are iterated from dict.fromkeys ({show(src)[:60]})"
                break
            name = container(src)
            if name is None:
                continue
            fill = [g for g in fl.facts if g.target == name]
            inits = [simp(g.value) for g in fill if g.kind == "init"]
            is_map = any(v == ("dict", ()) or (v[0] == "call" and v[1] in (("global", "dict"), ("global", "OrderedDict")) and not v[2]) for v in inits)
            is_set = any(v == ("set", ()) or (v[0] == "call" and v[1] == ("global", "set") and not v[2]) for v in inits)
            if is_set and t[0] in ("key", "elem"):
                verdict = f"the element names are collected in the set `{name}` before they are counted"
                break
            if is_map:
                plain = [g for g in fill if g.kind == "store" and not _reads_same_entry(simp(g.value), ("acc", name), simp(g.index) if g.index else None)
                         and not _reads_same_entry(simp(g.value), ("global", name), simp(g.index) if g.index else None)]
                if plain:
                    verdict = (f"the matches are first collected in the dict `{name}` by plain assignment (line {plain[0].line}) and counted once per key")
                    break
        if verdict:
            ctx.bad("R6", key, (SPECIES, f.line),
                    verdict + ": an element written at two places of a formula (CH3OH, HCOOH) keeps only one of its counts, GetElementAbund and the "
                    "renormalisation undercount those species",
                    expected="one call per regex match (occurrence), or a container that adds the counts", found=show(simp(f.value))[:120])
        else:
            ctx.ok("R6", key, (SPECIES, f.line), "called once per match of the formula scan (no de-duplicating container in between)")


def _mentions(e, name):
    return e == name or (isinstance(e, tuple) and any(_mentions(x, name) for x in e if isinstance(x, tuple)))


SPECIES_SEQ = ("attr", ("name", "network"), "species")


def _r1(ctx):
    ctx.saw(PHYS)
    tree = ctx.tree
    items = J.flatten(tree, PHYS, {})
    sk = Skel(items)
    fn = "GetElementAbund"
    if not sk.func(fn):
        ctx.missing("R1", fn, (PHYS, 0), "GetElementAbund not found in naunet_physics.cpp.j2")
        return
    outer = [it for it, off in sk.items_in(fn) if it[0] == "for" and J.path(J.unfilter(it[2])[0]) == "network.elements"]
    if len(outer) != 1:
        # (several loops over the elements: which one selects the branch is not understood -- not evidence of a wrong sum)
        (ctx.unrec if outer else ctx.missing)("R1", f"{fn}:element-loop", (PHYS, 0), f"expected one loop over network.elements, found {len(outer)}")
        return
    o = outer[0]
    ctx.check(_unlist(o[2]) == ("attr", ("name", "network"), "elements") and o[7] is None, "R1", f"{fn}:element-loop", (PHYS, o[5]),
              "one branch per element of the unfiltered network.elements", found=J.show(o[2]))
    evar = o[1]
    # bindings made before the loop (function scope) stay visible inside it
    # (Jinja's scope is the template, not the C function: a top-level `{% set %}` anywhere before the loop counts, in template order)
    env0 = {}
    for it in sk.marks:
        if it is o:
            break
        if it[0] == "set" and it[1][0] == "name":
            env0[it[1][1]] = J.subst(J.inline_macros(tree, it[-1], it[2]), env0)
    # (a loop variable of the branch hides an outer binding of the same name)
    def _targets(body):
        out = set()
        for it_ in body:
            if isinstance(it_, tuple) and it_ and it_[0] == "for":
                tg = it_[1]
                out |= {tg[1]} if tg[0] == "name" else {t[1] for t in tg[1] if t[0] == "name"} if tg[0] in ("tuple", "list") else set()
            for sub_ in it_ if isinstance(it_, tuple) else ():
                if isinstance(sub_, (list, tuple)) and sub_ and isinstance(sub_[0], tuple):
                    out |= _targets(sub_)
        return out
    for nm_ in _targets([o]):
        env0.pop(nm_, None)
    # what the branch prints before the species loop: `if (elemidx == IDX_ELEM_<..>) {`
    pieces = J.printed(tree, o[3], dict(env0))
    guard_expr = None
    inner = []
    macro_uses = 0
    for i, p in enumerate(pieces):
        if p[0] == "lit" and p[1].endswith("IDX_ELEM_"):
            macro_uses += 1
            if re.search(r"(elemidx\s*==|case)\s*IDX_ELEM_$", p[1]) and i + 1 < len(pieces) and pieces[i + 1][0] == "val":
                guard_expr = pieces[i + 1][1]
        if p[0] == "ctl" and p[1][0] == "for":
            inner.append(p)
    if guard_expr is None or macro_uses != 1:
        ctx.unrec("R1", f"{fn}:guard", (PHYS, o[5]), "the branch of one element is not selected by `elemidx == IDX_ELEM_<..>`: shape not understood")
    elif _key_canon(guard_expr) != _key_canon(FIRST_KEY(evar)) and not _about(guard_expr, {evar}):
        ctx.unrec("R1", f"{fn}:guard", (PHYS, o[5]), f"the macro suffix of the branch guard is not computed from the loop's element alone: {J.show(guard_expr)[:120]}")
    else:
        ctx.check(_key_canon(guard_expr) == _key_canon(FIRST_KEY(evar)), "R1", f"{fn}:guard", (PHYS, o[5]),
                  "branch guard is `elemidx == IDX_ELEM_<first key of this element's element_count>`",
                  expected=J.show(FIRST_KEY(evar)), found=J.show(guard_expr))
    # the macro header uses the same suffix expression over the same sequence, paired with loop.index0
    # (a loop over `network.elements | map(attribute=..)` is the loop over network.elements with the attribute read in the body)
    mit = J.unmap_loops(J.flatten(tree, MACROS, {}))
    # a top-level `{% set all_elements = network.elements %}` bound once is the sequence it names: loops over the alias are loops over it
    _al = {}
    for it_ in mit:
        if isinstance(it_, tuple) and it_ and it_[0] == "set" and it_[1][0] == "name":
            _al[it_[1][1]] = None if it_[1][1] in _al else it_[2]
    _al = {k: v for k, v in _al.items() if v is not None and J.path(J.unfilter(v)[0]) is not None}
    if _al:
        def _dealias(items_):
            out_ = []
            for it_ in items_:
                if isinstance(it_, tuple) and it_ and it_[0] == "for":
                    it_ = it_[:2] + (J.subst(it_[2], _al),) + (_dealias(it_[3]) if isinstance(it_[3], list) else it_[3],) + it_[4:]
                out_.append(it_)
            return out_
        mit = _dealias(mit)
    ctx.saw(MACROS)
    mloops = [it for it, st in J.walk_items(mit) if it[0] == "for" and J.path(J.unfilter(it[2])[0]) == "network.elements"
              and any(p_[0] == "lit" and "IDX_ELEM_" in p_[1] for p_ in J.squeeze(J.printed(tree, it[3], {})))]
    if len(mloops) != 1:
        (ctx.unrec if mloops else ctx.missing)("R1", "macros:IDX_ELEM", (MACROS, 0), f"expected one loop over network.elements defining IDX_ELEM_ macros in the header, found {len(mloops)}")
    else:
        ml = mloops[0]
        # (`%d` / `{:d}` of the loop counter prints the counter)
        got = [("val", _key_canon(p_[-1])) if p_[0] == "val" or (p_[0] == "fmt" and p_[1] in ("d", "i")) else p_ for p_ in J.squeeze(J.printed(tree, ml[3], {}))]
        want = [("lit", "#define IDX_ELEM_"), ("val", _key_canon(FIRST_KEY(ml[1]))), ("lit", " "), ("val", ("attr", ("name", "loop"), "index0"))]
        okm = got == want and ml[7] is None and ml[2] == ("attr", ("name", "network"), "elements")
        foundm = " ".join(p[1] if p[0] == "lit" else "{{ " + J.show(p[-1]) + " }}" if p[0] != "ctl" else "{% .. %}" for p in got)
        # wrong needs a header line of the understood form `#define IDX_ELEM_<expr of the element> <expr of the loop counter>` over
        # a filtered / other sequence or with another key or counter; any other layout is a header that is not understood
        shape = len(got) == 4 and [p_[0] for p_ in got] == ["lit", "val", "lit", "val"] and got[0] == want[0] and got[2] == want[2] \
            and _about(got[1][1], {ml[1]}) and _about(got[3][1], {("name", "loop")})
        if not okm and not shape:
            ctx.unrec("R1", "macros:IDX_ELEM", (MACROS, ml[5]), f"the IDX_ELEM_ lines of the header are not of the form `#define IDX_ELEM_<key> <counter>`: {foundm[:160]}")
        else:
            ctx.check(okm, "R1", "macros:IDX_ELEM", (MACROS, ml[5]),
                      "the header defines IDX_ELEM_<first key> = loop.index0 over the same network.elements", found=foundm)
    if not inner:
        ctx.missing("R1", f"{fn}:species-loop", (PHYS, o[5]), "no loop over the species inside the element branch")
        return
    _, it, env1, _g = inner[-1]
    # the loop is normalised to: one species variable ranging over a base sequence, plus names computed from that element
    itx = J.expr_at(tree, it, it[2], env1)
    env2 = dict(env1)
    svar = None
    if itx[0] == "call" and itx[1] == ("name", "zip") and not itx[3] and it[1][0] in ("tuple", "list") and len(it[1][1]) == len(itx[2]) \
            and all(t[0] == "name" for t in it[1][1]):
        # zip(S, S | map(..)): the k-th name is the k-th element-wise expression of one element of S
        svar = it[1][1][0]
        base = itx[2][0]
        for t, seq in list(zip(it[1][1], itx[2]))[1:]:
            b2, ex = J.elementwise(seq, svar)
            if b2 != base:
                # wrong when both are recognisably views of ONE list of which one side is filtered / re-ordered; a second sequence
                # that is not understood as a map over anything is not evidence
                same_root = J.unfilter(b2)[0] == J.unfilter(base)[0] and J.path(J.unfilter(base)[0]) is not None
                (ctx.bad if same_root else ctx.unrec)("R1", f"{fn}:species-loop", (PHYS, it[5]),
                        "the species and the abundance symbols paired by zip() do not come from the same sequence" if same_root else
                        f"how the abundance symbols paired by zip() derive from the species list is not understood: {J.show(seq)[:120]}",
                        **({"expected": f"zip({J.show(base)}, {J.show(base)} | map(..))", "found": J.show(itx)} if same_root else {}))
                return
            env2[t[1]] = ex
    elif it[1][0] == "name":
        svar, base = it[1], itx
    else:
        ctx.unrec("R1", f"{fn}:species-loop", (PHYS, it[5]), f"loop over {J.show(itx)} binding {J.show(it[1])}: shape not understood")
        return
    base = _unlist(base)
    if base != SPECIES_SEQ and J.path(J.unfilter(base)[0]) != "network.species":
        ctx.unrec("R1", f"{fn}:species-loop", (PHYS, it[5]), f"the sum ranges over {J.show(base)}, not recognisably the species list")
        return
    # (a loop filter `for .. in S if C` is the body under `{% if C %}`: it is judged with the term's guards below)
    ctx.check(base == SPECIES_SEQ, "R1", f"{fn}:species-loop", (PHYS, it[5]),
              "the sum ranges over every entry of network.species, each paired with its own abundance symbol",
              expected="for spec in network.species (unfiltered)", found=J.show(itx) + (f" if {J.show(it[7])}" if it[7] else ""))
    loop_filter = [("if+", J.expr_at(tree, it, it[7], env2))] if it[7] is not None else []
    # the term: the one output of the loop body that mentions the species (other outputs are layout)
    terms = []
    for x, env_, guards in J.scan(tree, it[3], env2):
        if x[0] == "out":
            e = J.expr_at(tree, x, x[1], env_)
            if _mentions(e, svar):
                terms.append((x, e, guards))
        elif x[0] == "for":
            ctx.unrec("R1", f"{fn}:term", (PHYS, x[5]), "nested loop inside the species loop: shape not understood")
            return
    if len(terms) != 1:
        (ctx.missing if not terms else ctx.unrec)("R1", f"{fn}:term", (PHYS, it[5]), f"expected one `count*abundance + ` output per species, found {len(terms)}")
        return
    x, e, guards = terms[0]
    natom = ("call", ("attr", ("attr", svar, "element_count"), "get"), (FIRST_KEY(evar),), ())
    table = ("attr", svar, "element_count")
    # the count of this element in this species, however it is looked up: T.get(e) | T.get(e, 0) | T[e]
    counts = (natom, ("call", ("attr", table, "get"), (FIRST_KEY(evar), ("const", 0)), ()), ("item", table, FIRST_KEY(evar)))
    # ... and "the species contains the element", however it is asked: the count itself | count > 0 | count != 0 | e in T
    present = set(counts) | {("cmp", c, ((op, ("const", 0)),)) for c in counts for op in ("gt", "ne")} | {("cmp", FIRST_KEY(evar), (("in", table),))}
    got = J.str_pieces(e)
    ab = [("lit", "*y[IDX_"), ("val", ("attr", svar, "alias")), ("lit", "] + ")]
    ok = len(got) == 4 and got[0][0] in ("fmt", "val") and got[0][-1] in counts and got[1:] == ab \
        and (got[0][0] == "val" or re.fullmatch(r"\.\d+[fe]|[eg]", got[0][1]) is not None)
    # wrong needs a term whose every printed value is computed from the loop's species and element alone (another count, another
    # symbol, other literal text); a value produced by something the analysis does not read (a macro, a filter of naunet's own, a
    # variable bound elsewhere) is a term that is not understood
    if not ok and not all(p_[0] == "lit" or _about(p_[-1], {svar, evar}, plain_filters=True) for p_ in got):
        ctx.unrec("R1", f"{fn}:term", (PHYS, x[2]), "the printed term is not reconstructible as <count> * <abundance symbol>: "
                  + " ~ ".join(repr(p[1]) if p[0] == "lit" else J.show(p[-1]) for p in got)[:200])
    else:
        ctx.check(ok, "R1", f"{fn}:term", (PHYS, x[2]),
                  "each term is <count of this element in this species> * <this species' abundance> + ",
                  expected=f"format({J.show(natom)}) ~ '*y[IDX_' ~ {J.show(svar)}.alias ~ '] + '",
                  found=" ~ ".join(repr(p[1]) if p[0] == "lit" else J.show(p[-1]) for p in got))
    tests = loop_filter + [(g[0], J.subst(J.inline_macros(tree, PHYS, g[1]), g[2])) for g in guards]
    def conj(t):
        return conj(t[1]) + conj(t[2]) if t[0] == "and" else [t]          # `if a and b` is `if a` + `if b`
    gok = bool(tests) and all(k == "if+" and all(c in present for c in conj(t)) for k, t in tests)
    if not gok and tests and not all(_about(t, {svar, evar}, plain_filters=True) for k, t in tests):
        ctx.unrec("R1", f"{fn}:term-guard", (PHYS, x[2]), "the condition under which a term is printed is not a test of the loop's species and element alone: "
                  + "; ".join(("" if k == "if+" else "not ") + J.show(t) for k, t in tests)[:200])
    else:
        ctx.check(gok, "R1", f"{fn}:term-guard", (PHYS, x[2]), "a term is skipped only when the count is zero/absent",
                  found="; ".join(("" if k == "if+" else "not ") + J.show(t) for k, t in tests))


_PLAIN_FILTERS = {"first", "last", "list", "length", "count", "int", "float", "abs", "string", "default", "d", "round", "upper", "lower"}


def _about(e, names, plain_filters=False) -> bool:
    """the template expression reads nothing but the given loop variables (any attribute / item / method of them) and constants:
    no other variable, no macro or global function call, (plain_filters) no filter beyond Jinja's value-preserving builtins"""
    names = {n[1] if isinstance(n, tuple) else n for n in names}
    for x in J._subterms(e):
        if not isinstance(x, tuple) or not x or not isinstance(x[0], str):
            continue
        if x[0] == "name" and x[1] not in names:
            return False
        if x[0] == "call" and x[1][0] != "attr":
            return False
        if plain_filters and x[0] == "filter" and x[1] not in _PLAIN_FILTERS:
            return False
        if x[0] in ("macrocall", "unknown", "test") and x[0] != "test":
            return False
    return True


def _unlist(e):
    """`S | list` visits the items of S in order"""
    while isinstance(e, tuple) and e and e[0] == "filter" and e[1] == "list" and not e[3] and not e[4]:
        e = e[2]
    return e


def _key_canon(e):
    """`d.keys() | first`, `d | first`, `d | list | first`, `d.keys() | list | first` all name the first key of the dict d"""
    if not isinstance(e, tuple) or not e:
        return e
    e = tuple(_key_canon(x) if isinstance(x, tuple) else x for x in e)
    if e[0] == "filter" and e[1] in ("first", "last") and not e[3] and not e[4]:
        x = e[2]
        for _ in range(4):
            if x[0] == "filter" and x[1] == "list" and not x[3] and not x[4]:
                x = x[2]
            elif x[0] == "call" and x[1][0] == "attr" and x[1][2] == "keys" and not x[2] and not x[3]:
                x = x[1][1]
            else:
                break
        return ("filter", e[1], x, (), ())
    return e


ALLOWED = {
    # disjunct (as a frozenset of literals)  ->  why it forces equal composition and charge
    frozenset({("both", "is_electron")}): "both are the electron (one composition)",
    frozenset({("eq", "name")}): "same name => same parse => same composition and charge",
}


def _r2(ctx):
    pkg = package(ctx.tree)

    def method(name):
        """the method as the rules read it: private helpers it was split into put back, class-level constants as their literals"""
        pkg.method("Species", name)
        return pkg.constants_folded("Species", pkg.expanded("Species", name))
    fn = method("__eq__")
    ctx.saw(SPECIES, "Species.__eq__")
    disj, probs = eq_disjuncts(fn)
    for p in probs:
        ctx.unrec("R2", "Species.__eq__", (SPECIES, fn.lineno), p)
    ctx.floor("R2", "disjuncts of Species.__eq__", len(disj), 3, (SPECIES, fn.lineno))
    unread = bool(probs) or len(disj) < 3
    for d in disj:
        lits = frozenset(d)
        key = "Species.__eq__:" + " & ".join(f"{k}:{v}" if len(l) == 2 else f"{l[0]}:{l[2]}" for l in sorted(d) for k, v in [l[:2]])
        if lits in ALLOWED:
            ctx.ok("R2", key, (SPECIES, fn.lineno), ALLOWED[lits])
            continue
        eqs = {l[1] for l in d if l[0] == "eq"}
        both = {l[1] for l in d if l[0] == "both"}
        # literals that are not `self.X == o.X` / `self.X and o.X` can only narrow the disjunct: it is judged by the equalities it
        # contains; when those do not force equal composition, a literal the analysis cannot read (a call, a comparison of two
        # different expressions) might -- that is "not understood", while a disjunct made of readable literals only is wrong
        other = [l for l in d if l[0] == "cmp"]
        forced = "name" in eqs or ("is_surface" in both and {"basename", "charge"} <= eqs) or ("is_grain" in both and {"grain_group", "charge"} <= eqs)
        if other and not forced:
            ctx.unrec("R2", key, (SPECIES, fn.lineno),
                      "species are identified by a comparison the analysis cannot read: " + "; ".join(str(l[-1]) for l in other)[:200])
            unread = True
            continue
        if "name" in eqs:
            ctx.ok("R2", key, (SPECIES, fn.lineno), "includes equal names")
        elif "is_surface" in both and {"basename", "charge"} <= eqs:
            ctx.ok("R2", key, (SPECIES, fn.lineno), "ice species with equal basename and charge (and group) have equal composition and charge")
        elif "is_grain" in both and {"grain_group", "charge"} <= eqs:
            ctx.ok("R2", key, (SPECIES, fn.lineno), "grains carry no chemical elements; equal group and charge")
        else:
            ctx.bad("R2", key, (SPECIES, fn.lineno),
                    "this way of identifying two species does not force equal composition and charge",
                    expected="name, or (is_surface, basename, charge), or (is_grain, grain_group, charge), or both electrons",
                    found=f"eq on {sorted(eqs)}, both {sorted(both)}")
    # R3 electrons: one hash value
    hf = method("__hash__")
    ctx.saw(SPECIES, "Species.__hash__")
    paths = hash_paths(hf, resolve=lambda name: pkg.method("Species", name))
    el = [p for p in paths if p[0] == "self.is_electron"]
    if not el:
        # no return path of __hash__ is selected by `self.is_electron`: how electrons are hashed is not understood
        ctx.unrec("R3", "Species.__hash__:electron", (SPECIES, hf.lineno), "no path of __hash__ is selected by self.is_electron: "
                  + "; ".join(f"{c}: {e}" for c, _, e in paths)[:160])
    else:
        ctx.check(len(el) == 1 and not el[0][1], "R3", "Species.__hash__:electron", (SPECIES, hf.lineno),
                  "all electron spellings hash to one constant (so e-/E/e share one slot of the species set)",
                  found="; ".join(f"{c}: {e}" for c, _, e in paths)[:160])
    has_e = any(frozenset(d) == frozenset({("both", "is_electron")}) for d in disj)
    if not has_e and unread:
        ctx.unrec("R3", "Species.__eq__:electron", (SPECIES, fn.lineno), "the equality method is not fully understood: whether two electrons compare equal is not decided")
    else:
        ctx.check(has_e, "R3", "Species.__eq__:electron", (SPECIES, fn.lineno), "all electron spellings compare equal")
    ie = method("is_electron")
    ctx.saw(SPECIES, "Species.is_electron")
    # constant folding of the predicate for the four spellings (no execution: a whitelisted expression evaluator over the AST)
    res = {nm: _fold_name_predicate(ie, nm) for nm in ("e", "E", "e-", "E-")}
    src = ast.unparse(ie)
    if any(v is None for v in res.values()):
        ctx.unrec("R3", "Species.is_electron", (SPECIES, ie.lineno), "is_electron is not a foldable predicate of self.name: " + src[-100:])
    else:
        ctx.check(all(res.values()), "R3", "Species.is_electron", (SPECIES, ie.lineno),
                  "is_electron recognises e, E, e-, E-" if all(res.values()) else
                  "is_electron misses the spelling(s) " + ", ".join(k for k, v in res.items() if not v) + ": those electrons get their own ODE slot",
                  found=src[-80:])


class _NoFold(Exception):
    pass


def _fold_name_predicate(fn, name):
    """Value of a property `fn(self)` that depends on self.name only, for self.name == name: straight-line assignments and one
    return, expressions over string literals, self.name, str methods without side effects, comparisons and boolean operators.
    None when anything else occurs."""
    STR_METHODS = {"upper", "lower", "casefold", "strip", "lstrip", "rstrip", "startswith", "endswith", "replace", "rstrip"}
    selfname = fn.args.args[0].arg if fn.args.args else "self"
    env = {}

    def ev(n):
        if isinstance(n, ast.Constant) and isinstance(n.value, (str, bool, int)):
            return n.value
        if isinstance(n, ast.Attribute) and isinstance(n.value, ast.Name) and n.value.id == selfname and n.attr == "name":
            return name
        if isinstance(n, ast.Name) and n.id in env:
            return env[n.id]
        if isinstance(n, (ast.List, ast.Tuple, ast.Set)):
            return [ev(x) for x in n.elts]
        if isinstance(n, ast.Call) and isinstance(n.func, ast.Attribute) and n.func.attr in STR_METHODS and not n.keywords:
            recv = ev(n.func.value)
            if isinstance(recv, str):
                return getattr(recv, n.func.attr)(*[ev(a) for a in n.args])
        if isinstance(n, ast.Call) and isinstance(n.func, ast.Name) and n.func.id in ("bool", "len", "str") and len(n.args) == 1 and not n.keywords:
            return {"bool": bool, "len": len, "str": str}[n.func.id](ev(n.args[0]))
        if isinstance(n, ast.Compare):
            left = ev(n.left)
            for op, c in zip(n.ops, n.comparators):
                right = ev(c)
                r = {ast.Eq: lambda: left == right, ast.NotEq: lambda: left != right, ast.In: lambda: left in right,
                     ast.NotIn: lambda: left not in right}.get(type(op))
                if r is None:
                    raise _NoFold()
                if not r():
                    return False
                left = right
            return True
        if isinstance(n, ast.BoolOp):
            vals = [ev(x) for x in n.values]
            return all(vals) if isinstance(n.op, ast.And) else any(vals)
        if isinstance(n, ast.UnaryOp) and isinstance(n.op, ast.Not):
            return not ev(n.operand)
        if isinstance(n, ast.IfExp):
            return ev(n.body) if ev(n.test) else ev(n.orelse)
        if isinstance(n, ast.Subscript) and isinstance(n.slice, ast.Constant) and isinstance(n.slice.value, int):
            return ev(n.value)[n.slice.value]
        raise _NoFold()

    def run(stmts):
        for st in stmts:
            if isinstance(st, ast.Expr) and isinstance(st.value, ast.Constant):
                continue
            if isinstance(st, ast.Assign) and len(st.targets) == 1 and isinstance(st.targets[0], ast.Name):
                env[st.targets[0].id] = ev(st.value)
            elif isinstance(st, ast.Return) and st.value is not None:
                return bool(ev(st.value))
            elif isinstance(st, ast.If):
                r = run(st.body if ev(st.test) else st.orelse)
                if r is not None:
                    return r
            else:
                raise _NoFold()
        return None
    try:
        return run(fn.body)
    except (_NoFold, Exception):
        return None


MUTANTS = [
    {"name": "gain-monomial-dedup", "file": FILE, "old": 'rhs[specidx] += f" + {rate_sym}[{rl}]*{rsym_mul}"', "new": 'rhs[specidx] += f" + {rate_sym}[{rl}]*{\'*\'.join(dict.fromkeys(rsym))}"', "rules": ["R0"]},
    {"name": "natom-from-elem", "file": PHYS, "old": "{% set natom = spec.element_count.get(elemname) -%}", "new": "{% set natom = elem.element_count.get(elemname) -%}", "rules": ["R1"]},
    {"name": "ice-eq-without-charge", "file": SPECIES, "old": "                    and self.surface_group == o.surface_group\n                    and self.charge == o.charge\n", "new": "                    and self.surface_group == o.surface_group\n", "rules": ["R2"]},
    {"name": "eq-name-upper", "file": SPECIES, "old": "                or self.name == o.name\n", "new": "                or self.name.upper() == o.name.upper()\n", "rules": ["R2"]},
    {"name": "abund-surface-only", "file": PHYS, "old": "return {% for spec, ab in zip(network.species, specabund) -%}", "new": "return {% for spec, ab in zip(network.species | rejectattr('is_surface'), specabund) -%}", "rules": ["R1"]},
    {"name": "guard-loop-index", "file": PHYS, "old": "if (elemidx == IDX_ELEM_{{ elem.element_count.keys() | first }}) {", "new": "if (elemidx == IDX_ELEM_{{ elem.element_count.keys() | last }}) {", "rules": ["R1"]},
    {"name": "skip-catalyst", "file": FILE, "old": "            for specidx in pspecidx:\n                rhs[specidx] += f\" + ", "new": "            for specidx in pspecidx:\n                if specidx in rspecidx:\n                    continue\n                rhs[specidx] += f\" + ", "rules": ["R0"]},
    {"name": "electron-hash-name", "file": SPECIES, "old": '            hash("Electron")\n            if self.is_electron', "new": '            hash(self.name)\n            if self.is_electron', "rules": ["R3"]},
]
MUTANTS += [
    {"name": "species-len-makes-electron-falsy", "file": SPECIES, "old": "    def __hash__(self) -> int:\n", "new": "    def __len__(self) -> int:\n        return len(self.element_count)\n\n    def __hash__(self) -> int:\n", "rules": ["R0"]},
    {"name": "electron-case-sensitive", "file": SPECIES, "old": 'return self.name.upper() in ["E", "E-"]', "new": 'return self.name in ["E", "E-"]', "rules": ["R3"]},
    {"name": "ice-eq-tuple-without-charge", "file": SPECIES, "old": "                    and self.surface_group == o.surface_group\n                    and self.charge == o.charge\n                    and self.basename == o.basename\n", "new": "                    and (self.surface_group, self.basename) == (o.surface_group, o.basename)\n", "rules": ["R2"]},
    {"name": "matches-collected-in-dict", "file": SPECIES, "old": '        for s, e, n in zip(starts, ends, matchnames):\n            # if there is replacement, save the element name with the new value\n            n = self._replacement.get(n, n)\n            if e != s:\n                substring = parsename[e:s]\n                if substring.isdigit():\n                    self._add_element_count(n, int(parsename[e:s]))\n                else:\n                    raise RuntimeError(\n                        f\'Unrecongnized name: "{substring}" in "{self.name}"\'\n                    )\n            else:\n                if n in symbols:\n                    self._add_element_count(n, 0)\n                elif n:\n                    self._add_element_count(n, 1)\n', "new": '        # Go through the name once: check everything between two matches is a\n        # number before anything is saved in the instance, and build the name\n        # with the replaced element names at the same time\n        newname = ""\n        components = {}\n        for s, e, n in zip(starts, ends, matchnames):\n            # if there is replacement, save the element name with the new value\n            n = self._replacement.get(n, n)\n            substring = parsename[e:s]\n            if substring and not substring.isdigit():\n                raise RuntimeError(\n                    f\'Unrecongnized name: "{substring}" in "{self.name}"\'\n                )\n            newname = f"{newname}{n}{substring}"\n            if n:\n                components[n] = int(substring) if substring else int(n not in symbols)\n\n        for n, count in components.items():\n            self._add_element_count(n, count)\n', "rules": ["R6"]},
    {"name": "eq-guard-clauses-ice-without-charge", "file": SPECIES, "old": '        if isinstance(o, Species):\n            return (\n                (self.is_electron and o.is_electron)\n                or (\n                    self.is_grain\n                    and o.is_grain\n                    and self.grain_group == o.grain_group\n                    and self.charge == o.charge\n                )\n                or (\n                    self.is_surface\n                    and o.is_surface\n                    and self.surface_group == o.surface_group\n                    and self.charge == o.charge\n                    and self.basename == o.basename\n                )\n                or self.name == o.name\n            )\n            # return (self.is_electron and o.is_electron) or self.name == o.name\n        return NotImplemented\n', "new": '        if not isinstance(o, Species):\n            return NotImplemented\n        if self.is_electron and o.is_electron:\n            return True\n        if self.is_grain and o.is_grain:\n            if self.grain_group == o.grain_group and self.charge == o.charge:\n                return True\n        if self.is_surface and o.is_surface:\n            same_group = self.surface_group == o.surface_group\n            if same_group and self.basename == o.basename:\n                return True\n        return self.name == o.name\n', "rules": ["R2"]},
    {"name": "hash-guard-clause-electron-by-name", "file": SPECIES, "old": '        return (\n            hash("Electron")\n            if self.is_electron\n            else hash(\n                f"{self.basename}"\n                f"{self.charge}"\n                f"{self.is_grain}"\n                f"{self.grain_group}"\n                f"{self.is_surface}"\n                f"{self.surface_group}"\n            )\n        )\n\n', "new": '        if self.is_electron:\n            return hash(self.name)\n        identity = (self.basename, self.charge, self.is_grain, self.grain_group, self.is_surface, self.surface_group)\n        return hash("".join(str(part) for part in identity))\n\n', "rules": ["R3"]},
    {"name": "element-count-get-of-other-key", "file": SPECIES, "old": "        if element in self.element_count.keys():\n            self.element_count[element] += count\n        else:\n            self.element_count[element] = count\n", "new": "        self.element_count[element] = self.element_count.get(self.name, 0) + count\n", "rules": ["R6"]},
    {"name": "abund-of-other-list", "file": PHYS, "old": "zip(network.species, specabund)", "new": "zip(network.species | sort(attribute='name'), specabund)", "rules": ["R1"]},
    {"name": "term-count-of-element-species", "file": PHYS, "old": '{{ "{:.1f}".format(natom) ~ "*" ~ ab ~ " + "}}', "new": '{{ "{:.1f}*{} + ".format(elem.element_count.get(elemname), ab) }}', "rules": ["R1"]},
    {"name": "loop-filter-drops-ice", "file": PHYS, "old": "zip(network.species, specabund) -%}", "new": "zip(network.species, specabund) if not spec.is_surface -%}", "rules": ["R1"]},
    {"name": "electron-names-constant-misses-E", "edits": [
        {"file": SPECIES, "old": "    _replacement = {}\n", "new": "    _replacement = {}\n    _electron_names = (\"E-\",)\n", "count": 1},
        {"file": SPECIES, "old": 'return self.name.upper() in ["E", "E-"]', "new": "return self.name.upper() in self._electron_names"}], "rules": ["R3"]},
    {"name": "eq-grain-helper-without-charge", "edits": [
        {"file": SPECIES, "old": "                or (\n                    self.is_grain\n                    and o.is_grain\n                    and self.grain_group == o.grain_group\n                    and self.charge == o.charge\n                )\n", "new": "                or self._same_grain(o)\n"},
        {"file": SPECIES, "old": "    def __hash__(self) -> int:\n", "new": "    def _same_grain(self, o):\n        return self.is_grain and o.is_grain and self.grain_group == o.grain_group\n\n    def __hash__(self) -> int:\n"}], "rules": ["R2"]},
    {"name": "macro-header-last-key", "file": MACROS, "old": "#define IDX_ELEM_{{ spec.element_count.keys() | first }} {{ loop.index0 }}", "new": "{% set sym = spec.element_count | last %}\n#define IDX_ELEM_{{ sym }} {{ loop.index0 }}", "rules": ["R1"]},
    {"name": "element-count-dict-update", "file": SPECIES, "old": "        if element in self.element_count.keys():\n            self.element_count[element] += count\n        else:\n            self.element_count[element] = count\n", "new": "        self.element_count.update({element: count})\n", "rules": ["R6"]},
    {"name": "element-count-overwrite", "file": SPECIES, "old": "        if element in self.element_count.keys():\n            self.element_count[element] += count\n        else:\n            self.element_count[element] = count\n", "new": "        self.element_count[element] = count\n", "rules": ["R6"]},
    {"name": "cvode-fex-zeroes-exhausted", "file": "naunet/templates/cvode/src/naunet_fex.cpp.j2", "old": "#if ((NHEATPROCS || NCOOLPROCS) && NAUNET_DEBUG)\n    printf(\"Total heating/cooling rate", "new": "    for (int i = 0; i < NSPECIES; i++) {\n        if (y[i] <= 0.0 && ydot[i] < 0.0) ydot[i] = 0.0;\n    }\n#if ((NHEATPROCS || NCOOLPROCS) && NAUNET_DEBUG)\n    printf(\"Total heating/cooling rate", "rules": ["R5"]},
    {"name": "alias-strip-nonword", "file": SPECIES, "old": "        return self._alias\n\n    @alias.setter", "new": "        self._alias = re.sub(r'\\W', '', self._alias)\n        return self._alias\n\n    @alias.setter", "rules": ["R4"]},
    {"name": "create-species-drops-lowercase-names", "file": "naunet/component.py", "old": "if species_name and species_name not in Species.known_pseudoelements():", "new": "if species_name and species_name not in Species.known_pseudoelements() and not species_name.islower():", "rules": ["R0"]},
    {"name": "rate-builder-strips-grain-through-alias", "file": "naunet/grains/hh93grain.py", "old": "        [spec] = [s for s in reac.reactants if not s.is_grain]\n", "new": "        others = reac.reactants\n        others.remove(next(s for s in others if s.is_grain))\n        [spec] = others\n", "rules": ["R0"]},
    {"name": "header-macro-last-key-printf", "file": MACROS, "old": "#define IDX_ELEM_{{ spec.element_count.keys() | first }} {{ loop.index0 }}", "new": "{{ \"#define IDX_ELEM_%s %d\" | format(spec.element_count | last, loop.index0) }}", "rules": ["R1"]},
    {"name": "element-count-try-except-overwrites", "file": SPECIES, "old": "        if element in self.element_count.keys():\n            self.element_count[element] += count\n        else:\n            self.element_count[element] = count\n", "new": "        try:\n            self.element_count[element] = count\n        except KeyError:\n            self.element_count[element] += count\n", "rules": ["R6"]},
    {"name": "eq-any-of-generator-ice-without-charge", "edits": [
        {"file": SPECIES, "old": '            return (\n                (self.is_electron and o.is_electron)\n                or (\n                    self.is_grain\n                    and o.is_grain\n                    and self.grain_group == o.grain_group\n                    and self.charge == o.charge\n                )\n                or (\n                    self.is_surface\n                    and o.is_surface\n                    and self.surface_group == o.surface_group\n                    and self.charge == o.charge\n                    and self.basename == o.basename\n                )\n                or self.name == o.name\n            )\n', "new": '            return any(self._same(o))\n'},
        {"file": SPECIES, "old": "    def __hash__(self) -> int:\n", "new": '    def _same(self, o):\n        yield self.is_electron and o.is_electron\n        yield self.is_grain and o.is_grain and self.grain_group == o.grain_group and self.charge == o.charge\n        yield self.is_surface and o.is_surface and self.surface_group == o.surface_group and self.basename == o.basename\n        yield self.name == o.name\n\n    def __hash__(self) -> int:\n'}], "rules": ["R2"]},
    {"name": "alias-single-M", "file": SPECIES, "old": 'else "M" * abs(self.charge),', "new": 'else "M",', "rules": ["R4"]},
]
BENIGN = [
    {"name": "electron-lowercase-tuple", "file": SPECIES, "old": 'return self.name.upper() in ["E", "E-"]', "new": 'return self.name.lower() in ("e", "e-")'},
    {"name": "ice-eq-tuple-compare", "file": SPECIES, "old": "                    and self.surface_group == o.surface_group\n                    and self.charge == o.charge\n                    and self.basename == o.basename\n", "new": "                    and (self.surface_group, self.charge, self.basename) == (o.surface_group, o.charge, o.basename)\n"},
    # (not output-identical for repeated surface/grain symbols, but composition-preserving: the property holds, the check must be silent)
    {"name": "matches-collected-in-adding-dict", "file": SPECIES, "old": '        for s, e, n in zip(starts, ends, matchnames):\n            # if there is replacement, save the element name with the new value\n            n = self._replacement.get(n, n)\n            if e != s:\n                substring = parsename[e:s]\n                if substring.isdigit():\n                    self._add_element_count(n, int(parsename[e:s]))\n                else:\n                    raise RuntimeError(\n                        f\'Unrecongnized name: "{substring}" in "{self.name}"\'\n                    )\n            else:\n                if n in symbols:\n                    self._add_element_count(n, 0)\n                elif n:\n                    self._add_element_count(n, 1)\n', "new": '        # Go through the name once: check everything between two matches is a\n        # number before anything is saved in the instance, and build the name\n        # with the replaced element names at the same time\n        newname = ""\n        components = {}\n        for s, e, n in zip(starts, ends, matchnames):\n            # if there is replacement, save the element name with the new value\n            n = self._replacement.get(n, n)\n            substring = parsename[e:s]\n            if substring and not substring.isdigit():\n                raise RuntimeError(\n                    f\'Unrecongnized name: "{substring}" in "{self.name}"\'\n                )\n            newname = f"{newname}{n}{substring}"\n            if n:\n                components[n] = components.get(n, 0) + (int(substring) if substring else int(n not in symbols))\n\n        for n, count in components.items():\n            self._add_element_count(n, count)\n'},
    {"name": "eq-guard-clauses", "file": SPECIES, "old": '        if isinstance(o, Species):\n            return (\n                (self.is_electron and o.is_electron)\n                or (\n                    self.is_grain\n                    and o.is_grain\n                    and self.grain_group == o.grain_group\n                    and self.charge == o.charge\n                )\n                or (\n                    self.is_surface\n                    and o.is_surface\n                    and self.surface_group == o.surface_group\n                    and self.charge == o.charge\n                    and self.basename == o.basename\n                )\n                or self.name == o.name\n            )\n            # return (self.is_electron and o.is_electron) or self.name == o.name\n        return NotImplemented\n', "new": '        if not isinstance(o, Species):\n            return NotImplemented\n        if self.is_electron and o.is_electron:\n            return True\n        if self.is_grain and o.is_grain:\n            if self.grain_group == o.grain_group and self.charge == o.charge:\n                return True\n        if self.is_surface and o.is_surface:\n            same_group = self.surface_group == o.surface_group\n            if same_group and self.charge == o.charge and self.basename == o.basename:\n                return True\n        return self.name == o.name\n'},
    {"name": "hash-guard-clause", "file": SPECIES, "old": '        return (\n            hash("Electron")\n            if self.is_electron\n            else hash(\n                f"{self.basename}"\n                f"{self.charge}"\n                f"{self.is_grain}"\n                f"{self.grain_group}"\n                f"{self.is_surface}"\n                f"{self.surface_group}"\n            )\n        )\n\n', "new": '        if self.is_electron:\n            return hash("Electron")\n        identity = (self.basename, self.charge, self.is_grain, self.grain_group, self.is_surface, self.surface_group)\n        return hash("".join(str(part) for part in identity))\n\n'},
    {"name": "element-count-get-plus", "file": SPECIES, "old": "        if element in self.element_count.keys():\n            self.element_count[element] += count\n        else:\n            self.element_count[element] = count\n", "new": "        self.element_count[element] = self.element_count.get(element, 0) + count\n"},
    {"name": "abund-symbol-per-species", "edits": [
        {"file": PHYS, "old": '        {% set specabund = network.species | map(attribute="alias") | map("prefix", "y[IDX_") | map("suffix", "]") -%}\n', "new": ""},
        {"file": PHYS, "old": "        return {% for spec, ab in zip(network.species, specabund) -%}\n", "new": '        return {% for spec in network.species -%}\n               {% set ab = spec.alias | prefix("y[IDX_") | suffix("]") -%}\n'}]},
    {"name": "term-one-format-string", "file": PHYS, "old": '{{ "{:.1f}".format(natom) ~ "*" ~ ab ~ " + "}}', "new": '{{ "{:.1f}*{} + ".format(natom, ab) }}'},
    {"name": "guard-uses-set-name", "file": PHYS, "old": "if (elemidx == IDX_ELEM_{{ elem.element_count.keys() | first }}) {", "new": "if (elemidx == IDX_ELEM_{{ elemname }}) {"},
    {"name": "macro-header-set-name", "file": MACROS, "old": "#define IDX_ELEM_{{ spec.element_count.keys() | first }} {{ loop.index0 }}", "new": "{% set sym = spec.element_count | first %}\n#define IDX_ELEM_{{ sym }} {{ loop.index0 }}"},
    {"name": "term-guard-as-loop-filter", "edits": [
        {"file": PHYS, "old": "zip(network.species, specabund) -%}", "new": "zip(network.species, specabund) if spec.element_count.get(elemname) -%}"},
        {"file": PHYS, "old": "               {% if natom -%}\n", "new": ""},
        {"file": PHYS, "old": "               {%- endif %}\n", "new": ""}]},
    {"name": "electron-names-class-constant", "edits": [
        {"file": SPECIES, "old": "    _replacement = {}\n", "new": "    _replacement = {}\n    _electron_names = (\"E\", \"E-\")\n", "count": 1},
        {"file": SPECIES, "old": 'return self.name.upper() in ["E", "E-"]', "new": "return self.name.upper() in self._electron_names"}]},
    {"name": "eq-grain-helper-predicate", "edits": [
        {"file": SPECIES, "old": "                or (\n                    self.is_grain\n                    and o.is_grain\n                    and self.grain_group == o.grain_group\n                    and self.charge == o.charge\n                )\n", "new": "                or self._same_grain(o)\n"},
        {"file": SPECIES, "old": "    def __hash__(self) -> int:\n", "new": "    def _same_grain(self, o):\n        return self.is_grain and o.is_grain and self.grain_group == o.grain_group and self.charge == o.charge\n\n    def __hash__(self) -> int:\n"}]},
    {"name": "term-guard-membership", "edits": [
        {"file": PHYS, "old": "{% set natom = spec.element_count.get(elemname) -%}", "new": "{% set natom = spec.element_count.get(elemname, 0) -%}"},
        {"file": PHYS, "old": "               {% if natom -%}\n", "new": "               {% if elemname in spec.element_count and natom > 0 -%}\n"}]},
    {"name": "element-count-try-except", "file": SPECIES, "old": "        if element in self.element_count.keys():\n            self.element_count[element] += count\n        else:\n            self.element_count[element] = count\n", "new": "        try:\n            self.element_count[element] += count\n        except KeyError:\n            self.element_count[element] = count\n"},
    {"name": "element-count-setdefault", "file": SPECIES, "old": "        if element in self.element_count.keys():\n            self.element_count[element] += count\n        else:\n            self.element_count[element] = count\n", "new": "        self.element_count.setdefault(element, 0)\n        self.element_count[element] += count\n"},
    {"name": "term-printf-format", "file": PHYS, "old": '{{ "{:.1f}".format(natom) ~ "*" ~ ab ~ " + "}}', "new": '{{ "%.1f*%s + " | format(natom, ab) }}'},
    {"name": "abund-symbols-materialised", "file": PHYS, "old": '{% set specabund = network.species | map(attribute="alias") | map("prefix", "y[IDX_") | map("suffix", "]") -%}', "new": '{% set specabund = network.species | map(attribute="alias") | map("prefix", "y[IDX_") | map("suffix", "]") | list -%}', "count": 1},
    {"name": "header-loop-over-mapped-counts", "file": MACROS, "old": "{% for spec in network.elements %}\n#define IDX_ELEM_{{ spec.element_count.keys() | first }} {{ loop.index0 }}", "new": "{% for counts in network.elements | map(attribute=\"element_count\") %}\n{{ \"#define IDX_ELEM_\" ~ (counts | first) ~ \" \" ~ loop.index0 }}"},
    {"name": "eq-any-of-generator", "edits": [
        {"file": SPECIES, "old": '            return (\n                (self.is_electron and o.is_electron)\n                or (\n                    self.is_grain\n                    and o.is_grain\n                    and self.grain_group == o.grain_group\n                    and self.charge == o.charge\n                )\n                or (\n                    self.is_surface\n                    and o.is_surface\n                    and self.surface_group == o.surface_group\n                    and self.charge == o.charge\n                    and self.basename == o.basename\n                )\n                or self.name == o.name\n            )\n', "new": '            return any(self._same(o))\n'},
        {"file": SPECIES, "old": "    def __hash__(self) -> int:\n", "new": '    def _same(self, o):\n        yield self.is_electron and o.is_electron\n        yield self.is_grain and o.is_grain and self.grain_group == o.grain_group and self.charge == o.charge\n        yield self.is_surface and o.is_surface and self.surface_group == o.surface_group and self.charge == o.charge and self.basename == o.basename\n        yield self.name == o.name\n\n    def __hash__(self) -> int:\n'}]},
    {"name": "header-lines-by-macro", "file": MACROS, "old": "{% for spec in network.elements %}\n#define IDX_ELEM_{{ spec.element_count.keys() | first }} {{ loop.index0 }}", "new": "{% macro define_index(label, slot) %}#define IDX_{{ label }} {{ slot }}{% endmacro %}\n{% for spec in network.elements %}\n{{ define_index(\"ELEM_\" ~ (spec.element_count | first), loop.index0) }}"},
    {"name": "eq-disjuncts-reordered", "file": SPECIES, "old": "                (self.is_electron and o.is_electron)\n                or (", "new": "                self.name == o.name\n                or (self.is_electron and o.is_electron)\n                or ("},
]
