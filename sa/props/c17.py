"""C17 -- code generation is a deterministic function of the network description."""
from __future__ import annotations

import ast
import functools
import re

from ..pymodel import package
from ..core import AnalysisError

EXPLANATION = (
    "R1 in every module that takes part in building or rendering a network, no for / comprehension / join / list() iterates a set-typed value "
    "(set literals and comprehensions, set(), set algebra, the cached species sets and the properties returning them) unless it is wrapped in "
    "sorted() or feeds an order-insensitive consumer (set/len/any/all/sum/membership); exemptions are listed one by one with a reason; a positive "
    "fixture proves the rule fires; R2 the only time sources are the two datetime.now() calls (project version, excluded by the property); no "
    "random, id(), hash()-derived text, os.environ, directory listing order reaches the output; R3 global-state discipline: every write to a "
    "module- or class-level mutable (Species._known_elements/_known_pseudoelements/_replacement, chemistrydata.user_*, KROMEReaction.reacformat/"
    "_user_commons/_user_vars, the two registries of network.py) is one of the sanctioned writers, and every Network entry point that parses "
    "species names installs the network's own element lists first -- unconditionally; R4 every class attribute KROMEReaction.preprocessing mutates "
    "is reset by initialize(), which Network calls before reading a file / creating a reaction from a string; R5 the renderers (templateloader.py, "
    "patches.py) never write to an object they were given (parameters and locals aliasing them): no in-place method, item/attribute store or del -- "
    "the one sanctioned exception (network.reindex(), idempotent) is listed; R6 outside species.py the process-wide Species tables are read only by the "
    "listed readers (name parsing under installation, the Enzo patch's save/restore); R7 a renderer keeps nothing between two renderings (helper objects live inside one "
    "rendering call); R8 Species.__lt__ -- the order sorted() gives the SET of species in Network.species -- compares a key that contains the name itself on both sides, so "
    "that two different species never tie and fall back on the hash-seed dependent set order (shared with C15.R7).")
ASSUMPTIONS = [
    "byte identity of two actual runs is not decided",
    "Jinja's list_templates() returns a sorted list",
    "dict iteration follows insertion order (Python >= 3.7)",
]
ENGINES = ["pymodel"]

NF = "naunet/network.py"
SP = "naunet/species.py"
KR = "naunet/reactions/kromereaction.py"
SCOPE_EXCLUDE = ("naunet/console/commands/extend.py", "naunet/console/commands/new.py", "naunet/console/application.py", "naunet/examples/")
SET_ATTRS = {"_reactants", "_products"}
SET_PROPS = {"reactants", "products", "grain_groups", "sources"}       # Network properties returning sets
ORDER_FREE = {"set", "frozenset", "sorted", "len", "any", "all", "sum", "min", "max", "Counter", "bool"}
# (file, function, source text of the iterated expression) -> reason
EXEMPT = {
    (NF, "Network.grain_groups", "self._reactants | self._products"): "the list is only scanned to collect integer group numbers into sets",
    (NF, "Network.grains", "grain_groups"): "set of small ints: iteration order of ints does not depend on the hash seed; one Grain per group, merged by symbol",
    ("naunet/reactions/reaction.py", "Reaction.grain_group", "groups"): "the set has at most one element here (more than one raises just above)",
}
FIXTURE = '''
def emit(net):
    out = []
    for s in net.reactants | net.products:
        out.append(s.name)
    return ",".join({x for x in out})
'''


# ------------------------------------------------------------------ set-type inference

class SetTyper(ast.NodeVisitor):
    """Per function: which local names / expressions are set-typed."""

    def __init__(self, func, cls_set_attrs, in_network=True):
        self.func = func
        self.in_network = in_network
        self.setnames = set()
        self.attrs = cls_set_attrs
        changed = True
        while changed:
            changed = False
            for n in ast.walk(func):
                if isinstance(n, ast.Assign) and len(n.targets) == 1 and isinstance(n.targets[0], ast.Name):
                    if self.is_set(n.value) and n.targets[0].id not in self.setnames:
                        self.setnames.add(n.targets[0].id)
                        changed = True
                elif isinstance(n, ast.Assign) and isinstance(n.targets[0], ast.Tuple) and isinstance(n.value, ast.Tuple):
                    for t, v in zip(n.targets[0].elts, n.value.elts):
                        if isinstance(t, ast.Name) and self.is_set(v) and t.id not in self.setnames:
                            self.setnames.add(t.id)
                            changed = True

    def is_set(self, e) -> bool:
        if isinstance(e, (ast.Set, ast.SetComp)):
            return True
        if isinstance(e, ast.Call):
            f = e.func
            if isinstance(f, ast.Name) and f.id in ("set", "frozenset"):
                return True
            if isinstance(f, ast.Attribute) and f.attr in ("union", "intersection", "difference", "symmetric_difference", "copy") and self.is_set(f.value):
                return True
            if isinstance(f, ast.Attribute) and f.attr == "find_source_sink":
                return False
            return False
        if isinstance(e, ast.BinOp) and isinstance(e.op, (ast.BitOr, ast.BitAnd, ast.Sub, ast.BitXor)):
            # a dictionary view combined with a set operator (`d.keys() & names`, `names - d.keys()`, `d.items() ^ ..`) is a SET -- the
            # only other operand types these operators accept next to a view are sets and iterables, and the result is always a set
            def view(x):
                return isinstance(x, ast.Call) and isinstance(x.func, ast.Attribute) and x.func.attr in ("keys", "items") and not x.args and not x.keywords
            return self.is_set(e.left) or self.is_set(e.right) or view(e.left) or view(e.right)
        if isinstance(e, ast.Name):
            return e.id in self.setnames
        if isinstance(e, ast.Attribute):
            owner = e.value.id if isinstance(e.value, ast.Name) else None
            if e.attr in self.attrs and (owner != "self" or self.in_network):
                return True
            if e.attr in SET_PROPS and (owner in ("net", "network") or (owner == "self" and self.in_network)):
                return True
        if isinstance(e, ast.IfExp):
            return self.is_set(e.body) or self.is_set(e.orelse)
        return False


def _parents(func):
    par = {}
    for n in ast.walk(func):
        for c in ast.iter_child_nodes(n):
            par[c] = n
    return par


def unordered_iterations(func, typer):
    """[(node, iterated expr, how)] for iterations over set-typed values whose order can reach a result."""
    par = _parents(func)
    out = []

    def consumer_is_order_free(node):
        """node is a comprehension / generator / list(...) call: is it directly fed to an order-insensitive consumer?"""
        p = par.get(node)
        if isinstance(p, ast.Call) and isinstance(p.func, ast.Name) and p.func.id in ORDER_FREE and node in p.args:
            return True
        if isinstance(p, ast.Call) and isinstance(p.func, ast.Attribute) and p.func.attr in ("update", "difference", "union", "issubset", "intersection") and node in p.args:
            return True
        if isinstance(p, ast.Compare):
            return True
        return False

    for n in ast.walk(func):
        if isinstance(n, ast.For) and typer.is_set(n.iter):
            out.append((n, n.iter, "for loop"))
        elif isinstance(n, (ast.ListComp, ast.GeneratorExp, ast.DictComp)):
            for g in n.generators:
                if typer.is_set(g.iter) and not consumer_is_order_free(n):
                    out.append((n, g.iter, "comprehension"))
        elif isinstance(n, ast.SetComp):
            pass
        elif isinstance(n, ast.Call):
            f = n.func
            if isinstance(f, ast.Name) and f.id in ("list", "tuple", "enumerate", "iter", "next") and n.args and typer.is_set(n.args[0]):
                if not consumer_is_order_free(n):
                    out.append((n, n.args[0], f"{f.id}()"))
            if isinstance(f, ast.Attribute) and f.attr == "join" and n.args and typer.is_set(n.args[0]):
                out.append((n, n.args[0], "str.join"))
            if isinstance(f, ast.Attribute) and f.attr in ("extend",) and n.args and typer.is_set(n.args[0]):
                out.append((n, n.args[0], "list.extend"))
        elif isinstance(n, ast.Starred) and typer.is_set(n.value):
            out.append((n, n.value, "unpacking"))
    return out


def check(ctx):
    pkg = package(ctx.tree)
    _r1(ctx, pkg)
    _r2(ctx, pkg)
    _r3(ctx, pkg)
    _r4(ctx, pkg)
    _r5(ctx, pkg)
    _r6(ctx, pkg)
    stateless_renderer(ctx, pkg, "R7")
    # R8 the order of Network.species (sorted() of a SET of species: IDX_ macros, rows and columns of everything generated) is decided
    # by Species.__lt__ alone only if two different species never tie -- a tie leaves the two in the set's iteration order, which
    # follows the hash seed (shared with C15.R7, where the same order makes the formatted reactions canonical)
    from .c15 import _r7 as total_order
    ctx.absorb(lambda sub: total_order(sub, package(sub.tree), "R8", consequence="and `Network.species` sorts a SET: tied species (CO / #CO) stay in the set's iteration order, which follows "
                                       "the interpreter's hash seed -- every IDX_ macro, the rows of fex / jac and the tables of constants change from run to run"), "R8")


# ------------------------------------------------------------------ R7  a renderer keeps nothing between two renderings

RENDERER_FILES = ("naunet/templateloader.py", "naunet/patches.py")


CONSTRUCTION = ("__init__", "__post_init__", "__new__", "__init_subclass__", "__set_name__")


def _renderer_classes(pkg):
    """(renderers, helpers): the top-level classes of the renderer modules, split by role.  A RENDERER is a class whose instances
    are handed to the rest of the package and rendered through: other modules refer to it by name, or a module-level function of
    the renderer modules that other modules call returns one (a factory), or -- nobody building it inside the renderer modules --
    it offers a rendering entry point (a method whose name says render); base and derived classes of a renderer are renderers.
    Everything else defined there -- accumulators, tables, record types built inside the rendering code -- is a HELPER."""
    cands = [ci for ci in sorted(pkg.classes.values(), key=lambda c: c.name) if ci.file in RENDERER_FILES and "." not in ci.name]
    names = {ci.name for ci in cands}
    outside = set()
    for f, mod in pkg.modules.items():
        if f in RENDERER_FILES:
            continue
        for n in ast.walk(mod):
            if isinstance(n, ast.Name):
                outside.add(n.id)
            elif isinstance(n, ast.Attribute):
                outside.add(n.attr)
            elif isinstance(n, ast.alias):
                outside.add(n.name.split(".")[-1])
    handed_out, built_inside = set(), set()
    for f in RENDERER_FILES:
        mod = pkg.modules.get(f)
        if mod is None:
            continue
        for st in mod.body:
            if isinstance(st, ast.FunctionDef) and st.name in outside:
                for r in ast.walk(st):
                    if isinstance(r, ast.Return) and r.value is not None:
                        handed_out |= {x.id for x in ast.walk(r.value) if isinstance(x, ast.Name) and x.id in names}
            elif not isinstance(st, (ast.FunctionDef, ast.AsyncFunctionDef, ast.ClassDef)):
                # a module-level table of classes (a registry the factory looks the class up in)
                handed_out |= {x.id for x in ast.walk(st) if isinstance(x, ast.Name) and isinstance(x.ctx, ast.Load) and x.id in names
                               and not any(isinstance(c, ast.Call) and c.func is x for c in ast.walk(st))}
        for c in ast.walk(mod):
            if isinstance(c, ast.Call) and isinstance(c.func, ast.Name) and c.func.id in names:
                built_inside.add(c.func.id)
    is_r = set()
    for ci in cands:
        meths = {m for m, fn in ci.methods.items() if isinstance(fn, ast.FunctionDef)}
        if (ci.name in outside and any(m not in CONSTRUCTION for m in meths)) or ci.name in handed_out \
                or (any("render" in m.lower() for m in meths) and ci.name not in built_inside):
            is_r.add(ci.name)
    # relatives of a renderer
    changed = True
    while changed:
        changed = False
        for ci in cands:
            if ci.name not in is_r and any((c in is_r and c in names) for c in pkg.mro(ci.name)[1:]):
                is_r.add(ci.name)
                changed = True
            if ci.name in is_r:
                for c in pkg.mro(ci.name)[1:]:
                    if c in names and c not in is_r:
                        is_r.add(c)
                        changed = True
    return [ci for ci in cands if ci.name in is_r], [ci for ci in cands if ci.name not in is_r]


def _kept_instances(pkg, names):
    """{helper class name: (file, line, where)} for helper instances that outlive one rendering call: built at module or class
    level, or stored into an attribute of an object (`self.x = Helper()`, also inside a display / call argument of such a store).
    An instance bound to a local of the call that builds it is dropped with the call."""
    kept = {}
    for f in RENDERER_FILES:
        mod = pkg.modules.get(f)
        if mod is None:
            continue

        def builds(node):
            return [c.func.id for c in ast.walk(node) if isinstance(c, ast.Call) and isinstance(c.func, ast.Name) and c.func.id in names]

        def scan(stmts, in_func):
            for st in stmts:
                if isinstance(st, (ast.FunctionDef, ast.AsyncFunctionDef)):
                    # defaults are evaluated once, at definition time
                    for d in st.args.defaults + [d for d in st.args.kw_defaults if d is not None]:
                        for h in builds(d):
                            kept.setdefault(h, (f, st.lineno, f"a default argument of `{st.name}`"))
                    scan(st.body, True)
                    continue
                if isinstance(st, ast.ClassDef):
                    scan(st.body, False)
                    continue
                if not in_func:
                    for h in builds(st):
                        kept.setdefault(h, (f, st.lineno, "module / class level"))
                    continue
                for n in ast.walk(st):
                    tg = n.targets if isinstance(n, ast.Assign) else [n.target] if isinstance(n, (ast.AugAssign, ast.AnnAssign)) and n.value is not None else []
                    if any(isinstance(_base(e), ast.Attribute) for t in tg for e in (t.elts if isinstance(t, (ast.Tuple, ast.List)) else [t])):
                        for h in builds(n.value):
                            kept.setdefault(h, (f, n.lineno, f"`{ast.unparse(tg[0])}`"))
                    if isinstance(n, ast.Call) and isinstance(n.func, ast.Attribute) and n.func.attr in MUTATORS | {"add", "append"} and isinstance(n.func.value, ast.Attribute):
                        for a in n.args:
                            for h in builds(a):
                                kept.setdefault(h, (f, n.lineno, f"`{ast.unparse(n.func.value)}`"))
        scan(mod.body, False)
        # a module-level name re-bound from inside a function (`global _TABLE; _TABLE = Helper()`)
        for fn in ast.walk(mod):
            if isinstance(fn, (ast.FunctionDef, ast.AsyncFunctionDef)):
                gl = {x for n in ast.walk(fn) if isinstance(n, ast.Global) for x in n.names}
                for n in ast.walk(fn):
                    if gl and isinstance(n, ast.Assign) and any(isinstance(t, ast.Name) and t.id in gl for t in n.targets):
                        for c in ast.walk(n.value):
                            if isinstance(c, ast.Call) and isinstance(c.func, ast.Name) and c.func.id in names:
                                kept.setdefault(c.func.id, (f, n.lineno, "a module global"))
    return kept


def _base(e):
    while isinstance(e, ast.Subscript):
        e = e.value
    return e


def stateless_renderer(ctx, pkg, rule):
    """What a rendering writes is a function of the network handed to THAT call: outside construction no method of a RENDERER
    (TemplateLoader, the patch classes: the classes of the renderer modules with a rendering entry point, or that other modules
    build) stores or mutates an attribute of the renderer (a memo of prepared contents, of species positions, of the last network).
    Such state makes the second rendering through the same loader depend on the first.  A HELPER class of those modules (an
    accumulator, a table, a record type) may keep state in its instances -- that is what it is for -- as long as no instance
    outlives the rendering call that built it: an instance kept at module / class level or in an attribute of another object
    carries what one rendering put into it over to the next."""
    from .c14 import _self_writes
    renderers, helpers = _renderer_classes(pkg)
    n = 0
    def construction_of(ci):
        """the construction methods of a class and the private helpers reached from them ONLY (a part of __init__ that was extracted)"""
        callers = {}
        for mname, m in ci.methods.items():
            for c in ast.walk(m):
                if isinstance(c, ast.Call) and isinstance(c.func, ast.Attribute) and isinstance(c.func.value, ast.Name) and c.func.value.id == "self":
                    callers.setdefault(c.func.attr, set()).add(mname)
        # (a method handed on as a value -- `cb = self._setup` -- may run any time: not construction)
        loose = {x.attr for m in ci.methods.values() for x in ast.walk(m) if isinstance(x, ast.Attribute) and isinstance(x.value, ast.Name) and x.value.id == "self"
                 and isinstance(x.ctx, ast.Load)} - set()
        called = {c.func.attr for m in ci.methods.values() for c in ast.walk(m) if isinstance(c, ast.Call) and isinstance(c.func, ast.Attribute)}
        cons = {m for m in ci.methods if m in CONSTRUCTION}
        for _ in range(4):
            more = {m for m in ci.methods if m not in cons and m.startswith("_") and not m.startswith("__") and callers.get(m) and callers[m] <= cons and m in called
                    and sum(1 for mm in ci.methods.values() for x in ast.walk(mm) if isinstance(x, ast.Attribute) and x.attr == m) ==
                    sum(1 for mm in ci.methods.values() for c in ast.walk(mm) if isinstance(c, ast.Call) and isinstance(c.func, ast.Attribute) and c.func.attr == m)}
            if not more:
                break
            cons |= more
        return cons
    for ci in renderers:
        cons = construction_of(ci)
        for mname, fn in sorted(ci.methods.items()):
            if mname in cons or not isinstance(fn, ast.FunctionDef):
                continue
            n += 1
            w = _self_writes(fn)
            key = f"{ci.name}.{mname}:keeps no state"
            if w:
                a = sorted(w)[0]
                ctx.bad(rule, key, (ci.file, w[a]), f"`{ci.name}.{mname}` stores into `self.{a}` of the renderer: what is kept there from one rendering is read by the next, so a second "
                        "rendering through the same loader (after the network was edited, or of another network) pastes terms, positions or contents that belong to the first",
                        expected="locals only; everything recomputed from the network of this call", found=", ".join(f"self.{x}" for x in sorted(w)))
            else:
                ctx.ok(rule, key, (ci.file, fn.lineno), "writes no attribute of the renderer")
    ctx.floor(rule, "renderer methods", n, 6)
    # helper classes whose methods change their own instance: harmless while every instance lives inside one rendering call
    stateful = {}
    for ci in helpers:
        for mname, fn in sorted(ci.methods.items()):
            if mname in CONSTRUCTION or not isinstance(fn, ast.FunctionDef):
                continue
            w = _self_writes(fn)
            if w:
                stateful.setdefault(ci.name, []).append((mname, sorted(w), min(w.values())))
    kept = _kept_instances(pkg, set(stateful)) if stateful else {}
    for ci in helpers:
        if ci.name not in stateful:
            continue
        key = f"{ci.name}:instances live inside one rendering"
        if ci.name in kept:
            f, line, where = kept[ci.name]
            m, attrs, _ = stateful[ci.name][0]
            ctx.bad(rule, key, (f, line), f"an instance of the helper `{ci.name}` is kept in {where} and `{ci.name}.{m}` changes it (self.{attrs[0]}): what one rendering accumulated in it is still "
                    "there for the next rendering through the same renderer", expected="the helper is built inside the rendering call that uses it (a local), or is never changed after construction",
                    found=f"{where}; writers: " + ", ".join(f"{m_}({', '.join(a_)})" for m_, a_, _ in stateful[ci.name]))
        else:
            ctx.ok(rule, key, (ci.file, ci.node.lineno), "a helper whose instances are locals of the call that builds them: nothing survives the call")


# ------------------------------------------------------------------ R6  who may READ the process-global tables

GLOBAL_READERS = {
    ("naunet/component.py", "Component._create_species"): "parsing a name: runs under the installation done by the Network entry points (R3)",
    ("naunet/patches.py", "EnzoPatch.render"): "saves the list, adds the Enzo elements, restores it (R3)",
}
GLOBAL_TABLE_READS = re.compile(r"^Species\.(known_elements|known_pseudoelements|_known_elements|_known_pseudoelements|_replacement)$")


def _parses_a_name(fn, read) -> bool:
    """fn is the name-parsing step of Component by what it DOES: the table read is the right-hand side of an `in` / `not in` test,
    and everything fn returns is a parameter handed through, None, or Species(<parameter>, ..) built from the tested name"""
    par = _parents(fn)
    p_ = par.get(read)
    if not (isinstance(p_, ast.Compare) and len(p_.ops) == 1 and isinstance(p_.ops[0], (ast.In, ast.NotIn)) and p_.comparators[0] is read and isinstance(p_.left, ast.Name)):
        return False
    params = {a.arg for a in fn.args.args + fn.args.kwonlyargs + fn.args.posonlyargs}
    tested = p_.left.id
    if tested not in params:
        return False
    rets = [r for r in ast.walk(fn) if isinstance(r, ast.Return)]
    built = 0
    local_built = set()
    for a in ast.walk(fn):
        if isinstance(a, ast.Assign) and len(a.targets) == 1 and isinstance(a.targets[0], ast.Name) and isinstance(a.value, ast.Call) and ast.unparse(a.value.func) == "Species" \
                and a.value.args and isinstance(a.value.args[0], ast.Name) and a.value.args[0].id == tested:
            local_built.add(a.targets[0].id)
    for r in rets:
        v = r.value
        if v is None or (isinstance(v, ast.Constant) and v.value is None) or (isinstance(v, ast.Name) and v.id in params):
            continue
        if isinstance(v, ast.Name) and v.id in local_built:
            built += 1
            continue
        if isinstance(v, ast.Call) and ast.unparse(v.func) == "Species" and v.args and isinstance(v.args[0], ast.Name) and v.args[0].id == tested:
            built += 1
            continue
        return False
    return built >= 1


def _r6(ctx, pkg):
    """The element / pseudo-element / replacement tables of Species are process-wide and belong to whichever network was built or
    edited LAST.  Outside species.py they are read only while a name is being parsed (right after the network installed its own
    lists); anything else -- a view of a Network, the renderer -- that reads them makes its result depend on the other networks of
    the process."""
    n = 0
    for f in pkg.files:
        if f == SP or f.startswith("naunet/examples/"):
            continue
        for qual, fn in _functions(pkg, f):
            for x in ast.walk(fn):
                e = x.func if isinstance(x, ast.Call) else x
                if not isinstance(e, ast.Attribute) or not isinstance(e.ctx, ast.Load):
                    continue
                t = ast.unparse(e)
                if not GLOBAL_TABLE_READS.match(t):
                    continue
                if isinstance(x, ast.Attribute) and any(isinstance(p, ast.Call) and p.func is x for p in ast.walk(fn)):
                    continue        # counted once, at the call
                n += 1
                why = GLOBAL_READERS.get((f, qual)) or next((w for (af, aq), w in GLOBAL_READERS.items() if af == f and _helper_of(pkg, qual, aq, f)), None)
                if why is None and f == "naunet/component.py" and _parses_a_name(fn, x):
                    # the sanctioned reader by ROLE, whatever the method is called
                    why = GLOBAL_READERS[("naunet/component.py", "Component._create_species")]
                ctx.check(why is not None, "R6", f"{qual}:reads {t}", (f, x.lineno), f"sanctioned reader: {why}" if why else
                          f"`{qual}` reads the process-global `{t}`: what it returns depends on the network that installed its lists last, not on this network "
                          "(render A, build B, render A again gives different files)",
                          expected="the network's own _known_elements / _known_pseudo_elements", found=t)
    ctx.floor("R6", "reads of the global Species tables", n, 3)


# ------------------------------------------------------------------ R5  rendering reads its inputs, it does not consume them

RENDERERS = ("naunet/templateloader.py", "naunet/patches.py")
SANCTIONED_INPUT_WRITES = {
    ("TemplateLoader.render", "network.reindex()"): "idempotent: assigns idxfromfile = position; a second rendering assigns the same values",
}
IN_PLACE = {"append", "add", "update", "pop", "remove", "clear", "extend", "insert", "sort", "reverse", "discard", "setdefault", "popitem",
            "difference_update", "intersection_update", "reindex", "add_reaction", "remove_reaction"}


def _root(e):
    while isinstance(e, (ast.Attribute, ast.Subscript)):
        e = e.value
    return e.id if isinstance(e, ast.Name) else None


def _input_aliases(fn, inputs):
    """locals that ARE an input object (x = param / x = param.attr / x = param[...]): still the caller's object"""
    alias = set(inputs)
    changed = True
    while changed:
        changed = False
        for n in ast.walk(fn):
            if isinstance(n, ast.Assign) and len(n.targets) == 1 and isinstance(n.targets[0], ast.Name) and isinstance(n.value, (ast.Name, ast.Attribute, ast.Subscript)) \
                    and _root(n.value) in alias and n.targets[0].id not in alias:
                alias.add(n.targets[0].id)
                changed = True
    return alias


def _r5(ctx, pkg):
    nfun = 0
    nwrites = 0
    for f in RENDERERS:
        ctx.saw(f)
        funcs = _functions(pkg, f)
        byname = {q.split(".")[-1]: fn for q, fn in funcs}
        pnames = {q: [a.arg for a in fn.args.args + fn.args.kwonlyargs if a.arg not in ("self", "cls")] for q, fn in funcs}
        # which parameters receive an object from OUTSIDE the module?  Every parameter of a function nobody in the module calls
        # (entry points); for a helper called only from inside, a parameter is an input only if some call site passes an input
        # (or an alias of one) -- a helper that fills lists its caller has just created does not touch the network.
        callsites = {}
        quals = {q for q, _ in funcs}
        # module-level functions whose name is not also a method's (a bare call then names that function) and is never handed around as a value
        modfuncs = {q for q in quals if "." not in q and sum(1 for q2 in quals if q2.split(".")[-1] == q) == 1}
        for q, fn in funcs:
            for c in ast.walk(fn):
                if isinstance(c, ast.Call) and isinstance(c.func, ast.Attribute) and isinstance(c.func.value, ast.Name) and c.func.value.id in ("self", "cls") and c.func.attr in byname:
                    callsites.setdefault(c.func.attr, []).append((q, fn, c))
                elif isinstance(c, ast.Call) and isinstance(c.func, ast.Name) and c.func.id in modfuncs:
                    # a helper FUNCTION of the module called by its bare name: the same, whatever kind of helper the piece was moved into
                    callsites.setdefault(c.func.id, []).append((q, fn, c))
                elif isinstance(c, ast.Call) and isinstance(c.func, ast.Attribute) and isinstance(c.func.value, ast.Name) and f"{c.func.value.id}.{c.func.attr}" in quals:
                    callsites.setdefault(c.func.attr, []).append((q, fn, c))        # a static helper called through the class name
        inputs = {q: (set(pnames[q]) if q.split(".")[-1] not in callsites else set()) for q, fn in funcs}
        changed = True
        while changed:
            changed = False
            for q, fn in funcs:
                nm = q.split(".")[-1]
                for cq, cfn, c in callsites.get(nm, []):
                    al = _input_aliases(cfn, inputs[cq])
                    ps = pnames[q]
                    bound = list(zip(ps, c.args)) + [(k.arg, k.value) for k in c.keywords if k.arg in ps]
                    for p_, a in bound:
                        if p_ not in inputs[q] and isinstance(a, (ast.Name, ast.Attribute, ast.Subscript)) and _root(a) in al:
                            inputs[q].add(p_)
                            changed = True
        for qual, fn in funcs:
            nfun += 1
            alias = _input_aliases(fn, inputs[qual])
            for n in ast.walk(fn):
                hit = None
                if isinstance(n, ast.Call) and isinstance(n.func, ast.Attribute) and n.func.attr in IN_PLACE and _root(n.func.value) in alias:
                    hit = ast.unparse(n)
                elif isinstance(n, (ast.Assign, ast.AugAssign)):
                    for t in (n.targets if isinstance(n, ast.Assign) else [n.target]):
                        if isinstance(t, (ast.Attribute, ast.Subscript)) and _root(t) in alias:
                            hit = ast.unparse(n)
                elif isinstance(n, ast.Delete):
                    for t in n.targets:
                        if isinstance(t, (ast.Attribute, ast.Subscript)) and _root(t) in alias:
                            hit = ast.unparse(n)
                if hit is None:
                    continue
                nwrites += 1
                text = " ".join(hit.split())
                why = SANCTIONED_INPUT_WRITES.get((qual, text))
                if why is None and isinstance(n, ast.Call) and not n.args and not n.keywords and isinstance(n.func.value, ast.Name):
                    # the same sanctioned call by ROLE: on the input object under whatever name the parameter has, in the sanctioned
                    # function or in a private helper that is a piece of it (reached from it and called from nowhere else)
                    for (aq, atext), w in SANCTIONED_INPUT_WRITES.items():
                        if atext.split(".", 1)[-1] == f"{n.func.attr}()" and (qual == aq or _helper_of(pkg, qual, aq, f)):
                            why = w
                ctx.check(why is not None, "R5", f"{qual}:writes input:{text[:70]}", (f, n.lineno),
                          f"sanctioned: {why}" if why else
                          "the renderer changes an object it was given (the network's own table/list): a second rendering of the same network starts from different data -- the output depends on how often it was rendered",
                          expected="inputs are read only (work on a copy)", found=text[:120])
    ctx.floor("R5", "renderer functions scanned", nfun, 15)
    ctx.floor("R5", "writes to inputs (sanctioned)", nwrites, 1)


def _functions(pkg, f):
    mod = pkg.modules[f]
    out = []
    for n in mod.body:
        if isinstance(n, (ast.FunctionDef, ast.AsyncFunctionDef)):
            out.append((n.name, n))
        elif isinstance(n, ast.ClassDef):
            for m in ast.walk(n):
                if isinstance(m, (ast.FunctionDef, ast.AsyncFunctionDef)):
                    out.append((f"{n.name}.{m.name}", m))
    return out


def _calls_of(fn, name):
    return [c for c in ast.walk(fn) if isinstance(c, ast.Call) and ((isinstance(c.func, ast.Attribute) and c.func.attr == name) or (isinstance(c.func, ast.Name) and c.func.id == name))]


def _name_order_use(pkg, f, qual, fn, name, depth=0) -> str:
    """What becomes of the order of the list bound to the local `name` of fn: 'free' -- it is only scanned by comprehensions
    that feed a set / an order-insensitive consumer, here or in the functions a private helper returns it to; 'sensitive' -- some
    use could let the order through; 'unknown' -- it is returned to callers this rule cannot match."""
    par = _parents(fn)
    # (every read of the local is judged: whatever else is bound to the name meets the same uses)
    verdict = "free"
    loads = [n for n in ast.walk(fn) if isinstance(n, ast.Name) and n.id == name and isinstance(n.ctx, ast.Load)]
    for l in loads:
        pl = par.get(l)
        if isinstance(pl, ast.comprehension) and pl.iter is l:
            comp = par.get(pl)
            pc = par.get(comp)
            if isinstance(comp, ast.SetComp):
                continue
            if isinstance(comp, (ast.ListComp, ast.GeneratorExp)) and isinstance(pc, ast.Call) and isinstance(pc.func, ast.Name) and pc.func.id in ORDER_FREE and comp in pc.args:
                continue
            return "sensitive"
        idx = None
        ret = pl if isinstance(pl, ast.Return) else None
        if isinstance(pl, ast.Tuple) and isinstance(par.get(pl), ast.Return):
            ret, idx = par.get(pl), pl.elts.index(l)
        if ret is None:
            return "sensitive"
        # handed back: the callers of a private helper go on with it
        if not _private(qual.split(".")[-1]):
            return "sensitive"
        users = _users_of(pkg, f, qual) if depth < 3 else None
        if not users:
            verdict = "unknown"
            continue
        fns, _ = _top_functions(pkg, f)
        for u in sorted(users):
            ufn = fns.get(u)
            if ufn is None:
                verdict = "unknown"
                continue
            upar = _parents(ufn)
            for c in _calls_of(ufn, qual.split(".")[-1]):
                a = upar.get(c)
                tgt = a.targets[0] if isinstance(a, ast.Assign) and a.value is c and len(a.targets) == 1 else None
                if idx is not None:
                    tgt = tgt.elts[idx] if isinstance(tgt, ast.Tuple) and idx < len(tgt.elts) else None
                if not isinstance(tgt, ast.Name):
                    verdict = "unknown"
                    continue
                v = _name_order_use(pkg, f, u, ufn, tgt.id, depth + 1)
                if v == "sensitive":
                    return v
                if v == "unknown":
                    verdict = v
    return verdict if loads else "sensitive"


def _list_order_use(pkg, f, qual, fn, node) -> str:
    """the same for the value of the list(..) call `node` (possibly concatenated with other lists) that is bound to a local"""
    par = _parents(fn)
    e, p_ = node, par.get(node)
    while isinstance(p_, ast.BinOp) and isinstance(p_.op, ast.Add):
        e, p_ = p_, par.get(p_)
    if not (isinstance(p_, ast.Assign) and p_.value is e and len(p_.targets) == 1 and isinstance(p_.targets[0], ast.Name)):
        return "sensitive"
    return _name_order_use(pkg, f, qual, fn, p_.targets[0].id)


def _exempt_by_role(f, qual, fn, it, how, node=None):
    """The same exemptions as EXEMPT, recognised by what the iterated value IS rather than by what the local or the function that
    holds the statement is called (a piece moved into a helper keeps its meaning)."""
    def is_groups(e):
        return isinstance(e, ast.Attribute) and e.attr == "grain_groups" and isinstance(e.value, ast.Name) and e.value.id == "self"
    if f == NF and is_groups(it):
        return EXEMPT[(NF, "Network.grains", "grain_groups")]
    if not isinstance(it, ast.Name):
        return None
    assigns = [n.value for n in ast.walk(fn) if isinstance(n, ast.Assign) and any(isinstance(t, ast.Name) and t.id == it.id for t in n.targets)]
    if f == NF and len(assigns) == 1 and is_groups(assigns[0]):
        return EXEMPT[(NF, "Network.grains", "grain_groups")]
    if how == "iter()":
        # the single-element guarantee: `if len(<it>) > 1: raise` stands before the use
        line = getattr(node, "lineno", 10 ** 9)
        for n in ast.walk(fn):
            if isinstance(n, ast.If) and ast.unparse(n.test).replace(" ", "") == f"len({it.id})>1" and n.body and isinstance(n.body[0], ast.Raise) and n.lineno < line:
                return EXEMPT[("naunet/reactions/reaction.py", "Reaction.grain_group", "groups")]
    return None


def _self_is_network(pkg, f, qual, depth=0) -> bool:
    """is `self` inside this function a Network?  A method of Network; a private function of network.py that only methods of
    Network (or such functions in turn) use -- a piece of theirs, handed their self.  In a module-level function of any other
    module a parameter called self is the object of that module's classes (a Reaction's `reactants` is a list)."""
    if qual.startswith("Network."):
        return True
    if "." in qual:
        return not qual[:1].isupper()
    if f != NF or depth > 3:
        return False
    users = _users_of(pkg, f, qual)
    return bool(users) and all(_self_is_network(pkg, f, u, depth + 1) for u in users)


def _r1(ctx, pkg):
    # the rule must fire on the positive fixture
    fx = ast.parse(FIXTURE).body[0]
    hits = unordered_iterations(fx, SetTyper(fx, SET_ATTRS))
    if len(hits) < 2:
        ctx.unrec("R1", "fixture", ("sa/props/c17.py", 0), f"the unordered-iteration rule matched {len(hits)} of the 2 constructs of its positive fixture")
    else:
        ctx.ok("R1", "positive fixture", ("sa/props/c17.py", 0), "rule fires on `for s in net.reactants | net.products` and on join over a set comprehension")
    nfun = 0
    for f in pkg.files:
        if any(f.startswith(x) for x in SCOPE_EXCLUDE):
            continue
        ctx.saw(f)
        for qual, fn in _functions(pkg, f):
            nfun += 1
            typer = SetTyper(fn, SET_ATTRS, in_network=_self_is_network(pkg, f, qual))
            for node, it, how in unordered_iterations(fn, typer):
                src = " ".join(ast.unparse(it).split())
                key = f"{qual}:{how}:{src[:60]}"
                why = EXEMPT.get((f, qual, src)) or _exempt_by_role(f, qual, fn, it, how, node)
                use = None
                if not why and how in ("list()", "tuple()"):
                    # judged by what is done with the list: scanned into sets only (also by the callers a private helper returns it to)
                    use = _list_order_use(pkg, f, qual, fn, node)
                    if use == "free":
                        why = "the list is only scanned by comprehensions whose results go into sets: its order reaches nothing"
                if why:
                    ctx.ok("R1", key, (f, node.lineno), f"exempt: {why}")
                elif use == "unknown":
                    ctx.unrec("R1", key, (f, node.lineno), f"{how} over the set-typed value `{src[:80]}` is handed back by a private helper to callers this rule does not match: "
                              "whether its order reaches a result is not decided")
                else:
                    ctx.bad("R1", key, (f, node.lineno),
                            f"{how} over the set-typed value `{src[:80]}`: the order of its elements depends on the interpreter's hash seed and reaches the result",
                            expected="sorted(..) before iterating", found=" ".join(ast.unparse(node).split())[:120])
    ctx.stats["functions_scanned"] = nfun
    ctx.floor("R1", "functions scanned", nfun, 190)
    # informational: the network-editing command (outside the rendering scope)
    ext = "naunet/console/commands/extend.py"
    if ext in pkg.modules:
        for qual, fn in _functions(pkg, ext):
            for node, it, how in unordered_iterations(fn, SetTyper(fn, SET_ATTRS)):
                ctx.note(f"informational (outside the rendering scope): {ext}:{node.lineno} {how} over `{ast.unparse(it)[:60]}` -- appended reactions come in hash-seed order")


NONDET_CALLS = {"random", "uuid", "time.time", "time.monotonic", "os.urandom", "id", "os.getpid", "os.environ", "os.listdir", "os.scandir", "glob.glob", "os.walk", "getpass"}


def _r2(ctx, pkg):
    now = []
    bad = []
    for f in pkg.files:
        if any(f.startswith(x) for x in SCOPE_EXCLUDE):
            continue
        mod = pkg.modules[f]
        for n in ast.walk(mod):
            if isinstance(n, ast.Call):
                s = ast.unparse(n.func)
                if s in ("datetime.now", "datetime.datetime.now", "datetime.today", "date.today"):
                    now.append((f, n.lineno))
                elif s in ("id", "hash") and f != "naunet/species.py" and "__hash__" not in _enclosing(mod, n):
                    bad.append((f, n.lineno, s))
                elif re.search(r"\b(random|uuid|secrets)\b", s) or s in ("time.time", "time.monotonic", "os.urandom", "os.getpid", "os.listdir", "os.scandir", "glob.glob", "os.walk"):
                    bad.append((f, n.lineno, s))
            elif isinstance(n, ast.Attribute) and ast.unparse(n) == "os.environ":
                bad.append((f, n.lineno, "os.environ"))
    allowed_now = {("naunet/templateloader.py", "TemplateLoader.__init__"), ("naunet/configuration.py", "BaseConfiguration.content")}
    for f, line in now:
        fn = _enclosing(pkg.modules[f], None, line)
        ok = (f, fn) in allowed_now or any(f == af and _helper_of(pkg, fn, aq, f) for af, aq in allowed_now)
        if not ok and fn and "." not in fn and _private(fn):
            # a private module-level function used by nobody but a sanctioned function of the same module is a piece of it
            users = {_enclosing(pkg.modules[f], x) for x in ast.walk(pkg.modules[f]) if isinstance(x, ast.Name) and x.id == fn and isinstance(x.ctx, ast.Load)}
            elsewhere = any(isinstance(x, (ast.Name, ast.Attribute, ast.alias)) and (getattr(x, "id", None) == fn or getattr(x, "attr", None) == fn or getattr(x, "name", "").split(".")[-1] == fn)
                            for g_ in pkg.files if g_ != f for x in ast.walk(pkg.modules[g_]))
            ok = bool(users) and not elsewhere and all((f, u) in allowed_now or any(f == af and _helper_of(pkg, u, aq, f) for af, aq in allowed_now) for u in users)
        ctx.check(ok, "R2", f"{f}:{fn}:datetime.now", (f, line), "embedded date (excluded by the property)" if ok else "an additional time source reaches generated output")
    for f, line, s in bad:
        # render.py checks directories with os.listdir only for emptiness
        fn = _enclosing(pkg.modules[f], None, line)
        use = _listing_use(pkg, f, line, s) if s in ("os.listdir", "os.scandir") else "used"
        if use == "empty":
            # (the commands check whether an output directory is empty: neither the names nor their order reach anything written)
            ctx.ok("R2", f"{f}:{fn}:{s}", (f, line), "directory listing used only as an emptiness test")
            continue
        if use == "unknown":
            ctx.unrec("R2", f"{f}:{fn}:{s}", (f, line), f"`{s}` is handed back by a private helper to callers this rule does not match: whether more than its emptiness is used is not decided")
            continue
        ctx.bad("R2", f"{f}:{fn}:{s}", (f, line), f"`{s}` is a source of run-to-run variation in a module that takes part in code generation")
    ctx.floor("R2", "datetime.now sites", len(now), 2)


def _truth_use(par, n) -> bool:
    """the expression n is used for its truth value / length only: the operand of `not`, the test of an if / while / conditional
    expression / assert, an operand of and / or that is itself so used, the argument of len() / bool() / any()"""
    p_ = par.get(id(n))
    if isinstance(p_, ast.UnaryOp) and isinstance(p_.op, ast.Not):
        return True
    if isinstance(p_, (ast.If, ast.While, ast.IfExp, ast.Assert)) and p_.test is n:
        return True
    if isinstance(p_, ast.BoolOp):
        return True
    if isinstance(p_, ast.Call) and isinstance(p_.func, ast.Name) and p_.func.id in ("len", "bool", "any") and n in p_.args:
        return True
    return False


def _listing_use(pkg, f, line, fname) -> str:
    """What every call of `fname` on that line is used for: 'empty' -- only its truth value / length (directly, through a local
    that is only tested, or through the value a private helper hands back to callers that only test it); 'used' -- something else is
    done with the names; 'unknown' -- the listing goes where this rule does not follow it."""
    mod = pkg.modules[f]
    parent = {}
    for n in ast.walk(mod):
        for ch in ast.iter_child_nodes(n):
            parent[id(ch)] = n
    calls = [n for n in ast.walk(mod) if isinstance(n, ast.Call) and getattr(n, "lineno", None) == line and ast.unparse(n.func) == fname]
    if not calls:
        return "used"
    fns, where = _top_functions(pkg, f)

    def value_use(n, qual, depth):
        """the use of the value of expression n, written in function qual"""
        if _truth_use(parent, n):
            return "empty"
        p_ = parent.get(id(n))
        fn = fns.get(qual)
        if fn is None:
            return "used"
        if isinstance(p_, ast.Assign) and p_.value is n and len(p_.targets) == 1 and isinstance(p_.targets[0], ast.Name):
            name = p_.targets[0].id
            verdict = "empty"
            # (every read of the local is judged: whatever else is bound to the name meets the same uses)
            loads = [x for x in ast.walk(fn) if isinstance(x, ast.Name) and x.id == name and isinstance(x.ctx, ast.Load)]
            for l in loads:
                v = value_use(l, qual, depth)
                if v == "used":
                    return v
                if v == "unknown":
                    verdict = v
            return verdict
        if isinstance(p_, ast.Return) and p_.value is n:
            if not _private(qual.split(".")[-1]):
                return "used"
            users = _users_of(pkg, f, qual) if depth < 3 else None
            if not users:
                return "unknown"
            verdict = "empty"
            for u in sorted(users):
                if u not in fns:
                    verdict = "unknown"
                    continue
                for c in _calls_of(fns[u], qual.split(".")[-1]):
                    v = value_use(c, u, depth + 1)
                    if v == "used":
                        return v
                    if v == "unknown":
                        verdict = v
            return verdict
        return "used"

    verdict = "empty"
    for c in calls:
        v = value_use(c, where.get(id(c), ""), 0)
        if v == "used":
            return v
        if v == "unknown":
            verdict = v
    return verdict


def _top_functions(pkg, f):
    """{qual: fn} of the module-level functions and of the methods of the module-level classes of file f, and {id(node): qual} for
    every node inside one of them (a nested function belongs to the function it is written in)"""
    cache = pkg.__dict__.setdefault("_c17_top", {})
    if f in cache:
        return cache[f]
    fns, where = {}, {}
    mod = pkg.modules[f]
    for n in mod.body:
        if isinstance(n, (ast.FunctionDef, ast.AsyncFunctionDef)):
            fns[n.name] = n
        elif isinstance(n, ast.ClassDef):
            for m in n.body:
                if isinstance(m, (ast.FunctionDef, ast.AsyncFunctionDef)):
                    # a property and its setter share a name: both are kept (the first under the bare name)
                    q = f"{n.name}.{m.name}"
                    k = 0
                    while q in fns:
                        k += 1
                        q = f"{n.name}.{m.name}#{k}"
                    fns[q] = m
    for q, fn in fns.items():
        for x in ast.walk(fn):
            where[id(x)] = q.split("#")[0]
    cache[f] = (fns, where)
    return cache[f]


def _file_of(pkg, qual):
    """the file that defines `Class.method` / a module-level function name (None when not exactly one does)"""
    if "." in qual:
        ci = pkg.classes.get(qual.split(".")[0])
        return ci.file if ci is not None else None
    fs = [f for f in pkg.files if any(isinstance(n, (ast.FunctionDef, ast.AsyncFunctionDef)) and n.name == qual for n in pkg.modules[f].body)]
    return fs[0] if len(fs) == 1 else None


def _users_of(pkg, f, qual):
    """Who uses the private helper `qual` of file f (a method `Class._m` or a module-level function `_f`): the set of qualified
    functions of f that CALL it, or None when it is used in any other way -- named without being called (handed around, decorated
    with, aliased), referred to outside a function or from another file.  A private METHOD is found by its attribute name on any
    receiver (self._m(..), cls._m(..), Class._m(..)); a module FUNCTION by its bare name."""
    name = qual.split(".")[-1]
    if not _private(name):
        return None
    fns, where = _top_functions(pkg, f)
    if qual not in fns:
        return None
    is_method = "." in qual
    for g_ in pkg.files:
        if g_ == f:
            continue
        for x in ast.walk(pkg.modules[g_]):
            if (isinstance(x, ast.Attribute) and x.attr == name) or (isinstance(x, ast.Name) and x.id == name and not is_method) \
                    or (isinstance(x, ast.alias) and x.name.split(".")[-1] == name):
                return None
    mod = pkg.modules[f]
    called = {id(c.func) for c in ast.walk(mod) if isinstance(c, ast.Call)}
    users = set()
    for x in ast.walk(mod):
        if is_method:
            ref = isinstance(x, ast.Attribute) and x.attr == name
        else:
            ref = (isinstance(x, ast.Name) and x.id == name) or (isinstance(x, ast.Attribute) and x.attr == name)
        if not ref:
            continue
        if id(x) not in called or id(x) not in where or not isinstance(x.ctx, ast.Load):
            return None
        if where[id(x)] != qual:            # (a helper that calls itself is still the same piece)
            users.add(where[id(x)])
    # a second definition of the same name in the file: which one a call reaches is not decided here
    ndef = sum(1 for x in ast.walk(mod) if isinstance(x, (ast.FunctionDef, ast.AsyncFunctionDef)) and x.name == name)
    if ndef != 1:
        return None
    return users


def _piece_of(pkg, f, qual, owners, _seen=None) -> bool:
    """`qual` (file f) is a private helper -- method or module-level function -- that nobody uses but the functions `owners` of the
    same file and other private helpers that are themselves pieces of them: what it does is done by, and only by, those owners.
    (Whatever a piece was moved into -- a method, a classmethod, a function of the module -- and however many levels deep.)"""
    if qual in owners:
        return True
    _seen = _seen or set()
    if qual in _seen:
        return False
    users = _users_of(pkg, f, qual)
    if not users:
        return False
    return all(u in owners or _piece_of(pkg, f, u, owners, _seen | {qual}) for u in users)


def _helper_of(pkg, qual, owner_qual, f=None) -> bool:
    """qual is a private method of the class of owner_qual, or a private function of its module, that is reached from owner_qual
    (through other such helpers) and used by nobody else: it is a piece of owner_qual"""
    if not qual or qual == owner_qual:
        return False
    f = f or _file_of(pkg, owner_qual)
    if f is None or f not in pkg.modules:
        return False
    return _piece_of(pkg, f, qual, {owner_qual})


def _enclosing(mod, node, line=None):
    line = line if line is not None else node.lineno
    best = ""
    for n in ast.walk(mod):
        if isinstance(n, ast.ClassDef):
            for m in ast.walk(n):
                if isinstance(m, (ast.FunctionDef, ast.AsyncFunctionDef)) and m.lineno <= line <= (m.end_lineno or m.lineno):
                    best = f"{n.name}.{m.name}"
    if not best:
        for m in ast.walk(mod):
            if isinstance(m, (ast.FunctionDef, ast.AsyncFunctionDef)) and m.lineno <= line <= (m.end_lineno or m.lineno):
                best = m.name
    return best


# ------------------------------------------------------------------ R3 global state

GLOBALS = {
    ("Species", "_known_elements"), ("Species", "_known_pseudoelements"), ("Species", "_replacement"),
    ("chemistrydata", "user_binding_energy"), ("chemistrydata", "user_photon_yield"), ("chemistrydata", "user_enthalpy"),
    ("KROMEReaction", "reacformat"), ("KROMEReaction", "_user_commons"), ("KROMEReaction", "_user_vars"),
    ("network", "supported_grain_model"), ("network", "supported_reaction_class"),
}
SANCTIONED = {
    "Species.__init__": "fills the default lists when both are empty",
    "Species.add_known_elements": "public API", "Species.add_known_pseudoelements": "public API",
    "Species.remove_known_elements": "public API", "Species.remove_known_pseudoelements": "public API",
    "Species.reset": "public API", "Species.set_known_elements": "public API", "Species.set_known_pseudoelements": "public API",
    "update_binding_energy": "public API", "update_photon_yield": "public API", "update_enthalpy": "public API",
    "KROMEReaction.initialize": "per-file reset", "KROMEReaction.preprocessing": "directive lines of the file being read",
    "define_reaction": "user registration decorator", "define_grain": "user registration decorator",
    "RenderCommand.handle": "installs the project's replacement table",
}
MUTATORS = {"append", "extend", "remove", "clear", "update", "pop", "insert", "setdefault"}


def _global_writes(pkg):
    """[(file, qualified function, line, owner, attr, how)]"""
    out = []
    names = {a for _, a in GLOBALS}
    for f in pkg.files:
        mod = pkg.modules[f]
        for qual, fn in _functions(pkg, f):
            for n in ast.walk(fn):
                tg = []
                if isinstance(n, ast.Assign):
                    tg = n.targets
                elif isinstance(n, ast.AugAssign):
                    tg = [n.target]
                tg = [e for t in tg for e in (t.elts if isinstance(t, (ast.Tuple, ast.List)) else [t])]      # a, b = x, y
                for t in tg:
                    if isinstance(t, ast.Attribute) and t.attr in names and isinstance(t.value, ast.Name) and t.value.id in ("cls", "Species", "KROMEReaction", "chemistrydata"):
                        out.append((f, qual, n.lineno, t.value.id, t.attr, "assign"))
                if isinstance(n, ast.Call) and isinstance(n.func, ast.Attribute) and n.func.attr in MUTATORS:
                    o = n.func.value
                    if isinstance(o, ast.Attribute) and o.attr in names and isinstance(o.value, ast.Name) and o.value.id in ("cls", "Species", "KROMEReaction", "chemistrydata", "self"):
                        if o.value.id == "self" and o.attr in ("_known_elements",) and f != SP:
                            continue
                        out.append((f, qual, n.lineno, o.value.id, o.attr, n.func.attr))
                    elif isinstance(o, ast.Name) and o.id in names:
                        out.append((f, qual, n.lineno, "module", o.id, n.func.attr))
                # the table handed to a helper of the same class that changes its parameter in place: the caller writes it
                if isinstance(n, ast.Call) and isinstance(n.func, ast.Attribute) and isinstance(n.func.value, ast.Name) and "." in qual:
                    cname = qual.split(".")[0]
                    ci = pkg.classes.get(cname)
                    if ci is not None and n.func.value.id in ("cls", "self", cname) and n.func.attr in ci.methods and ci.methods[n.func.attr] is not fn:
                        callee = ci.methods[n.func.attr]
                        params = [a.arg for a in callee.args.args]
                        if "staticmethod" not in {ast.unparse(d) for d in callee.decorator_list}:
                            params = params[1:]
                        mutated = _params_mutated(callee)
                        bound = list(zip(params, n.args)) + [(k.arg, k.value) for k in n.keywords if k.arg in params]
                        for p_, a in bound:
                            if p_ in mutated and isinstance(a, ast.Attribute) and a.attr in names and isinstance(a.value, ast.Name) \
                                    and a.value.id in ("cls", "Species", "KROMEReaction", "chemistrydata"):
                                out.append((f, qual, n.lineno, a.value.id, a.attr, f"{n.func.attr}({p_}).{mutated[p_]}"))
    return out


@functools.lru_cache(maxsize=None)
def _params_mutated(fn) -> dict:
    """parameter -> the in-place operation the function applies to it (the parameter is never re-bound)"""
    params = {a.arg for a in fn.args.args + fn.args.kwonlyargs}
    rebound = {n.id for n in ast.walk(fn) if isinstance(n, ast.Name) and isinstance(n.ctx, ast.Store)}
    out = {}
    for n in ast.walk(fn):
        if isinstance(n, ast.Call) and isinstance(n.func, ast.Attribute) and n.func.attr in STATE_MUTATORS and isinstance(n.func.value, ast.Name) and n.func.value.id in params - rebound:
            out.setdefault(n.func.value.id, n.func.attr)
        elif isinstance(n, (ast.Assign, ast.AugAssign, ast.Delete)):
            for t in (n.targets if isinstance(n, (ast.Assign, ast.Delete)) else [n.target]):
                if isinstance(t, ast.Subscript) and isinstance(t.value, ast.Name) and t.value.id in params - rebound:
                    out.setdefault(t.value.id, "item store")
    return out


STATE_MUTATORS = {"append", "extend", "remove", "clear", "update", "pop", "insert", "setdefault", "add", "discard", "popitem", "sort", "reverse"}


def discovered_state(ctx, pkg, rule="R3"):
    """Beyond the listed globals: ANY attribute defined in a class body that some function writes at run time (cls.X = ..,
    Class.X = .., self.X[..] = .. / self.X.update(..) where X is never bound on the instance) is process-wide state.  Today
    there is none outside GLOBALS; a new one (a cache, a memo table) makes the result depend on what the process did before."""
    classattrs, inst = {}, {}
    files = [f for f in pkg.files if not f.startswith("naunet/examples/")]
    for f in files:
        for n in ast.walk(pkg.modules[f]):
            if isinstance(n, ast.ClassDef):
                a = set()
                i = inst.setdefault(n.name, set())
                # the annotated fields of a dataclass / NamedTuple are set on every INSTANCE by the generated constructor (a mutable
                # default must be a default_factory: one object per instance); a bare annotation `x: T` binds nothing at class level
                record = any("dataclass" in ast.unparse(d) for d in n.decorator_list) or any(ast.unparse(b).split(".")[-1] == "NamedTuple" for b in n.bases)
                for st in n.body:
                    if isinstance(st, ast.Assign):
                        a |= {t.id for t in st.targets if isinstance(t, ast.Name)}
                    elif isinstance(st, ast.AnnAssign) and isinstance(st.target, ast.Name):
                        if record and "ClassVar" not in ast.unparse(st.annotation):
                            i.add(st.target.id)
                        elif st.value is not None:
                            a.add(st.target.id)
                classattrs.setdefault(n.name, set()).update(a)
                for m in ast.walk(n):
                    if isinstance(m, (ast.Assign, ast.AugAssign, ast.AnnAssign)):
                        for t in (m.targets if isinstance(m, ast.Assign) else [m.target]):
                            if isinstance(t, ast.Attribute) and isinstance(t.value, ast.Name) and t.value.id == "self":
                                i.add(t.attr)
    listed = {a for _, a in GLOBALS}
    allattrs = set().union(*classattrs.values()) if classattrs else set()
    # instance attributes of ANY class in the MRO chain count as instance-level (subclasses mutate self._symbols of Component)
    inst_all = set().union(*inst.values()) if inst else set()
    nscan = 0
    hits = {}
    for f in files:
        for qual, fn in _functions(pkg, f):
            nscan += 1
            for n in ast.walk(fn):
                cands = []
                if isinstance(n, (ast.Assign, ast.AugAssign)):
                    for t0 in (n.targets if isinstance(n, ast.Assign) else [n.target]):
                        for t in (t0.elts if isinstance(t0, (ast.Tuple, ast.List)) else [t0]):
                            b = t
                            while isinstance(b, ast.Subscript):
                                b = b.value
                            cands.append((b, b is not t, "assignment"))
                elif isinstance(n, ast.Call) and isinstance(n.func, ast.Attribute) and n.func.attr in STATE_MUTATORS:
                    b = n.func.value
                    while isinstance(b, ast.Subscript):
                        b = b.value
                    cands.append((b, True, f".{n.func.attr}()"))
                for b, inplace, how in cands:
                    if not (isinstance(b, ast.Attribute) and isinstance(b.value, ast.Name) and b.attr in allattrs and b.attr not in listed):
                        continue
                    o = b.value.id
                    classlevel = o == "cls" or o in classattrs or (o == "self" and inplace and b.attr not in inst_all)
                    if classlevel:
                        hits.setdefault((f, qual, b.attr), (n.lineno, how, o))
    for (f, qual, attr), (line, how, o) in sorted(hits.items()):
        ctx.bad(rule, f"new process-wide state:{qual}:{attr}", (f, line),
                f"`{qual}` writes `{o}.{attr}` ({how}), an attribute defined in a class body and shared by every instance and every network of the process; it is not one of "
                "the reviewed globals: what is generated now depends on what was parsed or rendered earlier in the same process (stale cache, tables of the previous network)",
                expected="per-instance state, or a reviewed global with a reset on every entry point", found=f"{o}.{attr} {how}")
    if not hits:
        ctx.ok(rule, "no process-wide state beyond the reviewed globals", ("naunet", 0), f"{nscan} functions scanned; class-body attributes are only read")
    ctx.floor(rule, "functions scanned for class-level writes", nscan, 190)


# ------------------------------------------------------------------ R3 helpers: what a Network method installs / parses, helpers included

def _private(name: str) -> bool:
    return name.startswith("_") and not name.startswith("__")


_CMPSYM = {"Eq": "==", "NotEq": "!=", "Lt": "<", "LtE": "<=", "Gt": ">", "GtE": ">=", "In": "in", "NotIn": "not in", "Is": "is", "IsNot": "is not"}
_BINSYM = {"Add": "+", "Sub": "-", "Mult": "*", "Div": "/", "Mod": "%", "FloorDiv": "//", "Pow": "**", "BitOr": "|", "BitAnd": "&"}


def _src(v, top=True):
    """Python text of a reconstructed condition (as ast.unparse would print the expression it stands for)"""
    from ..valueflow import show
    k = v[0]
    if k in ("param", "global"):
        return v[1]
    if k == "const":
        return repr(v[1])
    if k == "attr":
        return f"{_src(v[1], False)}.{v[2]}"
    if k == "bool":
        t = (" and " if v[1] == "And" else " or ").join(_src(x, False) for x in v[2])
        return t if top else f"({t})"
    if k == "unop" and v[1] == "Not":
        return f"not {_src(v[2], False)}"
    if k == "cmp":
        t = _src(v[2][0], False)
        for o, x in zip(v[1], v[2][1:]):
            t += f" {_CMPSYM.get(o, o)} {_src(x, False)}"
        return t if top else f"({t})"
    if k == "binop":
        t = f"{_src(v[2], False)} {_BINSYM.get(v[1], v[1])} {_src(v[3], False)}"
        return t if top else f"({t})"
    if k == "call":
        return f"{_src(v[1], False)}({', '.join([_src(a) for a in v[2]] + [f'{kk}={_src(x)}' for kk, x in v[3]])})"
    if k == "meth":
        return f"{_src(v[1], False)}.{v[2]}({', '.join([_src(a) for a in v[3]] + [f'{kk}={_src(x)}' for kk, x in v[4]])})"
    if k == "sub":
        return f"{_src(v[1], False)}[{_src(v[2])}]"
    return show(v)


def _guard_text(guards) -> str:
    """the condition under which a statement runs, as one Python expression ('' = always)"""
    from ..valueflow import norm_guard, simp
    parts = []
    for c, pol in guards:
        c, pol = norm_guard((simp(c), pol))
        if pol:
            parts.append(c)
        elif c[0] == "cmp" and len(c[1]) == 1 and c[1][0] in ("Eq", "In", "Is"):
            parts.append(("cmp", ({"Eq": "NotEq", "In": "NotIn", "Is": "IsNot"}[c[1][0]],), c[2]))
        else:
            parts.append(("unop", "Not", c))
    seen = []
    for p_ in parts:
        if p_ not in seen:
            seen.append(p_)
    if not seen:
        return ""
    return _src(seen[0]) if len(seen) == 1 else " and ".join(_src(x, False) for x in seen)


class _InstallSummary:
    """Per Network method: the statements that install this network's element lists into Species -- written in the method or in a
    private helper it calls as a statement (the helper's own guards are added to those of the call) -- and the lines on which a
    species name is parsed (Species(..), the reaction factory, a private helper that does either)."""

    def __init__(self, pkg):
        self.pkg = pkg
        self.ci = pkg.cls("Network")
        self._sites = {}
        self._parse = {}
        self._selfname = {}

    def _modhelper(self, name):
        """a private function of network.py whose first parameter can take the network (and that is not also a method's name)"""
        fn = self.pkg.functions.get((NF, name))
        return fn if fn is not None and _private(name) and name not in self.ci.methods and fn.args.args else None

    def _fn(self, name):
        return self.ci.methods.get(name) or self._modhelper(name)

    def _me(self, name, fn):
        """the name under which the function holds the network: the first parameter of a method, the parameter a module-level
        piece receives it in"""
        if name in self.ci.methods:
            return fn.args.args[0].arg if fn.args.args else "self"
        return self._selfname.get(name, "self")

    def sites(self, mname, depth=0):
        from ..valueflow import Flow, simp
        if mname in self._sites:
            return self._sites[mname]
        fn = self._fn(mname)
        out = []
        self._sites[mname] = out            # recursion guard
        if fn is None or depth > 3:
            return out
        SELF = ("param", self._me(mname, fn))
        fl = Flow(fn, NF)
        for f in fl.facts:
            if f.kind == "call" and f.value is not None and f.value[0] == "call" and simp(f.value[1])[0] == "global" and self._modhelper(simp(f.value[1])[1]) \
                    and simp(f.value[1])[1] != mname and SELF in [simp(a) for a in f.value[2]]:
                # a piece of the method moved into a private FUNCTION of the module that is handed the network (in whatever position)
                h = simp(f.value[1])[1]
                hp = [a.arg for a in self._modhelper(h).args.args]
                k = [simp(a) for a in f.value[2]].index(SELF)
                if k >= len(hp) or self._selfname.setdefault(h, hp[k]) != hp[k]:
                    continue
                for x in self.sites(h, depth + 1):
                    out.append({"what": x["what"], "guards": tuple(f.guards) + tuple(x["guards"]), "line": f.line, "loops": bool(f.loops) or x["loops"]})
                continue
            if f.kind != "call" or f.value is None or f.value[0] != "meth":
                continue
            obj, name = simp(f.value[1]), f.value[2]
            if obj == ("global", "Species") and name in ("set_known_elements", "set_known_pseudoelements"):
                out.append({"what": "elements" if name == "set_known_elements" else "pseudo", "guards": tuple(f.guards), "line": f.line, "loops": bool(f.loops)})
            elif obj == SELF and _private(name) and name in self.ci.methods and name != mname:
                for x in self.sites(name, depth + 1):
                    out.append({"what": x["what"], "guards": tuple(f.guards) + tuple(x["guards"]), "line": f.line, "loops": bool(f.loops) or x["loops"]})
        return out

    def parse_lines(self, mname, depth=0):
        if mname in self._parse:
            return self._parse[mname]
        fn = self._fn(mname)
        out = []
        self._parse[mname] = out
        if fn is None or depth > 3:
            return out
        me = self._me(mname, fn)
        for n in ast.walk(fn):
            if not isinstance(n, ast.Call):
                continue
            t = ast.unparse(n.func)
            if t == "Species" or "_reaction_factory" in t.split(".")[-1]:
                out.append(n.lineno)
            elif isinstance(n.func, ast.Name) and self._modhelper(t) is not None and t != mname and any(isinstance(a, ast.Name) and a.id == me for a in n.args):
                hp = [a.arg for a in self._modhelper(t).args.args]
                k = [isinstance(a, ast.Name) and a.id == me for a in n.args].index(True)
                if k < len(hp) and self._selfname.setdefault(t, hp[k]) == hp[k] and self.parse_lines(t, depth + 1):
                    out.append(n.lineno)
            elif isinstance(n.func, ast.Attribute) and isinstance(n.func.value, ast.Name) and n.func.value.id == me and n.func.attr in self.ci.methods and n.func.attr != mname:
                callee = n.func.attr
                if _private(callee):
                    if self.parse_lines(callee, depth + 1):
                        out.append(n.lineno)
                elif callee in ("add_reaction", "add_reaction_from_file"):
                    out.append(n.lineno)
        return out


def _r3(ctx, pkg):
    discovered_state(ctx, pkg, "R3")
    writes = _global_writes(pkg)
    # counted per (writer, table): how many statements a writer spreads the write over is a matter of style
    ctx.floor("R3", "writes to process-global state", len({(w[1], w[4]) for w in writes}), 25)
    seen = set()
    for f, qual, line, owner, attr, how in writes:
        q = qual
        key = f"{q}:{attr}"
        if key in seen:
            continue
        seen.add(key)
        if f == "naunet/patches.py":
            if _patch_restores(pkg):
                ctx.ok("R3", key, (f, line), "EnzoPatch.render saves and restores the element list around its temporary additions")
            elif any(isinstance(c, ast.Call) and isinstance(c.func, ast.Attribute) and c.func.attr in ("set_known_elements", "remove_known_elements", "reset")
                     for c in ast.walk(pkg.modules[f])):
                # something is handed back to Species, but not in the save-a-copy / restore-it spelling this rule reads
                ctx.unrec("R3", key, (f, line), "the patch renderer changes the known-element list; how it restores it is not read")
            else:
                ctx.bad("R3", key, (f, line), "the patch renderer changes the known-element list and does not restore it")
            continue
        ok = q in SANCTIONED or _only_called_by_sanctioned(pkg, q, f)
        ctx.check(ok, "R3", f"writer {key}", (f, line), f"sanctioned writer: {SANCTIONED.get(q, '')}" if ok else
                  f"`{qual}` writes the process-global `{attr}` ({how}); it is not one of the sanctioned writers: state set for one network leaks into the next one built in the same process")
    # installation discipline in Network
    ci = pkg.cls("Network")
    ctx.saw(NF, "Network")
    ninst = 0
    summ = _InstallSummary(pkg)
    for mname, fn in ci.methods.items():
        if _private(mname):
            continue        # private: always entered through a public entry point, where its statements are accounted for
        sites = summ.sites(mname)
        parses = summ.parse_lines(mname)
        if not parses and not sites:
            continue
        key = f"Network.{mname}"
        first_species = min(parses or [10 ** 9])
        if not sites:
            # delegates to an installing entry point before any name is parsed?
            deleg = [n.lineno for n in ast.walk(fn) if isinstance(n, ast.Call) and isinstance(n.func, ast.Attribute) and isinstance(n.func.value, ast.Name)
                     and n.func.value.id == "self" and not _private(n.func.attr) and summ.sites(n.func.attr)]
            own = [n.lineno for n in ast.walk(fn) if isinstance(n, ast.Call) and ast.unparse(n.func) == "Species"] + \
                  [ln for ln in parses if ln not in deleg]
            if deleg and min(deleg) < min(own or [10 ** 9]):
                ctx.ok("R3", f"{key}:installation", (NF, fn.lineno), "delegates to an installing entry point before any species name is parsed")
                continue
            # positive evidence only when nothing the method uses could install the lists: a decorator, or a function / class of the
            # module / a method it names whose body calls set_known_elements is a restructuring this rule does not follow
            named = {n.id for n in ast.walk(fn) if isinstance(n, ast.Name)} | {n.attr for n in ast.walk(fn) if isinstance(n, ast.Attribute)}
            hidden = []
            for x in sorted(named):
                cand = pkg.functions.get((NF, x)) or ci.methods.get(x) or (pkg.classes[x].node if x in pkg.classes and pkg.classes[x].file == NF else None)
                if cand is not None and cand is not fn and any(isinstance(c, ast.Call) and isinstance(c.func, ast.Attribute) and c.func.attr == "set_known_elements" for c in ast.walk(cand)):
                    hidden.append(x)
            if hidden:
                ctx.unrec("R3", f"{key}:installation", (NF, fn.lineno), f"Network.{mname} parses species names; whether {hidden} installs the lists first is not decided")
                continue
            ctx.bad("R3", f"{key}:installation", (NF, fn.lineno),
                    f"Network.{mname} parses species names but never installs this network's element lists: it uses whatever lists the last network left in Species")
            continue
        ninst += 1
        el = [x for x in sites if x["what"] == "elements"]
        ps = [x for x in sites if x["what"] == "pseudo"]
        inst = (el or ps)[0]
        before = inst["line"] < first_species
        ctx.check(bool(el) and bool(ps) and before, "R3", f"{key}:installs both lists first", (NF, inst["line"]), "elements and pseudo-elements are installed before any name is parsed")
        if inst["loops"]:
            ctx.unrec("R3", f"{key}:unconditional installation", (NF, inst["line"]), "the installation sits in a loop: whether it runs on every call is not decided")
            continue
        gtxt = _guard_text(inst["guards"])
        gkey = "".join(gtxt.split())
        # the key names the condition, not its spelling: the operands of a flat `or` / `and` in a fixed order
        for op_ in (" or ", " and "):
            other = " and " if op_ == " or " else " or "
            if op_ in gtxt and other not in gtxt and "(" not in gtxt and " if " not in gtxt:
                gkey = op_.strip().join(sorted("".join(x.split()) for x in gtxt.split(op_)))
        ctx.check(not gtxt, "R3", f"{key}:unconditional installation" + (f"[if {gkey}]" if gtxt else ""), (NF, inst["line"]),
                  "the network's lists are installed unconditionally" if not gtxt else
                  f"the installation is skipped when `{gtxt[:70]}` is false: a network with default (empty) lists inherits the tables of whichever "
                  "network was used before it in this process",
                  expected="Species.set_known_elements(..) on every call", found=f"if {gtxt[:70]}:" if gtxt else "")
    ctx.floor("R3", "installing entry points of Network", ninst, 6)
    # entry points that render: to_code / export build Species for ODE modifiers (through TemplateLoader) without installation
    for mname in ("to_code", "export"):
        fn = ci.methods.get(mname)
        if fn is None:
            continue
        ok = any(x["what"] == "elements" for x in summ.sites(mname))
        ctx.check(ok, "R3", f"Network.{mname}:installation", (NF, fn.lineno),
                  "installs the network's lists before rendering" if ok else
                  f"Network.{mname} renders (TemplateLoader builds Species(..) for ODE modifiers and Species.alias consults the global element list) without installing "
                  "this network's lists: HE+ renders as IDX_HeII or IDX_HEII depending on which network was touched last")
    # state written by RenderCommand and never re-installed per network
    for owner, attr in (("Species", "_replacement"), ("chemistrydata", "user_binding_energy"), ("chemistrydata", "user_photon_yield")):
        resets = [w for w in writes if w[4] == attr and w[1] in ("Species.reset",)]
        net_installs = [w for w in writes if w[4] == attr and w[0] == NF]
        ok = bool(net_installs)
        ctx.check(ok, "R3", f"{owner}.{attr}:per-network installation", (NF, 0),
                  "re-installed by Network for every network" if ok else
                  f"`{owner}.{attr}` is process-global, written by the render command / update_* helpers, and no Network entry point re-installs or clears it: "
                  "values configured for one network are used for every later network in the process")


def _only_called_by_sanctioned(pkg, qual, f=None) -> bool:
    """a private helper (a method of the class, or a function of the module the piece was moved into) all of whose users are
    sanctioned writers of the same file, or such helpers in turn, does their work: the write is theirs"""
    f = f or _file_of(pkg, qual)
    if f is None or f not in pkg.modules:
        return False
    return _piece_of(pkg, f, qual, set(SANCTIONED))


def _patch_restores(pkg):
    """the patch renderer saves a COPY of the element list in a local before its temporary additions and hands that local back to
    Species.set_known_elements afterwards (locals by role, not by name)"""
    fn = pkg.classes["EnzoPatch"].methods.get("render")
    if fn is None:
        return False
    saved = {}
    for n in ast.walk(fn):
        if isinstance(n, ast.Assign) and len(n.targets) == 1 and isinstance(n.targets[0], ast.Name):
            v = "".join(ast.unparse(n.value).split())
            if v in ("Species.known_elements().copy()", "list(Species.known_elements())", "Species.known_elements()[:]", "copy.copy(Species.known_elements())", "copy(Species.known_elements())"):
                saved[n.targets[0].id] = n.lineno
    restores = [n for n in ast.walk(fn) if isinstance(n, ast.Call) and ast.unparse(n.func) == "Species.set_known_elements" and len(n.args) == 1
                and isinstance(n.args[0], ast.Name) and n.args[0].id in saved and saved[n.args[0].id] < n.lineno]
    return bool(restores)


# ------------------------------------------------------------------ R4 KROME directive state

def _inline_context_managers(fn, mod):
    """`with K(a, b) [as v]: BODY` where K is a class of the same module with `__enter__` (and an `__init__` that only stores its
    arguments) or a `@contextmanager` generator function of the same module: the statements K runs on entry are written in front of
    BODY, parameters replaced by the arguments (`self.x` by what `__init__` stored).  `K(..) if c else nullcontext()` (in place or
    through a local bound once) runs them under `c`.  What K does on exit is not part of this view.  -> a copy of `fn` (or `fn`)."""
    import copy
    classes = {st.name: st for st in mod.body if isinstance(st, ast.ClassDef)}
    gens = {st.name: st for st in mod.body if isinstance(st, ast.FunctionDef) and any(ast.unparse(d).split(".")[-1] == "contextmanager" for d in st.decorator_list)}
    once = {}
    for n in ast.walk(fn):
        if isinstance(n, ast.Assign) and len(n.targets) == 1 and isinstance(n.targets[0], ast.Name):
            once.setdefault(n.targets[0].id, []).append(n.value)

    def is_null(e):
        return isinstance(e, ast.Call) and ast.unparse(e.func).split(".")[-1] == "nullcontext" and not e.args

    def bind(fd, call, skip_self):
        params = [a.arg for a in fd.args.args][1 if skip_self else 0:]
        if fd.args.vararg or fd.args.kwarg or fd.args.kwonlyargs or any(isinstance(a, ast.Starred) for a in call.args) or any(k.arg is None for k in call.keywords) or len(call.args) > len(params):
            return None
        b = dict(zip(params, call.args))
        for k in call.keywords:
            if k.arg not in params or k.arg in b:
                return None
            b[k.arg] = k.value
        for a, d in zip(params[len(params) - len(fd.args.defaults):], fd.args.defaults):
            b.setdefault(a, d)
        return b if set(b) == set(params) else None

    def subst(stmts, names, attrs):
        class S(ast.NodeTransformer):
            def visit_Name(self, n):
                return copy.deepcopy(names[n.id]) if isinstance(n.ctx, ast.Load) and n.id in names else n

            def visit_Attribute(self, n):
                if isinstance(n.value, ast.Name) and n.value.id == "self" and isinstance(n.ctx, ast.Load) and n.attr in attrs:
                    return copy.deepcopy(attrs[n.attr])
                return self.generic_visit(n)
        return [S().visit(copy.deepcopy(x)) for x in stmts]

    def entry(e):
        """-> (condition | None, [statements run on entry]) or None"""
        if isinstance(e, ast.Name) and len(once.get(e.id, ())) == 1:
            e = once[e.id][0]
        if isinstance(e, ast.IfExp) and (is_null(e.orelse) or is_null(e.body)):
            inner = entry(e.body if is_null(e.orelse) else e.orelse)
            if inner is None or inner[0] is not None:
                return None
            cond = e.test if is_null(e.orelse) else ast.UnaryOp(op=ast.Not(), operand=e.test)
            return cond, inner[1]
        if not (isinstance(e, ast.Call) and isinstance(e.func, ast.Name)):
            return None
        if e.func.id in gens:
            g = gens[e.func.id]
            b = bind(g, e, False)
            body = [x for x in g.body if not (isinstance(x, ast.Expr) and isinstance(x.value, ast.Constant))]
            ys = [i for i, x in enumerate(body) if isinstance(x, ast.Expr) and isinstance(x.value, ast.Yield)]
            if b is None or len(ys) != 1 or sum(isinstance(n, (ast.Yield, ast.YieldFrom)) for x in body for n in ast.walk(x)) != 1:
                return None
            return None, subst(body[:ys[0]], b, {})
        if e.func.id in classes:
            k = classes[e.func.id]
            ms = {x.name: x for x in k.body if isinstance(x, ast.FunctionDef)}
            if "__enter__" not in ms or k.bases and any(ast.unparse(b_) not in ("object",) for b_ in k.bases):
                return None
            attrs = {}
            if "__init__" in ms:
                b = bind(ms["__init__"], e, True)
                if b is None:
                    return None
                for x in ms["__init__"].body:
                    if isinstance(x, ast.Expr) and isinstance(x.value, ast.Constant):
                        continue
                    if isinstance(x, ast.Assign) and len(x.targets) == 1 and isinstance(x.targets[0], ast.Attribute) and isinstance(x.targets[0].value, ast.Name) and x.targets[0].value.id == "self":
                        attrs[x.targets[0].attr] = subst([ast.Expr(value=x.value)], b, attrs)[0].value
                    else:
                        return None
            elif e.args or e.keywords:
                return None
            body = [x for x in ms["__enter__"].body if not (isinstance(x, ast.Expr) and isinstance(x.value, ast.Constant)) and not isinstance(x, ast.Return)]
            if any(isinstance(n, ast.Return) for x in body for n in ast.walk(x)) or len(ms["__enter__"].args.args) != 1:
                return None
            return None, subst(body, {}, attrs)
        return None

    changed = [False]

    class W(ast.NodeTransformer):
        def visit_With(self, n):
            self.generic_visit(n)
            pre, keep = [], []
            for it in n.items:
                r = entry(it.context_expr)
                if r is None or it.optional_vars is not None and not isinstance(it.optional_vars, ast.Name):
                    keep.append(it)
                    continue
                stmts = r[1] if r[0] is None else [ast.If(test=copy.deepcopy(r[0]), body=r[1] or [ast.Pass()], orelse=[])]
                pre.extend(stmts)
                changed[0] = True
            if not pre:
                return n
            for x in pre:
                for y in ast.walk(x):
                    if hasattr(y, "lineno") or isinstance(y, (ast.stmt, ast.expr)):
                        y.lineno = y.end_lineno = n.lineno
                        y.col_offset = y.end_col_offset = 0
            rest = [ast.With(items=keep, body=n.body, lineno=n.lineno, col_offset=n.col_offset)] if keep else list(n.body)
            return pre + rest
    new = W().visit(copy.deepcopy(fn))
    return ast.fix_missing_locations(new) if changed[0] else fn


def krome_reset(ctx, pkg, rule="R4"):
    ci = pkg.cls("KROMEReaction")
    ctx.saw(KR, "KROMEReaction.preprocessing")
    _, pre = pkg.resolve("KROMEReaction", "preprocessing")
    _, ini = pkg.resolve("KROMEReaction", "initialize")
    def modpiece(c):
        """the call hands `cls` to a private function of the module whose parameter in that place is called cls too: a piece of the
        classmethod moved out of the class (its `cls.X = ..` are the class's)"""
        if not (isinstance(c, ast.Call) and isinstance(c.func, ast.Name) and _private(c.func.id)):
            return None
        h = pkg.functions.get((ci.file, c.func.id))
        if h is None:
            return None
        ps = [a.arg for a in h.args.args]
        given = [ps[i] for i, a in enumerate(c.args) if isinstance(a, ast.Name) and a.id == "cls" and i < len(ps)] + \
                [k.arg for k in c.keywords if isinstance(k.value, ast.Name) and k.value.id == "cls"]
        return h if given and all(g == "cls" for g in given) else None

    def with_helpers(fn):
        """the method and the private classmethods of the class it calls on cls (transitively): one body split in pieces"""
        out, todo = [fn], [fn]
        while todo:
            x = todo.pop()
            for c in ast.walk(x):
                if isinstance(c, ast.Call) and isinstance(c.func, ast.Attribute) and isinstance(c.func.value, ast.Name) and c.func.value.id == "cls" and _private(c.func.attr):
                    _, h = pkg.resolve("KROMEReaction", c.func.attr)
                    if h is not None and not any(h is y for y in out):
                        out.append(h)
                        todo.append(h)
                elif modpiece(c) is not None and not any(modpiece(c) is y for y in out):
                    out.append(modpiece(c))
                    todo.append(modpiece(c))
        return out
    mutated = set()
    for part in with_helpers(pre):
        for n in ast.walk(part):
            if isinstance(n, (ast.Assign, ast.AugAssign)):
                for t in (n.targets if isinstance(n, ast.Assign) else [n.target]):
                    for e in (t.elts if isinstance(t, (ast.Tuple, ast.List)) else [t]):
                        if isinstance(e, ast.Attribute) and isinstance(e.value, ast.Name) and e.value.id == "cls":
                            mutated.add(e.attr)
            if isinstance(n, ast.Call) and isinstance(n.func, ast.Attribute) and n.func.attr in MUTATORS and isinstance(n.func.value, ast.Attribute) \
                    and isinstance(n.func.value.value, ast.Name) and n.func.value.value.id == "cls":
                mutated.add(n.func.value.attr)
    reset = set()
    for part in with_helpers(ini):
        for n in ast.walk(part):
            if isinstance(n, ast.Assign):
                for t in n.targets:
                    for e in (t.elts if isinstance(t, (ast.Tuple, ast.List)) else [t]):
                        if isinstance(e, ast.Attribute) and isinstance(e.value, ast.Name) and e.value.id == "cls":
                            reset.add(e.attr)
    ctx.floor(rule, "directive attributes", len(mutated), 3, (KR, pre.lineno))
    # ways initialize() may reset an attribute that the scan above does not see: setattr / vars / __dict__ on the class, a call on
    # cls of a method that was not followed, a base-class initialize
    unread = sorted({ast.unparse(c.func)[:40] for part in with_helpers(ini) for c in ast.walk(part) if isinstance(c, ast.Call) and (
        (isinstance(c.func, ast.Name) and c.func.id in ("setattr", "vars", "super")) or
        (isinstance(c.func, ast.Attribute) and isinstance(c.func.value, ast.Name) and c.func.value.id == "cls" and not _private(c.func.attr)) or
        (modpiece(c) is None and any(isinstance(a_, ast.Name) and a_.id == "cls" for a_ in list(c.args) + [k_.value for k_ in c.keywords])))}
        | {"__dict__" for part in with_helpers(ini) for n in ast.walk(part) if isinstance(n, ast.Attribute) and n.attr == "__dict__"})
    for a in sorted(mutated):
        if a not in reset and unread:
            ctx.unrec(rule, f"KROMEReaction.initialize resets {a}", (KR, ini.lineno), f"whether initialize() resets `{a}` is hidden behind {unread}")
            continue
        ctx.check(a in reset, rule, f"KROMEReaction.initialize resets {a}", (KR, ini.lineno),
                  f"`{a}` is reset before every file" if a in reset else
                  f"`{a}` is changed by directive lines (preprocessing) but not reset in initialize(): directives of one file (also of a read that raised half-way) act on the next file")
    # Network calls initialize before reading, on every path
    from ..valueflow import Flow, simp, norm_guard, show, guards_satisfiable, _bool_atoms

    def skipped_when(f, recv, scenario):
        """The guards of the reset call `f` that can fail although something is about to be read: decided propositionally over
        the atomic conditions -- the format class exists (`recv` truthy / not None, whichever way and wherever the test is written:
        a guard clause that raises, a cached flag, a conjunction) and `scenario(atom) -> truth value | None` fixes the atoms that
        describe the reading scenario (the argument is not a Reaction instance).  -> texts of the guards not implied."""
        gs = [norm_guard((simp(g[0]), g[1])) for g in f.guards]
        atoms = set()
        for c, _ in gs:
            _bool_atoms(c, atoms)
        prem = []
        for a in atoms:
            if a == recv:
                prem.append((a, True))
            elif a[0] == "cmp" and a[1] in (("Is",), ("Eq",)) and a[2] == (recv, ("const", None)):
                prem.append((a, False))
            elif scenario(a) is not None:
                prem.append((a, scenario(a)))
        out = ["<loop>"] if f.loops else []
        for c, pol in gs:
            if guards_satisfiable(prem, [(c, not pol)]):
                out.append(_guard_text([(c, pol)]))
        return out
    net = pkg.cls("Network")
    import copy
    from ..normalize import inline_context_managers

    def module_level(name):
        ci_ = pkg.classes.get(name)
        return pkg.functions.get((NF, name)) or (ci_.node if ci_ is not None and ci_.file == NF else None)
    # the private method that parses one reaction string (kept as the call it is), under whatever suffix a renaming gave it
    cands = [m for m in net.methods if _private(m) and m.startswith("_add_reaction")]
    parse_m = "_add_reaction" if "_add_reaction" in net.methods or len(cands) != 1 else cands[0]
    for mname in ("add_reaction_from_file", "add_reaction"):
        # a reset that happens on ENTERING a `with` block (a context manager of the module bracketing the reading) is the reset
        # written in front of the block
        # (private helpers of the class / module the method was split into -- the reset, the reading loop -- are put back first, so
        # that order and conditions are read as if nothing had been extracted; the parsing call itself stays the call it is.  The
        # statements of a helper carry the line numbers of where they were written: renumbered in statement order)
        base_fn = net.methods[mname]
        try:
            exp = ast.parse(ast.unparse(pkg.expanded("Network", mname, keep=(parse_m,)))).body[0]
            ast.increment_lineno(exp, base_fn.lineno - 1)
        except (AnalysisError, RecursionError, SyntaxError, IndexError):
            exp = copy.deepcopy(base_fn)
        fn = inline_context_managers(exp, module_level)
        fl = Flow(fn, NF)
        init_calls = [f for f in fl.facts if f.kind == "call" and f.target == "initialize" and f.value is not None and f.value[0] == "meth" and not f.value[3]]
        reads_lines = [n.lineno for n in ast.walk(fn) if isinstance(n, ast.Call) and ast.unparse(n.func) == f"self.{parse_m}"]
        if not init_calls:
            # not in this method: in a private helper it calls?  then order and conditions are not decided here
            helpers = [n.func.attr for n in ast.walk(fn) if isinstance(n, ast.Call) and isinstance(n.func, ast.Attribute) and isinstance(n.func.value, ast.Name)
                       and n.func.value.id == "self" and _private(n.func.attr) and n.func.attr in net.methods]
            hs = [h for h in dict.fromkeys(helpers) if any(isinstance(c, ast.Call) and isinstance(c.func, ast.Attribute) and c.func.attr == "initialize" for c in ast.walk(net.methods[h]))]
            if hs:
                # the reset lives in a private helper: it must be called before the lines are read, and inside the helper it may depend
                # on nothing but the existence of the format class -- e.g. not on whether this network has met the format before
                h = hs[0]
                hcall = min(n.lineno for n in ast.walk(fn) if isinstance(n, ast.Call) and isinstance(n.func, ast.Attribute) and n.func.attr == h)
                hfl = Flow(net.methods[h], NF)
                hinit = [f for f in hfl.facts if f.kind == "call" and f.target == "initialize" and f.value is not None and f.value[0] == "meth" and not f.value[3]]
                if len(hinit) != 1 or not reads_lines:
                    ctx.unrec(rule, f"Network.{mname}:initialize before reading", (NF, fn.lineno), "the format class is initialised inside a helper: order and conditions are not decided")
                    continue
                ctx.check(hcall < min(reads_lines), rule, f"Network.{mname}:initialize before reading", (NF, fn.lineno), f"the helper `{h}` that initialises the format class is called before any line is parsed")
                f = hinit[0]
                recv = simp(f.value[1])
                # membership of the format NAME in the table of known formats is the same test as "the class exists"
                extra = skipped_when(f, recv, lambda a: True if a[0] == "cmp" and a[1] == ("In",) and a[2][1][0] == "global" else None)
                ctx.check(not extra, rule, f"Network.{mname}:initialize for every file", (NF, f.line),
                          "the reset depends on nothing but the existence of the format class" if not extra else
                          f"the per-file reset of the format class (in `{h}`) is skipped when `{extra[0]}` does not hold: directive state (@format, @common, @var) of the previous file "
                          "decodes the next one", expected=f"{_src(recv)[:60]}.initialize() on every path that reads", found=" and ".join(extra))
                continue
        K = f"Network.{mname}:initialize before reading"
        if not init_calls:
            # positive evidence only when nothing the method uses could do the reset: a function / class of the module it names
            # (a session object, a decorator, a wrapper) that calls initialize() somewhere is a restructuring this rule cannot follow
            named = {n.id for n in ast.walk(fn) if isinstance(n, ast.Name)} | {n.attr for n in ast.walk(fn) if isinstance(n, ast.Attribute)}
            hidden = sorted(x for x in named if (module_level(x) or net.methods.get(x)) is not None and (module_level(x) or net.methods.get(x)) is not net.methods[mname] and any(
                isinstance(c, ast.Call) and isinstance(c.func, ast.Attribute) and c.func.attr == "initialize" for c in ast.walk(module_level(x) or net.methods.get(x))))
            if hidden:
                ctx.unrec(rule, K, (NF, fn.lineno), f"the format class is initialised inside {hidden}: order and conditions are not decided")
            else:
                ctx.bad(rule, K, (NF, fn.lineno), "the format class is never initialised before the lines are parsed: directive state of the previous file decodes this one",
                        expected="rclass.initialize() before the first _add_reaction", found="no call of initialize()")
            continue
        if len(init_calls) > 1 or not reads_lines:
            ctx.unrec(rule, K, (NF, fn.lineno), f"{len(init_calls)} calls of initialize() and {len(reads_lines)} parsing calls: which reset belongs to which read is not decided")
            continue
        ok = init_calls[0].line < min(reads_lines)
        ctx.check(ok, rule, K, (NF, fn.lineno), "the format class is initialised before any line is parsed")
        # ... for EVERY file / string: the only condition it may depend on is that the format class exists
        if len(init_calls) == 1:
            f = init_calls[0]
            recv = simp(f.value[1])
            rtxt = _src(recv)
            # a Reaction INSTANCE was parsed elsewhere: nothing is read here, nothing to reset
            extra = skipped_when(f, recv, lambda a: False if a[0] == "call" and a[1] == ("global", "isinstance") and len(a[2]) == 2 and a[2][0][0] == "param"
                                 and a[2][1] == ("global", "Reaction") else None)
            ctx.check(not extra, rule, f"Network.{mname}:initialize for every file", (NF, f.line),
                      "the reset depends on nothing but the existence of the format class" if not extra else
                      f"the per-file reset of the format class is skipped when `{extra[0]}` does not hold: directive state (@format, @common, @var) of the previous file decodes the next one",
                      expected=f"{rtxt[:60]}.initialize() on every path that reads", found=" and ".join(extra))


def _r4(ctx, pkg):
    krome_reset(ctx, pkg, "R4")


MUTANTS = [
    {"name": "elements-ordered-by-global-list", "file": NF, "old": "        return [spec for spec in self.species if spec.is_atom]", "new": "        rank = {n: i for i, n in enumerate(Species.known_elements())}\n        return sorted([spec for spec in self.species if spec.is_atom], key=lambda a: rank.get(a.name, len(rank)))", "rules": ["R6"]},
    {"name": "initialize-skipped-for-continued-file", "edits": [
        {"file": NF, "old": "    def add_reaction_from_file(self, filename: str | Path, format: str) -> None:", "new": "    def add_reaction_from_file(self, filename: str | Path, format: str, continued: bool = False) -> None:"},
        {"file": NF, "old": "        if rclass:\n            rclass.initialize()\n        else:\n            raise RuntimeError(f\"Unknown format: {format}\")", "new": "        if not rclass:\n            raise RuntimeError(f\"Unknown format: {format}\")\n        elif not continued:\n            rclass.initialize()"}], "rules": ["R4"]},
    {"name": "component-species-cache", "edits": [
        {"file": "naunet/component.py", "old": "class Component:\n", "new": "class Component:\n    _species_cache = {}\n"},
        {"file": "naunet/component.py", "old": "            return Species(species_name, **kwargs)\n", "new": "            key = (species_name, *sorted(kwargs.items()))\n            if key not in self._species_cache:\n                self._species_cache[key] = Species(species_name, **kwargs)\n            return self._species_cache[key]\n"}], "rules": ["R3"]},
    {"name": "species-symbol-table-memo", "edits": [
        {"file": SP, "old": "    _replacement = {}\n", "new": "    _replacement = {}\n    _symtab = None\n"},
        {"file": SP, "old": "        if not self._alias:\n            basename = self.basename\n", "new": "        if not self._alias:\n            if Species._symtab is None:\n                Species._symtab = {}\n            basename = self.basename\n"}], "rules": ["R3"]},
    {"name": "render-pops-rate-modifier", "file": "naunet/templateloader.py", "old": "            for key, value in rate_modifier.items():\n                if key == reac.idxfromfile:", "new": "            for key, value in list(rate_modifier.items()):\n                if key == reac.idxfromfile and rate_modifier.pop(key, True):", "rules": ["R5"]},
    {"name": "render-sorts-network-species", "file": "naunet/templateloader.py", "old": "        speckws = network._species_kwargs\n", "new": "        speckws = network._species_kwargs\n        network.reaction_list.sort(key=str)\n", "rules": ["R5"]},
    {"name": "species-not-sorted", "file": NF, "old": "        speclist = sorted(\n            self._reactants | self._products | set(self._required_species)\n        )\n\n        connection", "new": "        speclist = list(\n            self._reactants | self._products | set(self._required_species)\n        )\n\n        connection", "rules": ["R1"]},
    {"name": "collect-through-set", "file": "naunet/utilities.py", "old": "    for comp in complist:\n        var_dict", "new": "    for comp in set(complist):\n        var_dict", "rules": ["R1"]},
    {"name": "install-call-deleted", "file": NF, "old": "        if self._known_elements or self._known_pseudo_elements:\n            Species.set_known_elements(self._known_elements)\n            Species.set_known_pseudoelements(self._known_pseudo_elements)\n\n        new_reactants = set()", "new": "        new_reactants = set()", "rules": ["R3"]},
    {"name": "krome-reset-moved-to-finalize", "file": KR, "old": "        cls._user_commons = []\n        cls._user_vars = []\n\n    @classmethod\n    def preprocessing", "new": "        pass\n\n    @classmethod\n    def finalize(cls) -> None:\n        cls._user_commons = []\n        cls._user_vars = []\n\n    @classmethod\n    def preprocessing", "rules": ["R4"]},
    {"name": "random-project-suffix", "file": "naunet/templateloader.py", "old": 'projver = datetime.now().strftime("%y.%m")', "new": 'projver = datetime.now().strftime("%y.%m") + str(__import__("random").random())[:4]', "rules": ["R2"]},
    {"name": "installation-skipped-when-same", "file": NF, "old": "        if self._known_elements or self._known_pseudo_elements:\n            Species.set_known_elements(self._known_elements)\n            Species.set_known_pseudoelements(self._known_pseudo_elements)\n\n        format = reaction.format", "new": "        if (self._known_elements + self._known_pseudo_elements) != (Species._known_elements + Species._known_pseudoelements):\n            Species.set_known_elements(self._known_elements)\n            Species.set_known_pseudoelements(self._known_pseudo_elements)\n\n        format = reaction.format", "rules": ["R3"]},
    {"name": "new-global-writer", "file": "naunet/templateloader.py", "old": "        species_kwargs = species_kwargs or {}\n\n        rate_sym", "new": "        species_kwargs = species_kwargs or {}\n        Species._replacement.update({})\n\n        rate_sym", "rules": ["R3"]},
    {"name": "sources-joined-from-set", "file": "naunet/configuration.py", "old": "        self._network_elements = [x.name for x in network.elements]", "new": "        self._network_elements = [x.name for x in set(network.elements)]", "rules": ["R1"]},
]
_INST = "        if self._known_elements or self._known_pseudo_elements:\n            Species.set_known_elements(self._known_elements)\n            Species.set_known_pseudoelements(self._known_pseudo_elements)\n"
_HELPER_AT = "    def __contains__(self, reac: Reaction) -> bool:\n"
MUTANTS += [
    # the installation moved into a private helper: the helper's own guard and the guard of the call both count
    {"name": "install-helper-skips-when-same", "edits": [
        {"file": NF, "old": _INST, "new": "        self._install_lists()\n", "count": 6},
        {"file": NF, "old": _HELPER_AT, "new": "    def _install_lists(self) -> None:\n        if Species.known_elements() == self._known_elements:\n            return\n"
                                               "        Species.set_known_elements(self._known_elements)\n        Species.set_known_pseudoelements(self._known_pseudo_elements)\n\n" + _HELPER_AT}], "rules": ["R3"]},
    {"name": "install-helper-never-called-by-setter", "edits": [
        {"file": NF, "old": _INST, "new": "        self._install_lists()\n", "count": 6},
        {"file": NF, "old": "        self._install_lists()\n\n        self._required_species = [", "new": "        self._required_species = ["},
        {"file": NF, "old": _HELPER_AT, "new": "    def _install_lists(self) -> None:\n" + _INST + "\n" + _HELPER_AT}], "rules": ["R3"]},
    {"name": "initialize-only-for-first-string", "file": NF, "old": "            if rclass:\n                rclass.initialize()\n            else:\n                raise RuntimeError(f\"Unknown format: {format}\")",
     "new": "            fresh = not self.reaction_list\n            if not rclass:\n                raise RuntimeError(f\"Unknown format: {format}\")\n            if fresh:\n                rclass.initialize()", "rules": ["R4"]},
]
_RESET = "    @classmethod\n    def reset(cls) -> None:\n"
MUTANTS += [
    {"name": "table-cleared-through-helper-by-new-writer", "file": SP, "old": _RESET,
     "new": "    @classmethod\n    def forget(cls) -> None:\n        cls._drop(cls._known_elements)\n\n    @staticmethod\n    def _drop(table) -> None:\n        table.clear()\n\n" + _RESET, "rules": ["R3"]},
    {"name": "time-stamp-in-helper-of-another-function", "edits": [
        {"file": "naunet/configuration.py", "old": "    @property\n    def content(self) -> str:\n",
         "new": "    def _stamp(self) -> str:\n        return datetime.now().strftime(\"%H%M%S\")\n\n    @property\n    def content(self) -> str:\n"},
        {"file": "naunet/configuration.py", "old": "        general[\"name\"] = self._name\n", "new": "        general[\"name\"] = self._name + self._stamp()\n"},
        {"file": "naunet/configuration.py", "old": "        self._network_grains = []\n\n    def _stamp", "new": "        self._network_grains = []\n        self._tag = self._stamp()\n\n    def _stamp"}], "rules": ["R2"]},
]
_KINIT = "        cls.reacformat = \"idx,r,r,r,p,p,p,p,tmin,tmax,rate\"\n        cls._user_commons = []\n        cls._user_vars = []\n"
MUTANTS += [
    {"name": "krome-reset-helper-forgets-format", "file": KR, "old": _KINIT,
     "new": "        cls._clear_directives()\n\n    @classmethod\n    def _clear_directives(cls) -> None:\n        cls._user_commons, cls._user_vars = [], []\n", "rules": ["R4"]},
]
BENIGN = [
    {"name": "krome-reset-through-private-helper", "file": KR, "old": _KINIT,
     "new": "        cls.reacformat = \"idx,r,r,r,p,p,p,p,tmin,tmax,rate\"\n        cls._clear_directives()\n\n    @classmethod\n    def _clear_directives(cls) -> None:\n        cls._user_commons, cls._user_vars = [], []\n"},
    {"name": "creation-time-in-private-helper-of-content", "edits": [
        {"file": "naunet/configuration.py", "old": "    @property\n    def content(self) -> str:\n",
         "new": "    def _fill_general(self, general) -> None:\n        general[\"creation_time\"] = datetime.now().strftime(\"%d/%m/%Y %H:%M:%S\")\n\n    @property\n    def content(self) -> str:\n"},
        {"file": "naunet/configuration.py", "old": "        general[\"creation_time\"] = datetime.now().strftime(\"%d/%m/%Y %H:%M:%S\")\n        general[\"name\"]", "new": "        self._fill_general(general)\n        general[\"name\"]"}]},
    {"name": "tables-extended-through-shared-helper", "edits": [
        {"file": SP, "old": "                cls._known_pseudoelements.remove(ele)\n                cls._known_elements.append(ele)\n            else:\n                cls._known_elements.append(ele)\n",
         "new": "                cls._move(ele, cls._known_pseudoelements, cls._known_elements)\n            else:\n                cls._move(ele, None, cls._known_elements)\n"},
        {"file": SP, "old": _RESET, "new": "    @staticmethod\n    def _move(ele, src, dst) -> None:\n        if src is not None:\n            src.remove(ele)\n        dst.append(ele)\n\n" + _RESET}]},
    {"name": "installation-in-private-helper", "edits": [
        {"file": NF, "old": _INST, "new": "        self._install_lists()\n", "count": 6},
        {"file": NF, "old": _HELPER_AT, "new": "    def _install_lists(self) -> None:\n" + _INST + "\n" + _HELPER_AT}]},
    {"name": "installation-helper-with-guard-clause", "edits": [
        {"file": NF, "old": _INST, "new": "        self._install_lists()\n", "count": 6},
        {"file": NF, "old": _HELPER_AT, "new": "    def _install_lists(self) -> None:\n        if not (self._known_elements or self._known_pseudo_elements):\n            return\n\n"
                                               "        Species.set_known_elements(self._known_elements)\n        Species.set_known_pseudoelements(self._known_pseudo_elements)\n\n" + _HELPER_AT}]},
    {"name": "initialize-behind-cached-test-and-guard-clause", "edits": [
        {"file": NF, "old": "        if not isinstance(reaction, Reaction):\n            # create reaction instance from string\n            # change some global settings or class attibutes if needed\n"
                            "            if rclass:\n                rclass.initialize()\n            else:\n                raise RuntimeError(f\"Unknown format: {format}\")",
         "new": "        from_string = not isinstance(reaction, Reaction)\n        if from_string:\n            if not rclass:\n                raise RuntimeError(f\"Unknown format: {format}\")\n            rclass.initialize()"},
        {"file": NF, "old": "        if rclass:\n            rclass.initialize()\n        else:\n            raise RuntimeError(f\"Unknown format: {format}\")\n\n        with open",
         "new": "        if rclass is None:\n            raise RuntimeError(f\"Unknown format: {format}\")\n        rclass.initialize()\n\n        with open"}]},
    {"name": "sorted-set-iteration", "file": NF, "old": "        source = self._reactants.difference(self._products)", "new": "        source = self._reactants.difference(self._products)\n        _names = [s.name for s in sorted(source)]"},
]

_ADD_INIT = ("        if not isinstance(reaction, Reaction):\n            # create reaction instance from string\n            # change some global settings or class attibutes if needed\n"
             "            if rclass:\n                rclass.initialize()\n            else:\n                raise RuntimeError(f\"Unknown format: {format}\")")
BENIGN += [
    # the unknown-format error as a conjunction guard clause of its own, the isinstance test cached in a flag used for the reset
    {"name": "initialize-after-conjunction-guard-clause", "file": NF, "old": _ADD_INIT,
     "new": "        from_string = not isinstance(reaction, Reaction)\n        if from_string and not rclass:\n            raise RuntimeError(f\"Unknown format: {format}\")\n\n"
            "        if from_string:\n            rclass.initialize()"},
]
MUTANTS += [
    # the same spelling with the reset additionally tied to the network being empty
    {"name": "initialize-after-guard-clause-only-when-empty", "file": NF, "old": _ADD_INIT,
     "new": "        from_string = not isinstance(reaction, Reaction)\n        if from_string and not rclass:\n            raise RuntimeError(f\"Unknown format: {format}\")\n\n"
            "        if from_string and not self.reaction_list:\n            rclass.initialize()", "rules": ["R4"]},
]

# ---- R7: helper classes of the renderer modules (accumulators, tables, record types) -------------------------------------------
TL = "naunet/templateloader.py"
_TL_CLS = "class TemplateLoader:\n"
_TALLY = ("class _Tally:\n    \"\"\"counts what a rendering emits\"\"\"\n\n    def __init__(self) -> None:\n        self.n = 0\n        self.names = []\n\n"
          "    def note(self, name: str) -> None:\n        self.n += 1\n        self.names.append(name)\n\n\n")
_RENDER_HEAD = "        templates = templates or self.templates\n        solver = self._solver\n"
BENIGN += [
    {"name": "helper-accumulator-local-to-render", "edits": [
        {"file": TL, "old": _TL_CLS, "new": _TALLY + _TL_CLS},
        {"file": TL, "old": _RENDER_HEAD, "new": _RENDER_HEAD + "        tally = _Tally()\n        tally.note(proj_name)\n"}]},
    {"name": "record-type-with-derived-property", "file": TL, "old": _TL_CLS,
     "new": "from typing import NamedTuple\n\n\nclass _Row(NamedTuple):\n    row: int\n    col: int\n\n    def flat(self, n: int) -> int:\n        return self.row * n + self.col\n\n\n" + _TL_CLS},
]
MUTANTS += [
    {"name": "helper-accumulator-kept-in-the-loader", "edits": [
        {"file": TL, "old": _TL_CLS, "new": _TALLY + _TL_CLS},
        {"file": TL, "old": "        self._solver = solver\n", "new": "        self._solver = solver\n        self._tally = _Tally()\n"},
        {"file": TL, "old": _RENDER_HEAD, "new": _RENDER_HEAD + "        self._tally.note(proj_name)\n"}], "rules": ["R7"]},
    {"name": "helper-accumulator-at-module-level", "edits": [
        {"file": TL, "old": _TL_CLS, "new": _TALLY + "_TALLY = _Tally()\n\n\n" + _TL_CLS},
        {"file": TL, "old": _RENDER_HEAD, "new": _RENDER_HEAD + "        _TALLY.note(proj_name)\n"}], "rules": ["R7"]},
    {"name": "loader-remembers-last-network", "file": TL, "old": _RENDER_HEAD, "new": _RENDER_HEAD + "        self._last_network = network\n", "rules": ["R7"]},
]
_LINES = ("class _Lines:\n    def __init__(self) -> None:\n        self.rows = []\n\n    def render_row(self, text: str) -> None:\n        self.rows.append(text)\n\n\n")
BENIGN += [
    # a helper built inside the rendering code stays a helper even if one of its methods is called render-something
    {"name": "local-helper-with-render-named-method", "edits": [
        {"file": TL, "old": _TL_CLS, "new": _LINES + _TL_CLS},
        {"file": TL, "old": _RENDER_HEAD, "new": _RENDER_HEAD + "        lines = _Lines()\n        lines.render_row(proj_name)\n"}]},
]
MUTANTS += [
    {"name": "patch-remembers-rendered-info", "file": "naunet/patches.py", "old": "    def _render_derived_field(self, info: NetworkInfo, path: Path | str = \"./\") -> None:\n",
     "new": "    def _render_derived_field(self, info: NetworkInfo, path: Path | str = \"./\") -> None:\n        self._info = info\n", "rules": ["R7"]},
]

# ---- R4: the per-file reset performed on ENTERING a context manager of the module (read in place by normalize.inline_context_managers) ----
_FILE_INIT = ("        if rclass:\n            rclass.initialize()\n        else:\n            raise RuntimeError(f\"Unknown format: {format}\")\n\n"
              "        with open(filename, \"r\") as networkfile:\n")
_FILE_FINAL = "                    raise e\n\n        rclass.finalize()\n"
_FACTORY_AT = "def _reaction_factory(react_string: str, format: str) -> Reaction:\n"
_CM_GEN = ("from contextlib import contextmanager\n\n\n@contextmanager\ndef _reading(rclass, format):\n    if not rclass:\n        raise RuntimeError(f\"Unknown format: {format}\")\n"
           "    rclass.initialize()\n    yield rclass\n    rclass.finalize()\n\n\n")
_CM_CLS = ("class _Reading:\n    def __init__(self, rclass, format, fresh=True):\n        self.rclass = rclass\n        self.format = format\n        self.fresh = fresh\n\n"
           "    def __enter__(self):\n        if not self.rclass:\n            raise RuntimeError(f\"Unknown format: {self.format}\")\n%s"
           "        return self\n\n    def __exit__(self, exc_type, exc, tb):\n        if exc_type is None:\n            self.rclass.finalize()\n        return False\n\n\n")
BENIGN += [
    {"name": "file-reset-on-entering-generator-context-manager", "edits": [
        {"file": NF, "old": _FACTORY_AT, "new": _CM_GEN + _FACTORY_AT},
        {"file": NF, "old": _FILE_INIT, "new": "        with _reading(rclass, format), open(filename, \"r\") as networkfile:\n"},
        {"file": NF, "old": _FILE_FINAL, "new": "                    raise e\n"}]},
    {"name": "file-reset-on-entering-session-object", "edits": [
        {"file": NF, "old": _FACTORY_AT, "new": _CM_CLS % "        self.rclass.initialize()\n" + _FACTORY_AT},
        {"file": NF, "old": _FILE_INIT, "new": "        with _Reading(rclass, format):\n          with open(filename, \"r\") as networkfile:\n"},
        {"file": NF, "old": _FILE_FINAL, "new": "                    raise e\n"}]},
]
MUTANTS += [
    # the session resets the format class only for a network that is still empty
    {"name": "session-object-resets-only-when-fresh", "edits": [
        {"file": NF, "old": _FACTORY_AT, "new": _CM_CLS % "        if self.fresh:\n            self.rclass.initialize()\n" + _FACTORY_AT},
        {"file": NF, "old": _FILE_INIT, "new": "        with _Reading(rclass, format, fresh=not self.reaction_list):\n          with open(filename, \"r\") as networkfile:\n"},
        {"file": NF, "old": _FILE_FINAL, "new": "                    raise e\n"}], "rules": ["R4"]},
    # the generator resets AFTER the block: the lines are decoded with the previous file's directives
    {"name": "generator-context-manager-resets-on-leaving", "edits": [
        {"file": NF, "old": _FACTORY_AT, "new": _CM_GEN.replace("    rclass.initialize()\n    yield rclass\n", "    yield rclass\n    rclass.initialize()\n") + _FACTORY_AT},
        {"file": NF, "old": _FILE_INIT, "new": "        with _reading(rclass, format), open(filename, \"r\") as networkfile:\n"},
        {"file": NF, "old": _FILE_FINAL, "new": "                    raise e\n"}], "rules": ["R4"]},
]

# ---- R8: the species order is total over names (shared with C15.R7) ----------------------------------------------------------------
_LT = "            return self.name < o.name\n"
_SORTKEY = ("    @property\n    def _sortkey(self):\n        if self.is_electron:\n            return (\"e\", -1, 0)\n        group = self.grain_group if self.is_grain else self.surface_group\n"
            "        return (self.basename, self.charge, group or 0)\n\n    def __repr__(self) -> str:\n")
MUTANTS += [
    {"name": "species-order-by-key-that-forgets-the-phase", "edits": [
        {"file": SP, "old": _LT, "new": "            return self._sortkey < o._sortkey\n"},
        {"file": SP, "old": "    def __repr__(self) -> str:\n", "new": _SORTKEY}], "rules": ["R8"]},
    {"name": "species-order-by-alias", "file": SP, "old": _LT, "new": "            return self.alias < o.alias\n", "rules": ["R8"]},
]
BENIGN += [
    {"name": "species-order-by-name-then-charge", "file": SP, "old": _LT, "new": "            return (self.name, self.charge) < (o.name, o.charge)\n"},
]

# ---- R3: fields of a dataclass are per-instance; a mutable bound in a plain class body is shared ------------------------------------
_TALLY_DC = ("from dataclasses import field\n\n\n@dataclass\nclass _Tally:\n    n: int = 0\n    names: list = field(default_factory=list)\n\n"
             "    def note(self, name: str) -> None:\n        self.n += 1\n        self.names.append(name)\n\n\n")
_TALLY_SHARED = ("class _Tally:\n    names = []\n\n    def note(self, name: str) -> None:\n        self.names.append(name)\n\n\n")
BENIGN += [
    {"name": "dataclass-accumulator-local-to-render", "edits": [
        {"file": TL, "old": _TL_CLS, "new": _TALLY_DC + _TL_CLS},
        {"file": TL, "old": _RENDER_HEAD, "new": _RENDER_HEAD + "        tally = _Tally()\n        tally.note(proj_name)\n"}]},
]
MUTANTS += [
    {"name": "accumulator-list-bound-in-the-class-body", "edits": [
        {"file": TL, "old": _TL_CLS, "new": _TALLY_SHARED + _TL_CLS},
        {"file": TL, "old": _RENDER_HEAD, "new": _RENDER_HEAD + "        tally = _Tally()\n        tally.note(proj_name)\n"}], "rules": ["R3"]},
]

# ---- wave 4: the condition an installation hangs on is named by its operands, not by their order ----
_INST = "        if self._known_elements or self._known_pseudo_elements:\n            Species.set_known_elements(self._known_elements)\n            Species.set_known_pseudoelements(self._known_pseudo_elements)\n"
BENIGN += [
    {"name": "installation-guard-operands-swapped", "file": NF, "old": _INST, "count": 6,
     "new": "        if self._known_pseudo_elements or self._known_elements:\n            Species.set_known_elements(self._known_elements)\n            Species.set_known_pseudoelements(self._known_pseudo_elements)\n"},
    {"name": "installation-in-private-helper-with-guard-clause", "edits": [
        {"file": NF, "old": _INST, "new": "        self._install_known_elements()\n", "count": 6},
        {"file": NF, "old": "    def find_duplicate_reaction(self, mode: str = None)",
         "new": "    def _install_known_elements(self):\n        if not (self._known_elements or self._known_pseudo_elements):\n            return\n        Species.set_known_elements(self._known_elements)\n"
                "        Species.set_known_pseudoelements(self._known_pseudo_elements)\n\n    def find_duplicate_reaction(self, mode: str = None)"}]},
]
